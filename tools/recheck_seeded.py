#!/venv/bin/python
"""Run the current quick checks against every seeded defect under /verif/seeded and record the outcome
in seeded/<id>/meta.json ('check_result_final').  Each patch is applied to its own scratch worktree of
/repo main (outside /repo and /verif), the check runs with FALCON_REPO pointing there, the worktree is removed.

usage: recheck_seeded.py [--jobs 3] [--only C01,C05-r2-1]
"""
import argparse
import concurrent.futures as cf
import glob
import json
import os
import re
import subprocess

PY = '/venv/bin/python'
VERIF = os.path.dirname(os.path.dirname(os.path.abspath(__file__)))


def sh(cmd, **kw):
    try:
        r = subprocess.run(cmd, capture_output=True, text=True, timeout=kw.pop('timeout', 1800), **kw)
        return r.returncode, r.stdout + r.stderr
    except subprocess.TimeoutExpired:
        return 'timeout', ''


def one(job):
    d, seed, nowrite = job
    sid = os.path.basename(d)
    meta = json.load(open(os.path.join(d, 'meta.json')))
    prop = meta['property']
    wt = '/tmp/seedwt/' + sid
    os.makedirs('/tmp/seedwt', exist_ok=True)
    sh(['git', '-C', '/repo', 'worktree', 'remove', '--force', wt])
    rc, out = sh(['git', '-C', '/repo', 'worktree', 'add', '--detach', wt, 'main'])
    try:
        rc, out = sh(['git', '-C', wt, 'apply', os.path.join(d, 'patch.diff')])
        if rc != 0:
            rc, out = sh(['git', '-C', wt, 'apply', '-3', os.path.join(d, 'patch.diff')])
        if rc != 0:
            res = {'applies': False, 'error': out[-300:]}
        else:
            env = dict(os.environ, FALCON_REPO=wt, VERIF_EVIDENCE_DIR='/tmp/seedwt/ev-' + sid, VERIF_JOBS='4')
            rc, out = sh([PY, os.path.join(VERIF, 'check.py'), prop, '--tier', 'quick', '--seed', str(seed)], cwd=VERIF, env=env)
            res = {'exit': rc, 'kinds': sorted(set(re.findall(r'kind=(\S+)', out)))[:6],
                   'caught': rc == 1}
        head = sh(['git', '-C', '/repo', 'rev-parse', '--short', 'HEAD'])[1].strip()
        vhead = sh(['git', '-C', VERIF, 'rev-parse', '--short', 'HEAD'])[1].strip()
        res.update(repo_head=head, verif_head=vhead, tier='quick')
        res['seed'] = seed
        if not nowrite:
            meta['check_result_final'] = res
            json.dump(meta, open(os.path.join(d, 'meta.json'), 'w'), indent=1)
        return sid, res
    finally:
        sh(['git', '-C', '/repo', 'worktree', 'remove', '--force', wt])
        sh(['rm', '-rf', '/tmp/seedwt/ev-' + sid])


def main():
    ap = argparse.ArgumentParser()
    ap.add_argument('--jobs', type=int, default=3)
    ap.add_argument('--only', default='')
    ap.add_argument('--seed', type=int, default=0)
    ap.add_argument('--no-write', action='store_true')
    a = ap.parse_args()
    only = [x for x in a.only.split(',') if x]
    dirs = sorted(glob.glob(os.path.join(VERIF, 'seeded', 'C*')))
    if only:
        dirs = [d for d in dirs if any(os.path.basename(d) == o or os.path.basename(d).startswith(o + '-') for o in only)]
    missed = []
    with cf.ThreadPoolExecutor(a.jobs) as ex:
        for sid, res in ex.map(one, [(d, a.seed, a.no_write) for d in dirs]):
            print(sid, 'CAUGHT' if res.get('caught') else 'MISSED', res.get('exit'), res.get('kinds', res.get('error')), flush=True)
            if not res.get('caught'):
                missed.append(sid)
    print('missed:', missed)


if __name__ == '__main__':
    main()
