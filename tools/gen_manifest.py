#!/venv/bin/python
"""Regenerate MANIFEST.json from the table below + which checks/cNN.py exist."""
import json
import os

HERE = os.path.dirname(os.path.dirname(os.path.abspath(__file__)))

TABLE = {
    'C01': ('exploration', 'reference-model monitor: independent tree-walk router model compared lookup by lookup with the real CompiledRouter over generated add_route/find histories',
            'Bounded-exhaustive route sets x representative paths plus random histories (accepted/rejected adds, compile flag); every find() judged by an independent DFS model.',
            'Trusted: the ~150-line router model (vlib/models/router.py) and converter re-implementations; only executions generated are judged.'),
    'C02': ('exploration', 'trace monitor + reference dispatch oracle over generated apps (routes, sinks, static routes) on WSGI and ASGI drivers',
            'Generated app configurations x request sets; the responder/sink/static route that ran and status/Allow are compared with an independent dispatch oracle.',
            'Trusted: dispatch oracle, own PEP 3333 / ASGI drivers.'),
    'C03': ('fault_enumeration', 'trace monitor: recorded call trace vs reference interpreter of the documented middleware stack discipline, with an action (return/complete/raise) enumerated per call site',
            'Bounded-exhaustive fault placement over middleware/hook/responder call sites for small stacks, random for larger; lifespan sequencing on the ASGI lifespan driver.',
            'Trusted: the reference interpreter written from docs; own drivers.'),
    'C04': ('exploration', 'reference-model monitor: MRO-scan handler oracle + independent JSON/XML decoders of the rendered error body',
            'Generated exception hierarchies, registration histories, raise sites and HTTPError payloads on both stacks.',
            'Trusted: handler-selection model, json/ElementTree decoders, negotiation reference shared with C11.'),
    'C05': ('fault_enumeration', 'protocol monitors (PEP 3333 monitor, ASGI HTTP event monitor) + response body model + close() counting, with stream/send failure index enumerated',
            'Response recipe matrix x status x method on both stacks; every index at which the stream raises or the server send fails is enumerated for streamed responses.',
            'Trusted: the two protocol monitors and the 30-line response model.'),
    'C06': ('exploration', 'differential monitor: request digest and normalised response compared across WSGI driver, ASGI driver and falcon.testing simulate_request',
            'Generated abstract requests mapped to environ/scope by a written-down mapping; digests of ~45 request attributes and response triples compared pairwise.',
            'Trusted: the request mapping (how common servers fill environ/scope); documented divergences are normalised.'),
    'C07': ('exploration', 'reference-model monitor: flat byte cursor vs real BoundedStream (WSGI/ASGI) over operation histories; fake wsgi.input / receive() count over-reads and blocked reads',
            'Bounded-exhaustive short histories x body/Content-Length/chunking classes and random longer ones, with disconnect positions enumerated.',
            'Trusted: cursor model; fake server streams.'),
    'C08': ('exploration', 'reference-model monitor: form-urlencoded reference reader and builtin conversions vs parse_query_string / typed getters; pure vs Cython twin differential under ASan+UBSan',
            'All strings up to a small length over a 12-symbol alphabet x 4 option combinations, random longer strings, typed getters over boundary classes.',
            'Trusted: 40-line reference reader; sanitizer coverage limited to the built twin.'),
    'C09': ('exploration', 'reference-model monitor: RFC-level parsers (Range, HTTP-date, ETag, Cookie, Forwarded, Host) vs request accessors; repeated-access and 4xx-only exception monitors',
            'ABNF-driven generators + mutations for ~40 accessors on WSGI and ASGI, three header-name casings, response->request round trip.',
            'Trusted: the RFC parsers in vlib/models/headers.py.'),
    'C10': ('exploration', 'reference-model monitor: RFC 3986 reference codec vs falcon.uri over an exhaustive small alphabet + random long strings; Cython twin under ASan+UBSan',
            'All strings of length <= 4 over a 20-symbol alphabet (quick: <= 3) through decode and four encoders; random strings to 8 KB; authority forms.',
            'Trusted: reference codec (vlib/models/uri.py). Exhaustive only within the stated bound.'),
    'C11': ('exploration', 'reference-model monitor: documented specificity order re-implemented vs mediatypes.quality/best_match; handler-mapping history monitor (model dict vs resolved handler)',
            'Accept-grammar generator x candidate lists; mutation histories on Handlers interleaved with resolutions through get_media()/resp.media.',
            'Trusted: reference negotiation implementation.'),
    'C12': ('exploration', 'round-trip monitor through the full app path on both drivers + stream-read counting monitor for parse-at-most-once',
            'Generated JSON documents / form mappings x chunkings; hostile bodies (truncation at every byte, wrong encodings, deep nesting); get_media call histories.',
            'Trusted: Python json for equality; drivers count reads.'),
    'C13': ('exploration', 'reference encoder oracle: parts known by construction vs parts parsed by real MultipartForm under all chunkings/consumption patterns; single-edit corruption monitor',
            'Generated forms, boundaries 1..70, chunkings to 1 byte, consumption patterns, limits at threshold +-1, single-byte edits; WSGI vs ASGI agreement.',
            'Trusted: reference multipart encoder.'),
    'C14': ('exploration', 'reference-model monitor: flat cursor vs real BufferedReader (sync pure / Cython twin / async) per operation over histories; invariant hooks via icontract',
            'Bounded-exhaustive data x chunking x delimiter x history (length <= 3), random long histories, nested delimit.',
            'Trusted: 60-line cursor model.'),
    'C15': ('exploration', 'reference-model monitor: case-insensitive map + cookie jar model vs Response over operation histories; RFC 6265 Set-Cookie parser on the emitted header list from both drivers',
            'Random operation histories over header/cookie/link API; emitted header list inspected at both server boundaries.',
            'Trusted: header map model, Set-Cookie parser.'),
    'C16': ('exploration', 'audit-hook monitor (sys.addaudithook open events) for containment + byte-exact body/range oracle on both drivers',
            'Traversal-grammar paths against scratch trees with an outside sentinel; exhaustive Range arithmetic for small sizes; If-Modified-Since boundaries.',
            'Trusted: audit events carry every open() made by Python code; range oracle.'),
    'C17': ('fault_enumeration', 'protocol monitor: independent ASGI WebSocket session automaton over events received by a fake server; responder/client scripts with send-failure index enumerated',
            'Bounded-exhaustive responder scripts x client scripts x send failure points, spec versions 2.0-2.4; random longer scripts.',
            'Trusted: the WebSocket automaton written from the ASGI spec.'),
    'C18': ('exploration', 'schedule controller: real WebSocket/_BufferedReceiver on a stepped asyncio loop, harness-chosen delivery/app-step interleavings; FIFO/bound/no-lost-wakeup monitors',
            'Exhaustive interleavings for small bounds (k deliveries x m app steps x capacities), random beyond.',
            'Trusted: stepped-loop controller produces only feasible schedules.'),
    'C19': ('exploration', 'schedule controller: sys.monitoring line-granular thread scheduler / stepped asyncio loop; serial-equivalence oracle on per-request unique tokens',
            'Preemption-bounded exhaustive thread schedules in the router lazy-compile window, random schedules, stress with yield injection; ASGI task interleavings.',
            'Trusted: serial reference run; line-granular preemption model (GIL atomicity of single bytecode lines).'),
    'C20': ('exploration', 'reference decision table monitor for CORS headers over the full configuration x request table on both drivers',
            'Exhaustive finite configuration universe x origins x methods x targets x stacks.',
            'Trusted: decision table written from the property statement / docs.'),
}

# checks that are finished, validated on the unchanged tree and committed
READY = {'C01', 'C06', 'C07', 'C02', 'C03', 'C04', 'C05', 'C08', 'C09', 'C10', 'C11', 'C12', 'C13', 'C14', 'C15', 'C16', 'C17', 'C18', 'C19', 'C20'}

PENDING_REASON = 'check not built yet in this session (designed in DESIGN.md section 4); nothing is claimed for it'


def main():
    checks, na = [], []
    for pid in sorted(TABLE):
        level, technique, text, note = TABLE[pid]
        if pid in READY and os.path.exists(os.path.join(HERE, 'checks', pid.lower() + '.py')):
            checks.append({
                'property_id': pid,
                'quick_cmd': '/venv/bin/python check.py %s --tier quick' % pid,
                'thorough_cmd': '/venv/bin/python check.py %s --tier thorough' % pid,
                'evidence_file': 'evidence/%s.json' % pid,
                'replay_cmd_template': '/venv/bin/python check.py %s --replay {path}' % pid,
                'engine': 'runtime-monitors',
                'level_claimed': {'category': level, 'text': text, 'design_ref': 'DESIGN.md section 4 ' + pid},
                'level_note': note,
                'technique': technique,
            })
        else:
            na.append({'property_id': pid, 'reason': PENDING_REASON})
    man = {
        'version': 1,
        'setup_cmd': '/venv/bin/python tools/setup.py',
        'hooks': {
            'guard': 'FALCON_VERIF_HOOKS',
            'enable': 'no source hooks are needed: checks observe at public boundaries (drivers, audit hooks, sys.monitoring); check.py sets FALCON_VERIF_HOOKS=1 for its children anyway',
            'baseline_off_cmd': 'cd /repo && /venv/bin/python -m pytest -ra -q -p no:cacheprovider --timeout=900 --continue-on-collection-errors',
            'source_commits': [],
            'add_only': True,
        },
        'engines': [{
            'name': 'runtime-monitors', 'path': 'check.py',
            'serves_properties': [c['property_id'] for c in checks],
            'kind_free_text': 'runs the real falcon sources (source-only import hook) under generated/hostile workloads; independent protocol, reference-model and trace monitors decide; sharded subprocesses; three-valued verdict',
        }],
        'checks': checks,
        'not_applicable': na,
        'notes': 'All checks import falcon from the /repo working-tree .py sources (stale cythonized .so are bypassed, see DESIGN.md 1.1). Exit 0 held, 1 violation, 2 inconclusive.',
    }
    with open(os.path.join(HERE, 'MANIFEST.json'), 'w') as f:
        json.dump(man, f, indent=1)
        f.write('\n')
    print('checks:', [c['property_id'] for c in checks])
    print('pending:', [n['property_id'] for n in na])


if __name__ == '__main__':
    main()
