#!/bin/bash
# usage: try_mutant.sh <patch.diff> <Cnn> [tier] [more Cnn...]  - applies the patch to a scratch worktree and runs the check there
P=$(realpath $1); shift
WT=${WT:-/tmp/mywt}
if [ ! -d $WT ]; then git -C /repo worktree add --detach $WT main >/dev/null 2>&1; fi
git -C $WT checkout -q -- . ; git -C $WT checkout -q --detach main
if ! git -C $WT apply $P 2>/dev/null; then
  if ! git -C $WT apply -3 $P 2>/dev/null; then echo "PATCH DOES NOT APPLY: $P"; git -C $WT checkout -q -- .; exit 3; fi
fi
TIER=${TIER:-quick}
for C in "$@"; do
  OUT=$(cd /verif && VERIF_EVIDENCE_DIR=/tmp/verif-mut-evidence FALCON_REPO=$WT VERIF_JOBS=${VERIF_JOBS:-8} ./check.py $C --tier $TIER 2>&1 | grep -v "^KNOWN-FINDING\|^NOTE" | cut -c1-300 | head -4)
  echo "[$C] $(echo "$OUT" | head -1)"
  echo "$OUT" | sed -n 2,4p | cut -c1-240
done
git -C $WT checkout -q -- . ; git -C $WT reset -q --hard main 2>/dev/null; git -C $WT clean -fdq 2>/dev/null
