#!/bin/bash
# usage: tools/run_all.sh <tier> [seed] [checks...]  - runs checks one after another, prints one line per check
TIER=${1:-quick}; SEED=${2:-0}; shift; shift
LIST="$@"; [ -z "$LIST" ] && LIST=$(/venv/bin/python -c "import json;print(' '.join(c['property_id'] for c in json.load(open('MANIFEST.json'))['checks']))")
for C in $LIST; do
  S=$(date +%s)
  RAW=$(/venv/bin/python check.py $C --tier $TIER --seed $SEED 2>&1); RC=$?
  OUT=$(echo "$RAW" | grep -v "^KNOWN-FINDING\|^NOTE\|conda")
  echo "$C rc=$RC $(( $(date +%s) - S ))s :: $(echo "$OUT" | head -3 | cut -c1-300 | tr '\n' '|')"
done
