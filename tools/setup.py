#!/venv/bin/python
"""MANIFEST.setup_cmd: offline preparation. Installs icontract/deal into .deps (git-ignored)
from the offline wheelhouse and verifies the source-only import hook works."""
import os
import subprocess
import sys

HERE = os.path.dirname(os.path.dirname(os.path.abspath(__file__)))
sys.path.insert(0, HERE)


def main():
    from vlib import bootstrap
    ok = bootstrap.ensure_deps()
    print('icontract/deal available:', ok)
    r = subprocess.run(
        [sys.executable, '-c',
         'import sys; sys.path.insert(0, %r)\n'
         'from vlib import bootstrap; bootstrap.install()\n'
         'import falcon, falcon.app, falcon.routing.compiled, falcon.asgi\n'
         'bad = bootstrap.assert_source_mode(); print("source-mode problems:", bad); sys.exit(1 if bad else 0)' % HERE],
        env=dict(os.environ, PYTHONDONTWRITEBYTECODE='1'))
    sys.exit(r.returncode)


if __name__ == '__main__':
    main()
