#!/venv/bin/python
"""Confirm seeded defects produced by independent sub-agents and run our checks against them.

For every /tmp/mutout/<Cnn>/patchN.diff:
  1. fresh scratch worktree of /repo (main), demo must exit 0 (pristine);
  2. apply the patch, demo must exit non-zero;
  3. the repository's whole suite must still pass (3440 passed);
  4. run the property's check (quick tier, FALCON_REPO=worktree) and record whether it reports a VIOLATION.
Results: /tmp/mutres/<Cnn>-<N>.json.  Usage: confirm_mutants.py [--jobs 4] [--only C01,C02] [--skip-suite] [--tier quick]
"""
import argparse
import concurrent.futures as cf
import glob
import json
import os
import re
import subprocess
import sys

PY = '/venv/bin/python'
SRC = os.environ.get('MUT_SRC', '/tmp/mutout')
RES = os.environ.get('MUT_RES', '/tmp/mutres')
VERIF = os.path.dirname(os.path.dirname(os.path.abspath(__file__)))


def sh(cmd, cwd=None, env=None, timeout=1800):
    try:
        r = subprocess.run(cmd, cwd=cwd, env=env, capture_output=True, text=True, timeout=timeout)
        return r.returncode, (r.stdout + r.stderr)
    except subprocess.TimeoutExpired:
        return 'timeout', ''


def one(job):
    prop, n, args = job
    patch = SRC + '/%s/patch%s.diff' % (prop, n)
    demo = SRC + '/%s/demo%s.py' % (prop, n)
    meta = SRC + '/%s/meta%s.json' % (prop, n)
    wt = '/tmp/mutwt/%s-%s' % (prop, n)
    res = {'property': prop, 'n': n, 'patch': patch}
    os.makedirs('/tmp/mutwt', exist_ok=True)
    sh(['git', '-C', '/repo', 'worktree', 'remove', '--force', wt])
    rc, out = sh(['git', '-C', '/repo', 'worktree', 'add', '--detach', wt, 'main'])
    if rc != 0:
        res['error'] = 'worktree: ' + out[-300:]
        return res
    try:
        env = dict(os.environ, FALCON_SRC=wt, PYTHONPATH=wt, PYTHONDONTWRITEBYTECODE='1')
        rc, out = sh([PY, demo], cwd=wt, env=env, timeout=600)
        res['demo_pristine_exit'] = rc
        rc, out = sh(['git', '-C', wt, 'apply', patch])
        if rc != 0:
            rc, out = sh(['git', '-C', wt, 'apply', '-3', patch])
        res['applies'] = (rc == 0)
        if rc != 0:
            res['error'] = 'patch does not apply on current main: ' + out[-300:]
            return res
        rc, out = sh([PY, demo], cwd=wt, env=env, timeout=600)
        res['demo_mutated_exit'] = rc
        res['demo_tail'] = out[-400:]
        if not args.skip_suite:
            rc, out = sh([PY, '-m', 'pytest', '-q', '-p', 'no:cacheprovider', '-n', '4', '--timeout=150',
                          '--continue-on-collection-errors', 'tests'], cwd=wt, env=env, timeout=3000)
            m = re.findall(r'^(?:\d+ failed, )?\d+ passed.*$', out, re.M)
            res['suite'] = m[-1] if m else out[-200:]
            res['suite_ok'] = bool(m) and '3440 passed' in m[-1] and 'failed' not in m[-1]
        checks = [prop] + [c for c in args.also.get('%s-%s' % (prop, n), [])]
        res['checks'] = {}
        for c in checks:
            if not os.path.exists(os.path.join(VERIF, 'checks', c.lower() + '.py')):
                res['checks'][c] = 'no-check'
                continue
            cenv = dict(os.environ, FALCON_REPO=wt, VERIF_EVIDENCE_DIR=RES + '/ev-%s-%s' % (prop, n),
                        VERIF_JOBS='4', VERIF_TIER=args.tier)
            rc, out = sh([PY, os.path.join(VERIF, 'check.py'), c, '--tier', args.tier], cwd=VERIF, env=cenv, timeout=3000)
            kinds = sorted(set(re.findall(r'kind=(\S+)', out)))
            res['checks'][c] = {'exit': rc, 'kinds': kinds[:6],
                                'line': [ln for ln in out.splitlines() if ln.startswith(('HELD', 'INCONCLUSIVE', 'VIOLATION'))][:1]}
        try:
            res['meta'] = json.load(open(meta))
        except Exception:  # noqa
            res['meta'] = None
    finally:
        sh(['git', '-C', '/repo', 'worktree', 'remove', '--force', wt])
    os.makedirs(RES, exist_ok=True)
    json.dump(res, open(RES + '/%s-%s.json' % (prop, n), 'w'), indent=1)
    return res


def main():
    ap = argparse.ArgumentParser()
    ap.add_argument('--jobs', type=int, default=3)
    ap.add_argument('--only', default='')
    ap.add_argument('--skip-suite', action='store_true')
    ap.add_argument('--tier', default='quick')
    ap.add_argument('--redo', action='store_true')
    args = ap.parse_args()
    args.also = {}
    only = set(x for x in args.only.split(',') if x)
    jobs = []
    for p in sorted(glob.glob(SRC + '/C*/patch*.diff')):
        prop = p.split('/')[-2]
        n = re.search(r'patch(\d+)\.diff', p).group(1)
        if only and prop not in only and '%s-%s' % (prop, n) not in only:
            continue
        if not args.redo and os.path.exists(RES + '/%s-%s.json' % (prop, n)):
            continue
        jobs.append((prop, n, args))
    with cf.ThreadPoolExecutor(args.jobs) as ex:
        for r in ex.map(one, jobs):
            c = r.get('checks', {})
            print(r['property'], r['n'], 'demo', r.get('demo_pristine_exit'), '->', r.get('demo_mutated_exit'),
                  '| suite', r.get('suite_ok'), '|', {k: (v if isinstance(v, str) else v['exit']) for k, v in c.items()},
                  r.get('error', ''), flush=True)


if __name__ == '__main__':
    main()
