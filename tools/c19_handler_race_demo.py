# Directed reproduction of known finding C19 runtime-handler-replacement-races-with-in-flight-resolution (two-switch schedule at the end).
import sys, json
sys.path.insert(0, '/verif')
from vlib import bootstrap; bootstrap.install()
from vlib import verdict
import importlib
c19 = importlib.import_module('checks.c19')
from vlib.sched import threads as TS
import falcon.routing.compiled as compiled_mod
rec = verdict.Rec('C19', 'quick', 0, 0, 1, budget_s=20, known_keys=verdict.load_known('C19').keys())
compiled_mod.Lock = TS.CoopLock
sched = TS.Scheduler(c19.wide); sched.install()
reqs = [{'method': 'POST', 'path': '/admin/handler', 'query': 'q=same&l=x', 'headers': [('X-Tok', 'tok0-36db'), ('Accept', 'application/json')], 'body': b''},
        {'method': 'GET', 'path': '/items/32580/ntok1-31b7', 'query': '', 'headers': [('X-Tok', 'tok1-31b7'), ('Accept', 'application/json')], 'body': b''}]
warm = {'method': 'GET', 'path': '/items/1/warm', 'query': '', 'headers': [('X-Tok', 'warm')], 'body': b''}
def build():
    app = c19.build_app(False, False, 1)
    return app
state = {'phase': 0}
def chooser(s, runnable, cur):
    w1 = s.workers[1]
    # run worker 1 until it is parked inside resolve() of handlers.py past the data lookup, then worker 0 to the end
    if state['phase'] == 0:
        if w1['where'] and w1['where'][0] == 'resolve' and w1['where'][2].endswith('falcon/media/handlers.py'):
            state['n'] = state.get('n', 0) + 1
            if state['n'] >= 3:
                state['phase'] = 1
        if 1 in runnable and state['phase'] == 0:
            return 1
    if state['phase'] == 1 and 0 in runnable:
        return 0
    return runnable[0]
vec = c19.run_controlled(rec, sched, build, reqs, chooser, 'B', isolated=False)
sched.uninstall()
print('violations', rec.counters.get('violations'), 'known', {k: v['n'] for k, v in rec.known.items()})
print([v['kind'] for v in rec.violations][:3])
for n in range(1, 12):
    rec = verdict.Rec('C19', 'quick', 0, 0, 1, budget_s=20, known_keys=verdict.load_known('C19').keys())
    sched = TS.Scheduler(c19.wide); sched.install()
    st = {'phase': 0, 'n': 0}
    def chooser(s, runnable, cur, st=st, n=n):
        w1 = s.workers[1]
        if st['phase'] == 0:
            if w1['where'] and w1['where'][0] == 'resolve' and w1['where'][2].endswith('falcon/media/handlers.py') and w1['state'] == 'parked':
                st['n'] += 1
                if st['n'] >= n:
                    st['phase'] = 1
            if 1 in runnable and st['phase'] == 0:
                return 1
        if st['phase'] == 1 and 0 in runnable:
            return 0
        return runnable[0]
    c19.run_controlled(rec, sched, build, reqs, chooser, 'B', isolated=False)
    sched.uninstall()
    print(n, 'violations', rec.counters.get('violations'), 'known', {k: v['n'] for k, v in rec.known.items()})
print('--- two-switch schedule')
for n in range(1, 10):
    rec = verdict.Rec('C19', 'quick', 0, 0, 1, budget_s=20, known_keys=verdict.load_known('C19').keys())
    sched = TS.Scheduler(c19.wide); sched.install()
    st = {'phase': 0, 'n': 0}
    def chooser(s, runnable, cur, st=st, n=n):
        w0, w1 = s.workers[0], s.workers[1]
        if st['phase'] == 0:
            if w1['where'] and w1['where'][0] == 'resolve' and w1['where'][2].endswith('falcon/media/handlers.py') and w1['state'] == 'parked':
                st['n'] += 1
                if st['n'] >= n:
                    st['phase'] = 1
            if 1 in runnable and st['phase'] == 0:
                return 1
        if st['phase'] == 1:
            # run worker 0 until it has left Handlers.__setitem__ (cache cleared), then let worker 1 finish
            if w0['where'] and w0['where'][0] == '__setitem__':
                st['seen_set'] = True
            if st.get('seen_set') and w0['where'] and w0['where'][0] != '__setitem__':
                st['phase'] = 2
            elif 0 in runnable:
                return 0
        if st['phase'] == 2 and 1 in runnable:
            return 1
        return runnable[0]
    c19.run_controlled(rec, sched, build, reqs, chooser, 'B', isolated=False)
    sched.uninstall()
    print(n, 'violations', rec.counters.get('violations'), 'known', {k: v['n'] for k, v in rec.known.items()})
