#!/venv/bin/python
"""Turn confirmed sub-agent output (<src>/<Cnn>/patchN.diff, demoN.py, metaN.json + confirm_mutants.py results)
into /verif/seeded/<Cnn>-r<round>-<N>/ entries.  usage: add_seeded.py <src_dir> <res_dir> <round>"""
import glob
import json
import os
import shutil
import subprocess
import sys

VERIF = os.path.dirname(os.path.dirname(os.path.abspath(__file__)))
WT = '/tmp/mywt'


def sh(*a):
    return subprocess.run(a, capture_output=True, text=True)


def main():
    src, res, rnd = sys.argv[1], sys.argv[2], sys.argv[3]
    if not os.path.isdir(WT):
        sh('git', '-C', '/repo', 'worktree', 'add', '--detach', WT, 'main')
    sh('git', '-C', WT, 'checkout', '-q', '--', '.')
    sh('git', '-C', WT, 'reset', '-q', '--hard', 'main')
    head = sh('git', '-C', '/repo', 'rev-parse', '--short', 'HEAD').stdout.strip()
    n_ok = 0
    for p in sorted(glob.glob(src + '/C*/patch*.diff')):
        prop = p.split('/')[-2]
        n = p.split('patch')[-1].split('.')[0]
        rf = '%s/%s-%s.json' % (res, prop, n)
        if not os.path.exists(rf):
            print('no result for', prop, n)
            continue
        r = json.load(open(rf))
        sid = '%s-r%s-%s' % (prop, rnd, n)
        if r.get('demo_pristine_exit') != 0 or not r.get('demo_mutated_exit') or not r.get('suite_ok'):
            print('skip', sid, r.get('demo_pristine_exit'), r.get('demo_mutated_exit'), r.get('suite_ok'), str(r.get('suite'))[:80])
            continue
        sh('git', '-C', WT, 'checkout', '-q', '--', '.')
        a = sh('git', '-C', WT, 'apply', p)
        if a.returncode != 0:
            print('DOES NOT APPLY on current main:', sid, a.stderr[-200:])
            continue
        d = os.path.join(VERIF, 'seeded', sid)
        os.makedirs(d, exist_ok=True)
        open(d + '/patch.diff', 'w').write(sh('git', '-C', WT, 'diff').stdout)
        sh('git', '-C', WT, 'checkout', '-q', '--', '.')
        shutil.copy('%s/%s/demo%s.py' % (src, prop, n), d + '/demo.py')
        try:
            m = json.load(open('%s/%s/meta%s.json' % (src, prop, n)))
        except Exception:  # noqa
            m = {}
        meta = {'id': sid, 'round': int(rnd), 'property': prop, 'summary': m.get('summary'),
                'needs_to_manifest': m.get('needs_to_manifest'), 'files': m.get('files'),
                'author': 'independent sub-agent, round %s (saw the property text, its own scratch worktree and one-line '
                          'summaries of the earlier rounds to avoid)' % rnd,
                'confirmed': {'by': 'tools/confirm_mutants.py in a fresh scratch worktree of /repo main', 'repo_head': head,
                              'demo_exit_pristine': 0, 'demo_exit_with_patch': r.get('demo_mutated_exit'),
                              'suite': r.get('suite')},
                'check_result_first_sweep': r.get('checks', {}).get(prop)}
        json.dump(meta, open(d + '/meta.json', 'w'), indent=1)
        n_ok += 1
    print('seeded dirs written:', n_ok)


if __name__ == '__main__':
    main()
