"""Line-granular controlled thread scheduler on sys.monitoring (DESIGN.md C19).

Worker threads run real code; at every LINE event inside a monitored code object the running
worker hands control back to the controller, which decides who runs next.  Exactly one worker
runs at a time, so a schedule is a replayable list of choices.  Locks created through
`CoopLock` never block in C: a worker that cannot take the lock parks as 'blocked' and the
controller schedules somebody else (if an edit removes the lock the shim is simply never used).
"""

import sys
import threading
import time

TOOL = 3                       # sys.monitoring tool id (free slot)
MON = sys.monitoring


class Deadlock(Exception):
    pass


class Stuck(Exception):
    """No worker reported back within the wall-clock watchdog: inconclusive, never a verdict."""


class CoopLock:
    """Drop-in for threading.Lock used by the code under test (acquire/release/context manager)."""

    sched = None               # set by Scheduler while a controlled run is active
    serial_mode = False        # single-threaded reference runs: a lock that is already held can never be released

    def __init__(self):
        self._real = threading.Lock()
        self.owner = None

    def acquire(self, blocking=True, timeout=-1):
        s = CoopLock.sched
        me = threading.get_ident()
        if s is None or me not in s.by_ident:
            if CoopLock.serial_mode and blocking and not self._real.acquire(False):
                raise Deadlock('lock is still held from an earlier request (leaked) in a single-threaded run')
            elif CoopLock.serial_mode and blocking:
                self.owner = me
                return True
            ok = self._real.acquire(blocking, timeout)
            if ok:
                self.owner = me
            return ok
        while True:
            if self._real.acquire(False):
                self.owner = me
                s.note('lock-acquired', me)
                return True
            if not blocking:
                return False
            s.park(blocked_on=self)

    def release(self):
        self.owner = None
        self._real.release()

    def locked(self):
        return self._real.locked()

    __enter__ = acquire

    def __exit__(self, *a):
        self.release()


class Scheduler:
    def __init__(self, is_monitored_code, watchdog_s=30.0):
        """is_monitored_code(code) -> bool decides where workers yield."""
        self.is_monitored = is_monitored_code
        self.cv = threading.Condition()
        self.watchdog_s = watchdog_s
        self.reset()

    def reset(self):
        self.workers = []          # worker records
        self.by_ident = {}
        self.current = None        # index of the worker allowed to run
        self.trace = []            # (worker, event, detail)
        self.yields = 0
        self.armed = False

    # ---- monitoring plumbing
    def install(self):
        MON.use_tool_id(TOOL, 'verif-sched')
        MON.register_callback(TOOL, MON.events.LINE, self._on_line)
        MON.set_events(TOOL, MON.events.LINE)

    def uninstall(self):
        MON.set_events(TOOL, 0)
        MON.register_callback(TOOL, MON.events.LINE, None)
        MON.free_tool_id(TOOL)

    def _on_line(self, code, lineno):
        if not self.is_monitored(code):
            return MON.DISABLE
        if not self.armed:
            return None
        w = self.by_ident.get(threading.get_ident())
        if w is None:
            return None
        w['where'] = (code.co_name, lineno, code.co_filename)
        self.park()
        return None

    # ---- worker side
    def note(self, what, ident):
        w = self.by_ident.get(ident)
        if w is not None:
            self.trace.append((w['idx'], what))

    def park(self, blocked_on=None):
        w = self.by_ident[threading.get_ident()]
        with self.cv:
            w['state'] = 'blocked' if blocked_on is not None else 'parked'
            w['blocked_on'] = blocked_on
            self.yields += 1
            self.current = None
            self.cv.notify_all()
            while self.current != w['idx']:
                self.cv.wait()
            w['state'] = 'running'
            w['blocked_on'] = None

    def _worker_main(self, w, fn):
        self.by_ident[threading.get_ident()] = w
        with self.cv:
            w['state'] = 'parked'
            self.cv.notify_all()
            while self.current != w['idx']:
                self.cv.wait()
            w['state'] = 'running'
        try:
            w['result'] = ('ok', fn())
        except BaseException as ex:  # noqa
            w['result'] = ('raised', repr(ex))
        with self.cv:
            w['state'] = 'done'
            self.current = None
            self.cv.notify_all()

    # ---- controller side
    def run(self, fns, chooser):
        """Run the callables as controlled workers. chooser(sched, runnable, current_idx_or_None) -> idx.

        Returns list of results. Raises Deadlock / Stuck."""
        self.reset()
        CoopLock.sched = self
        for i, fn in enumerate(fns):
            w = {'idx': i, 'state': 'new', 'result': None, 'where': None, 'blocked_on': None, 'spins': 0}
            self.workers.append(w)
            t = threading.Thread(target=self._worker_main, args=(w, fn), daemon=True)
            w['thread'] = t
        self.armed = True
        try:
            for w in self.workers:
                w['thread'].start()
            last = None
            with self.cv:
                while True:
                    # wait until nobody is running
                    deadline = time.monotonic() + self.watchdog_s
                    while self.current is not None or any(w['state'] in ('new', 'running') for w in self.workers):
                        if not self.cv.wait(timeout=1.0) and time.monotonic() > deadline:
                            raise Stuck('no worker reported back within %.0f s' % self.watchdog_s)
                    live = [w for w in self.workers if w['state'] != 'done']
                    if not live:
                        break
                    runnable = []
                    for w in live:
                        if w['state'] == 'blocked':
                            lock = w['blocked_on']
                            if lock.locked():
                                continue
                        runnable.append(w['idx'])
                    if not runnable:
                        raise Deadlock('all live workers wait for a lock that nobody will release: %s' % [
                            (w['idx'], w['where']) for w in live])
                    nxt = chooser(self, runnable, last if (last is not None and last in runnable and
                                                           self.workers[last]['state'] == 'parked') else None)
                    self.trace.append((nxt, 'run'))
                    last = nxt
                    self.current = nxt
                    self.cv.notify_all()
            return [w['result'] for w in self.workers]
        finally:
            self.armed = False
            CoopLock.sched = None
            # release any worker still parked so that the daemon threads can end
            with self.cv:
                for w in self.workers:
                    if w['state'] != 'done':
                        self.current = w['idx']
                        self.cv.notify_all()


class ChoiceTape:
    """Stateless-DFS bookkeeping: replays a prefix of recorded choices, then takes option 0
    and records how many options there were, so that `advance()` yields the next schedule."""

    def __init__(self):
        self.prefix = []      # choices to replay
        self.log = []         # (n_options, chosen) of the current run
        self.root = 0         # choices below this depth are fixed (subtree exploration)

    def begin(self):
        self.log = []

    def choose(self, n):
        i = len(self.log)
        c = self.prefix[i] if i < len(self.prefix) else 0
        if c >= n:
            c = 0
        self.log.append((n, c))
        return c

    def advance(self):
        """Move to the next unexplored choice vector; False when the space is exhausted."""
        log = self.log
        while len(log) > self.root and log[-1][1] + 1 >= log[-1][0]:
            log.pop()
        if len(log) <= self.root:
            return False
        n, c = log.pop()
        self.prefix = [x[1] for x in log] + [c + 1]
        return True


def explore_partitioned(run_once, shard, nshards, cap):
    """Stateless DFS over all choice vectors, partitioned among shards by the position of the
    first non-default choice.  run_once(tape) executes one schedule drawing its choices from
    tape.choose(n).  Returns (#schedules run by this shard, truncated?)."""
    tape = ChoiceTape()
    tape.begin()
    run_once(tape, shard == 0)               # the all-default schedule (counted by shard 0 only)
    default_log = list(tape.log)
    n_run = 1
    for p, (n, _) in enumerate(default_log):
        if p % nshards != shard:
            continue
        for c in range(1, n):
            tape.prefix = [0] * p + [c]
            tape.root = p + 1
            while True:
                tape.begin()
                run_once(tape, True)
                n_run += 1
                if n_run >= cap:
                    return n_run, True
                if not tape.advance():
                    break
    return n_run, False
