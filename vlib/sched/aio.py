"""Stepped asyncio loop: the harness runs the real event loop one iteration at a time.

* virtual clock (timers fire when the controller advances time, never by sleeping);
* inline executor (run_in_executor work completes synchronously, so 'idle' is decidable);
* quiescence: no ready handle and no live timer while the awaited task is unfinished
  == logically blocked forever (decided without wall-clock time).
"""

import asyncio
import concurrent.futures
import heapq


class InlineExecutor(concurrent.futures.ThreadPoolExecutor):
    def __init__(self):
        super().__init__(max_workers=1)

    def submit(self, fn, *args, **kwargs):
        f = concurrent.futures.Future()
        try:
            f.set_result(fn(*args, **kwargs))
        except BaseException as ex:  # noqa
            f.set_exception(ex)
        return f


class Stepper:
    def __init__(self):
        self.loop = asyncio.new_event_loop()
        self.vt = 0.0
        self.loop.time = self._time
        self.loop.set_default_executor(InlineExecutor())
        self.loop.set_exception_handler(self._exc_handler)
        self.loop_errors = []
        self.steps = 0
        try:
            import falcon.util.sync as fsync
            fsync._one_thread_to_rule_them_all = InlineExecutor()
        except Exception:  # noqa
            pass

    def _time(self):
        return self.vt

    def _exc_handler(self, loop, context):
        self.loop_errors.append(repr(context.get('exception') or context.get('message')))

    # one loop iteration: everything ready now runs, newly readied things wait
    def step(self):
        self.steps += 1
        self.loop.call_soon(self.loop.stop)
        self.loop.run_forever()

    def ready_count(self):
        return len(self.loop._ready)

    def live_timers(self):
        return [h for h in self.loop._scheduled if not h._cancelled]

    def advance_to_next_timer(self):
        t = self.live_timers()
        if not t:
            return False
        self.vt = max(self.vt, min(h._when for h in t)) + 1e-9
        return True

    def run(self, coro, max_steps=200000, advance_timers=True):
        """Drive coro to completion. Returns (outcome, value) with outcome in
        'done' | 'raised' | 'blocked' | 'steps'."""
        asyncio.set_event_loop(self.loop)
        task = self.loop.create_task(coro)
        outcome = self.drive(task, max_steps, advance_timers)
        if outcome in ('blocked', 'steps'):
            task.cancel()
            for _ in range(50):
                self.step()
                if task.done():
                    break
            return outcome, None
        if task.cancelled():
            return 'raised', asyncio.CancelledError()
        ex = task.exception()
        if ex is not None:
            return 'raised', ex
        return 'done', task.result()

    def drive(self, task, max_steps=200000, advance_timers=True):
        n = 0
        while not task.done():
            self.step()
            n += 1
            if task.done():
                break
            if not self.loop._ready:
                if advance_timers and self.advance_to_next_timer():
                    continue
                return 'blocked'
            if n >= max_steps:
                return 'steps'
        return 'done'

    def pending_tasks(self):
        return [t for t in asyncio.all_tasks(self.loop) if not t.done()]

    def close(self):
        try:
            for t in self.pending_tasks():
                t.cancel()
            for _ in range(20):
                self.step()
            self.loop.close()
        except Exception:  # noqa
            pass


_shared = None


def shared():
    global _shared
    if _shared is None or _shared.loop.is_closed():
        _shared = Stepper()
    return _shared
