"""Source-only import of the falcon working tree (DESIGN.md 1.1 / 1.2).

Every harness process calls ``install()`` before importing falcon.  After it,
``import falcon.*`` compiles the current ``.py`` files under ``$FALCON_REPO``
(default /repo); stale cythonized ``.so`` files next to them are ignored.

Twin modes (only for falcon/cyutil): ``twin_dir`` names a directory holding
extension modules ``uri/reader/misc*.so`` that are mapped onto the package
``falcon.cyutil``.
"""

import importlib.machinery as _m
import os
import sys

REPO = os.path.realpath(os.environ.get('FALCON_REPO', '/repo'))
VERIF = os.path.dirname(os.path.dirname(os.path.abspath(__file__)))

_installed = {}


def install(twin_dir=None):
    if _installed:
        if _installed['twin_dir'] != twin_dir:
            raise RuntimeError('bootstrap.install called twice with different modes')
        return
    if any(n == 'falcon' or n.startswith('falcon.') for n in sys.modules):
        raise RuntimeError('falcon imported before bootstrap.install()')
    sys.dont_write_bytecode = True
    pkg = os.path.join(REPO, 'falcon')
    cy = os.path.join(pkg, 'cyutil')

    def _hook(path):
        rp = os.path.realpath(path) if path else path
        if twin_dir is not None and rp == cy:
            return _m.FileFinder(
                twin_dir,
                (_m.ExtensionFileLoader, _m.EXTENSION_SUFFIXES),
            )
        if rp == REPO or rp == pkg or rp.startswith(pkg + os.sep):
            return _m.FileFinder(path, (_m.SourceFileLoader, _m.SOURCE_SUFFIXES))
        raise ImportError

    sys.path_hooks.insert(0, _hook)
    sys.path_importer_cache.clear()
    # the editable-install finder would silently fall back to /repo/falcon
    sys.meta_path[:] = [
        f for f in sys.meta_path if 'editable' not in getattr(f, '__module__', '') and
        'editable' not in getattr(f, '__name__', '').lower()
    ]
    sys.path.insert(0, REPO)
    _installed['twin_dir'] = twin_dir


def assert_source_mode():
    """Return list of problems (empty when every falcon module comes from REPO sources)."""
    bad = []
    n = 0
    for name, mod in list(sys.modules.items()):
        if name != 'falcon' and not name.startswith('falcon.'):
            continue
        f = getattr(mod, '__file__', None)
        if f is None:
            continue
        n += 1
        rf = os.path.realpath(f)
        if name.startswith('falcon.cyutil.') and _installed.get('twin_dir'):
            continue
        if not rf.startswith(REPO + os.sep) or not rf.endswith('.py'):
            bad.append('%s <- %s' % (name, f))
    if n == 0:
        bad.append('no falcon module imported')
    return bad


def ensure_deps():
    """Make icontract/deal importable (installed offline into VERIF/.deps)."""
    deps = os.path.join(VERIF, '.deps')
    if deps not in sys.path:
        sys.path.append(deps)
    try:
        import icontract  # noqa: F401
        return True
    except ImportError:
        pass
    import subprocess
    subprocess.run(
        [sys.executable, '-m', 'pip', 'install', '-q', '--no-index', '--find-links',
         '/opt/veriftools/wheels', '--target', deps, 'icontract', 'deal'],
        stdout=subprocess.DEVNULL, stderr=subprocess.DEVNULL, timeout=300)
    import importlib
    importlib.invalidate_caches()
    try:
        import icontract  # noqa: F401
        return True
    except ImportError:
        return False
