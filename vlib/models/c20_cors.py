"""Reference model of the built-in CORS policy (property C20).

Written from the property statement, the CORSMiddleware docstring / docs/api/cors.rst and
the Fetch/CORS reading of the header names - not from falcon/middleware.py.

Two layers of judgement over one observed exchange:

* safety cells  - literal clauses of the property statement ("only when", "never", "withdrawn");
* decision table - the documented positive behaviour (an allowed origin IS granted, a successful
                   preflight that advertises Allow IS approved, ...), evaluated only where the context
                   makes the expectation unambiguous (``live``).

All header names are lower-case; a response is ``(status, [(name, value)...], body)``.
"""

ACAO = 'access-control-allow-origin'
ACAC = 'access-control-allow-credentials'
ACEH = 'access-control-expose-headers'
ACAM = 'access-control-allow-methods'
ACAH = 'access-control-allow-headers'
ACMA = 'access-control-max-age'
ALLOW = 'allow'
APPROVAL = (ACAM, ACAH, ACMA)
PREFIX = 'access-control-'


class Policy:
    """Normalised configuration: who is allowed, who gets credentials, what is exposed."""

    def __init__(self, allow_origins='*', allow_credentials=None, expose_headers=None):
        self.any_origin = isinstance(allow_origins, str) and allow_origins == '*'
        if self.any_origin:
            self.origins = frozenset()
        elif isinstance(allow_origins, str):
            self.origins = frozenset([allow_origins])
        else:
            self.origins = frozenset(allow_origins)
        self.any_cred = isinstance(allow_credentials, str) and allow_credentials == '*'
        if allow_credentials is None or self.any_cred:
            self.creds = frozenset()
        elif isinstance(allow_credentials, str):
            self.creds = frozenset([allow_credentials])
        else:
            self.creds = frozenset(allow_credentials)
        if expose_headers is None:
            self.expose = None
        elif isinstance(expose_headers, str):
            self.expose = expose_headers or None
        else:
            names = list(expose_headers)
            self.expose = ', '.join(names) if names else None

    def allowed(self, origin):
        # origins are compared as opaque, case-sensitive strings (docs: "case sensitive")
        return origin is not None and (self.any_origin or origin in self.origins)

    def credentialed(self, origin):
        # "takes effect only if the origin is allowed by the allow_origins argument"
        return self.allowed(origin) and (self.any_cred or origin in self.creds)

    def describe(self):
        return {'any_origin': self.any_origin, 'origins': sorted(self.origins), 'any_cred': self.any_cred,
                'creds': sorted(self.creds), 'expose': self.expose}


class Exchange:
    """What the oracle is told about one request and its outcome (nothing about falcon internals)."""

    def __init__(self, origin, method, acrm, acrh, success, live=True, allow_expected=None):
        self.origin = origin          # None = no Origin header
        self.method = method
        self.acrm = acrm              # Access-Control-Request-Method value or None
        self.acrh = acrh              # Access-Control-Request-Headers value or None
        self.success = success        # True / False / None (undetermined by the statement)
        self.live = live              # decision-table (positive) expectations apply
        self.allow_expected = allow_expected   # documented Allow set of the target (frozenset) or None

    @property
    def preflight(self):
        return self.method == 'OPTIONS' and bool(self.acrm)


def values(headers, name):
    return [v for k, v in headers if k == name]


def ac_items(headers):
    return sorted((k, v) for k, v in headers if k.startswith(PREFIX))


def token_set(value):
    return frozenset(t.strip().upper() for t in value.split(',') if t.strip())


def classify(policy, ex):
    """Name of the decision-table cell (evidence bucket)."""
    if ex.origin is None:
        return 'no_origin'
    if not policy.allowed(ex.origin):
        return 'disallowed'
    if ex.preflight:
        if ex.success is None:
            return 'pf.undetermined'
        if not ex.success:
            return 'pf.failed'
        return 'pf.successful'
    return 'allowed.cred' if policy.credentialed(ex.origin) else (
        'allowed.wildcard' if policy.any_origin else 'allowed.echo')


def judge(policy, ex, base, got):
    """Compare the response of the CORS-enabled app (got) with the same app without the CORS
    component (base).  Returns (findings, cells) - findings are (kind, detail) pairs, cells the
    names of the monitors that were evaluated."""
    f = []
    cells = []
    bs, bh, bb = base
    gs, gh, gb = got

    # ---- requests without an Origin header are left untouched
    if ex.origin is None:
        cells.append('untouched')
        if (gs, sorted(gh), gb) != (bs, sorted(bh), bb):
            f.append(('no-origin-response-changed', {'base': [bs, sorted(bh)], 'got': [gs, sorted(gh)]}))
        return f, cells

    base_ac = ac_items(bh)
    got_ac = ac_items(gh)

    # ---- an Origin the configuration does not allow: nothing cross-origin is added
    if not policy.allowed(ex.origin):
        cells.append('disallowed-adds-nothing')
        pool = list(base_ac)
        added = []
        for item in got_ac:
            if item in pool:
                pool.remove(item)
            else:
                added.append(item)
        if added:
            f.append(('grant-to-disallowed-origin', {'added': added}))
        return f, cells

    # ---- allowed origin
    g_acao = values(gh, ACAO)
    g_acac = values(gh, ACAC)
    b_acao = values(bh, ACAO)
    b_acac = values(bh, ACAC)
    b_allow = values(bh, ALLOW)
    cred_granted_by_mw = bool(g_acac) and g_acac != b_acac

    # a successful OPTIONS exchange with a request method but without an Allow set is a refused
    # preflight: every grant has to go, so the credential cells are subsumed by that one
    refused_pf = ex.preflight and ex.success is True and not b_allow and ex.allow_expected is None
    if not refused_pf:
        # credentials only for origins configured for them; then the origin is echoed
        cells.append('credentials-only-configured')
        if cred_granted_by_mw:
            if not policy.credentialed(ex.origin):
                f.append(('credentials-to-unconfigured-origin', {'acac': g_acac, 'acao': g_acao}))
            if g_acao != [ex.origin]:
                f.append(('credentials-without-echo', {'acac': g_acac, 'acao': g_acao}))
        # wildcard never together with a credentials grant (unless the responder itself produced both)
        cells.append('no-wildcard-with-credentials')
        if g_acac and '*' in g_acao and not (g_acac == b_acac and g_acao == b_acao):
            f.append(('wildcard-with-credentials', {'acac': g_acac, 'acao': g_acao}))

    approval_added = [(k, v) for k, v in got_ac if k in APPROVAL and (k, v) not in base_ac]

    if not ex.preflight:
        cells.append('no-approval-outside-preflight')
        if approval_added:
            f.append(('approval-outside-preflight', {'added': approval_added}))
        refused = False
    elif ex.success is None:
        refused = None
    elif not ex.success:
        cells.append('no-approval-on-failed-exchange')
        if approval_added:
            f.append(('approval-on-failed-exchange', {'added': approval_added, 'status': gs}))
        # whether the ordinary grants stay on a failed preflight is not fixed by the statement
        # ("all grants withdrawn otherwise" can be read either way): no table expectation here
        refused = None
    elif not b_allow and ex.allow_expected is not None and ex.live:
        # a documented Allow source (default OPTIONS responder, static route) stopped advertising:
        # the oracle knows the target's Allow set from the docs, not from the twin app
        cells.append('allow-source')
        refused = None
        f.append(('allow-source-missing', {'want': sorted(ex.allow_expected), 'got_ac': got_ac}))
    elif not b_allow:
        # successful OPTIONS exchange without an Allow set: refused, all grants withdrawn
        cells.append('refused-preflight-withdraws-all')
        refused = True
        left = got_ac
        if left:
            f.append(('grant-left-on-refused-preflight', {'left': left}))
        if values(gh, ALLOW):
            f.append(('allow-present-on-refused-preflight', {'allow': values(gh, ALLOW)}))
    else:
        refused = False
        cells.append('approved-preflight')
        # whenever the preflight is approved the Allow header is removed
        if values(gh, ACAM) and values(gh, ALLOW):
            f.append(('allow-not-removed', {'allow': values(gh, ALLOW)}))
        if ex.live:
            want_methods = token_set(', '.join(b_allow))
            g_acam = values(gh, ACAM)
            if len(g_acam) != 1 or token_set(g_acam[0]) != want_methods:
                f.append(('preflight-not-approved', {'allow_methods': g_acam, 'want': sorted(want_methods)}))
            if ex.allow_expected is not None and g_acam and token_set(g_acam[0]) != ex.allow_expected:
                f.append(('allow-source-mismatch', {'allow_methods': g_acam, 'want': sorted(ex.allow_expected)}))
            g_acah = values(gh, ACAH)
            if len(g_acah) != 1:
                f.append(('preflight-headers-not-approved', {'allow_headers': g_acah}))
            elif ex.acrh is not None and g_acah[0].strip() != '*':
                asked = frozenset(t.strip().lower() for t in ex.acrh.split(',') if t.strip())
                given = frozenset(t.strip().lower() for t in g_acah[0].split(',') if t.strip())
                if not asked <= given:
                    f.append(('preflight-headers-not-approved', {'allow_headers': g_acah, 'asked': ex.acrh}))
            g_ma = values(gh, ACMA)
            if len(g_ma) != 1 or not g_ma[0].isdigit():
                f.append(('preflight-max-age-missing', {'max_age': g_ma}))

    # ---- decision table for the origin / credentials / expose headers
    if ex.live and refused is False:
        cells.append('table-origin')
        if b_acao:
            # documented: a responder may override the policy by setting Allow-Origin itself
            if g_acao != b_acao:
                f.append(('responder-origin-overridden', {'base': b_acao, 'got': g_acao}))
        else:
            if policy.credentialed(ex.origin):
                want_o, want_c = [ex.origin], ['true']
            elif policy.any_origin:
                want_o, want_c = ['*'], []
            else:
                want_o, want_c = [ex.origin], []
            if g_acao != want_o:
                f.append(('allowed-origin-not-granted', {'got': g_acao, 'want': want_o}))
            if not b_acac and [v.lower() for v in g_acac] != want_c:
                f.append(('credentials-grant-mismatch', {'got': g_acac, 'want': want_c}))
        if not values(bh, ACEH):
            cells.append('table-expose')
            want_e = [policy.expose] if policy.expose else []
            got_e = values(gh, ACEH)
            # the list syntax (separator spacing, name case) is not part of the policy
            if [token_set(v) for v in got_e if token_set(v)] != [token_set(v) for v in want_e]:
                f.append(('expose-headers-mismatch', {'got': got_e, 'want': want_e}))
    return f, cells
