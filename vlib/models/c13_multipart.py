"""C13 reference multipart/form-data ENCODER (RFC 7578 / RFC 2046 5.1 / RFC 5987) + byte layout.

The oracle of checks/c13.py is "the parts are known by construction": a form is a list of
Part records, `encode_form` lays them out the way browsers / curl / requests do, and
`expected(part)` says what a parser has to hand back.  Nothing here is derived from falcon.
"""

from urllib.parse import quote

CRLF = b'\r\n'

# RFC 2046 5.1.1 bchars (space allowed, but not as the last character)
BCHARS = "0123456789abcdefghijklmnopqrstuvwxyzABCDEFGHIJKLMNOPQRSTUVWXYZ'()+_,-./:=? "
TOKEN = set("!#$%&'*+-.^_`|~0123456789abcdefghijklmnopqrstuvwxyzABCDEFGHIJKLMNOPQRSTUVWXYZ")
ATTR_CHARS = "!#$&+-.^_`|~0123456789abcdefghijklmnopqrstuvwxyzABCDEFGHIJKLMNOPQRSTUVWXYZ"   # RFC 5987


class Part:
    """One form field.

    name      str (no CR/LF; '"' and '\\' are written as RFC 7230 quoted-pairs; a value never ENDS in a backslash)
    filename  None | str            plain filename="..." parameter
    ext       None | (charset, language, str)   RFC 5987 filename*=charset'lang'pct-encoded
    ctype     None | str            Content-Type header value (None -> header omitted)
    content   bytes
    style     dict of layout choices (header order, header-name case, token form, ...)
    """

    __slots__ = ('name', 'filename', 'ext', 'ctype', 'content', 'style')

    def __init__(self, name, content, filename=None, ext=None, ctype=None, style=None):
        self.name, self.content, self.filename, self.ext, self.ctype = name, content, filename, ext, ctype
        self.style = style or {}

    def to_json(self):
        return {'name': self.name, 'content': self.content, 'filename': self.filename,
                'ext': list(self.ext) if self.ext else None, 'ctype': self.ctype, 'style': self.style}

    @classmethod
    def from_json(cls, d):
        return cls(d['name'], unb(d['content']), d.get('filename'),
                   tuple(d['ext']) if d.get('ext') else None, d.get('ctype'), d.get('style') or {})


def unb(x):
    """Inverse of vlib.verdict.jsonable for bytes ('b:...' unicode_escape form)."""
    if isinstance(x, (bytes, bytearray)):
        return bytes(x)
    if isinstance(x, str) and x.startswith('b:'):
        return x[2:].encode('ascii').decode('unicode_escape').encode('latin-1')
    raise ValueError('not an encoded bytes value: %r' % (x,))


def _param(key, value, token_form):
    if token_form and value and all(c in TOKEN for c in value):
        return '%s=%s' % (key, value)
    # quoted-string with quoted-pair escapes (RFC 7230 3.2.6; the style Go, older curl and urllib3 write)
    assert '\r' not in value and '\n' not in value and not value.endswith('\\')
    return '%s="%s"' % (key, value.replace('\\', '\\\\').replace('"', '\\"'))


def ext_value(charset, lang, text, enc='attr'):
    """RFC 5987 3.2.1 ext-value.  enc: 'attr'  attr-chars literal, everything else %XX (the RFC's own grammar);
    'all'   only RFC 3986 unreserved literal (urllib.parse.quote(safe=''));
    'lower' like 'attr' with lower-case hex digits;  'full' every byte percent-encoded."""
    raw = text.encode(charset)
    if enc == 'all':
        v = quote(raw, safe='')
    elif enc == 'full':
        v = ''.join('%%%02X' % c for c in raw)
    else:
        v = quote(raw, safe=ATTR_CHARS)
        if enc == 'lower':
            out, i = [], 0
            while i < len(v):
                if v[i] == '%':
                    out.append(v[i:i + 3].lower())
                    i += 3
                else:
                    out.append(v[i])
                    i += 1
            v = ''.join(out)
    return "%s'%s'%s" % (charset, lang, v)


def header_block(part):
    """Header lines of a part joined by CRLF, WITHOUT the terminating blank line."""
    st = part.style
    case = st.get('case', 'title')
    params = [_param('name', part.name, st.get('token', False))]
    fn = []
    if part.filename is not None:
        fn.append(_param('filename', part.filename, st.get('token', False)))
    if st.get('ext_raw') is not None:
        fn.append('filename*=' + st['ext_raw'])       # literal ext-value (possibly undecodable in its declared charset)
    elif part.ext is not None:
        fn.append('filename*=' + ext_value(*part.ext, enc=st.get('ext_enc', 'attr')))
    if st.get('ext_first'):
        fn.reverse()
    params += fn
    sep = st.get('sep', '; ')
    cd = 'form-data' + ''.join(sep + p for p in params)
    lines = [('Content-Disposition', cd)]
    if part.ctype is not None:
        lines.append(('Content-Type', part.ctype))
    if st.get('ctype_first'):
        lines.reverse()
    if st.get('cte') is not None:
        # RFC 7578 4.7: deprecated, senders SHOULD NOT - but may; RFC 2045 6.1: the value is case-insensitive
        lines.insert(0 if st.get('cte_first') else len(lines), ('Content-Transfer-Encoding', st['cte']))
    out = []
    for k, v in lines:
        if case == 'lower':
            k = k.lower()
        elif case == 'upper':
            k = k.upper()
        out.append(k.encode('ascii') + b': ' + v.encode('utf-8'))
    return CRLF.join(out)


def model_ext(raw):
    """RFC 5987 3.2.1 reading of a literal ext-value: -> ('ok', text) | ('bad',) when the octets are not valid in the
    declared charset or the charset is unknown.  Only for grammatical values (charset'lang'attr-chars / %XX)."""
    charset, _lang, value = raw.split("'", 2)
    out = bytearray()
    i = 0
    while i < len(value):
        if value[i] == '%':
            out.append(int(value[i + 1:i + 3], 16))
            i += 3
        else:
            assert value[i] in ATTR_CHARS
            out.append(ord(value[i]))
            i += 1
    try:
        return ('ok', bytes(out).decode(charset))
    except (LookupError, UnicodeDecodeError):
        return ('bad',)


def ext_undecodable(part):
    raw = part.style.get('ext_raw')
    return raw is not None and model_ext(raw)[0] == 'bad'


def expected(part):
    """(name, filename, content_type, content) a parser must report (RFC 7578 4.2/4.4, RFC 6266 4.3).
    For an undecodable filename* the only reportable name is the plain filename= fallback (None when absent);
    refusing the part with the multipart parse error is the other admissible outcome (decided by the check)."""
    raw = part.style.get('ext_raw')
    if raw is not None:
        m = model_ext(raw)
        filename = m[1] if m[0] == 'ok' else part.filename
    else:
        filename = part.ext[2] if part.ext is not None else part.filename
    return (part.name, filename, part.ctype if part.ctype is not None else 'text/plain', part.content)


def content_legal(content, boundary):
    """RFC 2046: the delimiter line must not occur in the encapsulated material
    (nor may the material begin with the dash-boundary, which would follow the blank line's CRLF)."""
    return (CRLF + b'--' + boundary) not in (CRLF + content)


class Layout:
    """Byte spans of an encoded form: list of (kind, index, start, end)."""

    def __init__(self):
        self.spans = []

    def add(self, kind, idx, start, end):
        self.spans.append((kind, idx, start, end))

    def find(self, pos):
        for s in self.spans:
            if s[2] <= pos < s[3]:
                return s
        return None

    def span(self, kind, idx=None):
        for s in self.spans:
            if s[0] == kind and (idx is None or s[1] == idx):
                return s
        return None


def encode_form(parts, boundary, preamble=b'', epilogue=b'', final_crlf=True):
    """-> (body bytes, Layout).  boundary: bytes (1..70 bchars, not ending in space).

    preamble, when not empty, is whole lines (ends with CRLF) free of the dash-boundary.
    body := [preamble] "--" b CRLF hdrs CRLF CRLF content { CRLF "--" b CRLF hdrs CRLF CRLF content }
            CRLF "--" b "--" [CRLF] [epilogue]
    A form without parts is just the close delimiter: [preamble] "--" b "--" [CRLF] [epilogue].
    """
    dash = b'--' + boundary
    lay = Layout()
    out = bytearray()
    if preamble:
        assert preamble.endswith(CRLF) and dash not in preamble
        lay.add('preamble', None, 0, len(preamble))
        out += preamble
    for i, p in enumerate(parts):
        assert content_legal(p.content, boundary)
        s = len(out)
        out += (dash if i == 0 else CRLF + dash) + CRLF
        lay.add('delimiter', i, s, len(out))
        s = len(out)
        out += header_block(p)
        lay.add('headers', i, s, len(out))
        s = len(out)
        out += CRLF + CRLF
        lay.add('blank', i, s, len(out))
        s = len(out)
        out += p.content
        lay.add('content', i, s, len(out))
    s = len(out)
    out += (CRLF + dash if parts else dash) + b'--'
    lay.add('close', None, s, len(out))
    if final_crlf:
        s = len(out)
        out += CRLF
        lay.add('final_crlf', None, s, len(out))
    if epilogue:
        s = len(out)
        out += epilogue
        lay.add('epilogue', None, s, len(out))
    return bytes(out), lay


def content_type_header(boundary, quoted=None):
    """Value of the request's Content-Type header for this boundary (bytes -> str)."""
    b = boundary.decode('ascii')
    need = not all(c in TOKEN for c in b)
    if quoted is None:
        quoted = need
    if quoted or need:
        return 'multipart/form-data; boundary="%s"' % b
    return 'multipart/form-data; boundary=%s' % b


def asgi_chunk_edges(event_sizes, total, chunk_size):
    """Offsets where a reader that coalesces transport events into buffers of at least
    chunk_size bytes would cut the body (used only to AIM the workload, never to judge)."""
    edges, acc, pos = [], 0, 0
    for n in event_sizes:
        n = min(n, total - pos)
        pos += n
        acc += n
        if acc >= chunk_size:
            edges.append(pos)
            acc = 0
        if pos >= total:
            break
    return edges


# ---- get_text model (falcon docs: "decoded using the charset specified in the Content-Type header, or, if omitted, the
# default charset; the charset must be supported by Python's bytes.decode(); if decoding fails due to invalid data bytes,
# or the specified encoding itself is unsupported, a MultipartParseError will be raised"; None when not text/plain)

def text_label(ctype, default_charset):
    """Charset label get_text() has to use for a part with this Content-Type value; None when the part is not text/plain.
    Only understands the simple values the generators write (no ';' or quotes inside a parameter value)."""
    if ctype is None:
        return default_charset
    head, _, rest = ctype.partition(';')
    if head.strip() != 'text/plain':
        return None
    label = default_charset
    for piece in rest.split(';'):
        k, eq, v = piece.partition('=')
        if eq and k.strip().lower() == 'charset':
            v = v.strip()
            if len(v) >= 2 and v[0] == v[-1] == '"':
                v = v[1:-1]
            label = v
    return label


def model_text(content, ctype, default_charset='utf-8'):
    """-> ('none',) | ('ok', str) | ('fail',)"""
    label = text_label(ctype, default_charset)
    if label is None:
        return ('none',)
    try:
        t = content.decode(label)
    except Exception:  # noqa - any failure of bytes.decode() is "cannot be decoded"
        return ('fail',)
    return ('ok', t) if isinstance(t, str) else ('fail',)
