"""C05 reference model: what a server must receive for a response recipe.

Written from the property statement, PEP 3333, the ASGI HTTP spec, the HTML "server-sent
events" wire format and falcon's public documentation of Response.text/data/media/stream
- not from falcon's code.  A *recipe* is a JSON-able dict (see checks/c05.py, gen_*).

    status   ['int', n] | ['line', 'NNN phrase'] | ['digits', 'NNN'] | ['enum', n]
             | ['bytes', 'NNN phrase' or 'NNN']   (assigned as a byte string, as falcon's own suite does)
             | ['strsub', 'NNN phrase' or 'NNN']  (assigned as an instance of a str subclass)
             | ['strsub_odd', ...] (str subclass with foreign __str__/__format__) | ['strenum', ...] ((str, Enum) member)
             | ['intenum', n]      (member of an application IntEnum)
    text     None | str            data   None | bytes (latin-1 str in JSON)
    media    ['unset'] | ['set', json value]
    stream   None | {'kind', 'chunks': [bytes...], 'raise_at': k|None, ...}
    sse      None | {'kind', 'events': [ev|None ...], 'raise_at': k|None}      (ASGI only)
"""

import enum
import http
import json

BODILESS = frozenset([100, 101, 204, 304])
TYPELESS = frozenset([204, 304])


# ---------------------------------------------------------------- status

def status_code(spec):
    kind, v = spec
    if kind in ('int', 'enum', 'intenum'):
        return int(v)
    return int(v[:3])


class StatusStr(str):
    """A str subclass (e.g. an enum-like constant class of the application) used as a status."""


class StatusStrOdd(str):
    """A str subclass whose __str__/__format__/__repr__ do not return its own text."""

    def __str__(self):
        return 'StatusStrOdd.MEMBER'

    def __format__(self, spec):
        return 'formatted'

    def __repr__(self):
        return '<StatusStrOdd>'


STR_ENUM_LINES = ['200 OK', '201 Created', '204 No Content', '304 Not Modified', '404 Not Found', '418 Short And Stout',
                  '204 Nothing Here', '101 Switching Protocols', '299', '404', '204', '598']
# class Status(str, enum.Enum): str(Status.CREATED) == 'Status.CREATED', the member IS the str '201 Created'
StrEnumStatus = enum.Enum('StrEnumStatus', {'S%d' % i: v for i, v in enumerate(STR_ENUM_LINES)}, type=str)
INT_ENUM_CODES = [200, 204, 304, 404, 418, 299, 101]
IntEnumStatus = enum.IntEnum('IntEnumStatus', {'C%d' % c: c for c in INT_ENUM_CODES})


def status_value(spec):
    """The python object the application assigns to resp.status."""
    kind, v = spec
    if kind == 'strsub_odd':
        return StatusStrOdd(v)
    if kind == 'strenum':
        return StrEnumStatus(v)
    if kind == 'intenum':
        return IntEnumStatus(v)
    if kind == 'enum':
        return http.HTTPStatus(v)
    if kind == 'bytes':
        return v.encode('latin-1')
    if kind == 'strsub':
        return StatusStr(v)
    return v


def status_line_ok(spec, line):
    """WSGI: the status line the server got is acceptable for what the app assigned."""
    if not isinstance(line, str) or len(line) < 5 or not line[:3].isdigit() or line[3] != ' ':
        return False
    if int(line[:3]) != status_code(spec):
        return False
    if spec[0] == 'line' or (spec[0] in ('bytes', 'strsub', 'strsub_odd', 'strenum') and ' ' in spec[1]):
        return line == spec[1]      # documented: a status line string is passed through
    return True


# ---------------------------------------------------------------- filling-in histories

def effective(r):
    """Recipe with the earlier steps of the filling-in history folded in.

    r['pre'] = [['text'|'data'|'media', value-or-None] | ['render'] | ['media_mutate_reassign', new content], ...]
    runs before the final assignments.
    Only the LAST assignment of each attribute counts; calling the public render_body() in between is an
    observation and changes nothing about what must be sent.
    """
    pre = r.get('pre')
    if not pre:
        return r
    last = {'text': None, 'data': None, 'media': None}
    for op in pre:
        if op[0] in last:
            last[op[0]] = op[1]
        elif op[0] == 'media_mutate_reassign':
            last['media'] = op[1]       # the same object, changed in place, assigned again: its new content counts
    e = dict(r)
    if r.get('text') is None:
        e['text'] = last['text']
    if r.get('data') is None:
        e['data'] = last['data']
    if r.get('media', ['unset'])[0] != 'set':
        e['media'] = ['unset'] if last['media'] is None else ['set', last['media']]
    return e


def media_rendered_in_history(r):
    """Did some render_body() call of the history serialize the media (classifier helper)?"""
    cur = {'text': None, 'data': None, 'media': None}
    for op in r.get('pre') or []:
        if op[0] == 'render':
            if cur['text'] is None and cur['data'] is None and cur['media'] is not None:
                return True
        elif op[0] == 'media_mutate_reassign':
            cur['media'] = op[1]
        else:
            cur[op[0]] = op[1]
    return False


# ---------------------------------------------------------------- body

def selected_source(r):
    """Documented precedence (sse supersedes text and data on ASGI) text > data > media > stream."""
    if r.get('sse') is not None:
        return 'sse'
    if r.get('text') is not None:
        return 'text'
    if r.get('data') is not None:
        return 'data'
    if r.get('media', ['unset'])[0] == 'set' and r['media'][1] is not None:
        return 'media'
    if r.get('stream') is not None:
        return 'stream'
    return 'none'


def is_bodiless(r):
    return r['method'] == 'HEAD' or status_code(r['status']) in BODILESS


def stream_prefix(st):
    """(chunks delivered by the stream before it ends or raises, raised?)"""
    chunks = [c for c in st['chunks']]
    k = st.get('raise_at')
    if k is not None and k <= len(chunks):
        return chunks[:k], True
    return chunks, False


def body_matches(r, src, body):
    """Complete, fault-free, body-bearing response: is `body` what the selected source denotes?"""
    if src == 'text':
        return body == r['text'].encode('utf-8')
    if src == 'data':
        return body == r['data']
    if src == 'media':
        try:
            got = json.loads(body.decode('utf-8'))
        except Exception:  # noqa
            return False
        return json_equal(got, r['media'][1])
    if src == 'stream':
        return body == b''.join(r['stream']['chunks'])
    if src == 'none':
        return body == b''
    raise AssertionError(src)


def json_equal(a, b):
    if isinstance(a, bool) or isinstance(b, bool):
        return isinstance(a, bool) and isinstance(b, bool) and a == b
    if isinstance(a, (int, float)) and isinstance(b, (int, float)):
        return a == b
    if type(a) is not type(b):
        return False
    if isinstance(a, dict):
        return a.keys() == b.keys() and all(json_equal(a[k], b[k]) for k in a)
    if isinstance(a, list):
        return len(a) == len(b) and all(json_equal(x, y) for x, y in zip(a, b))
    return a == b


# ---------------------------------------------------------------- SSE wire format (HTML LS 9.2.5/9.2.6)

def sse_parse(stream_bytes):
    """Parse an event stream the way a user agent does, but keep per-block structure.

    Returns list of blocks; each block = {'comments': [...], 'fields': [(name, value), ...]}.
    Raises ValueError if the bytes are not UTF-8 or the stream does not end on a blank line.
    """
    text = stream_bytes.decode('utf-8')
    if text.startswith('\ufeff'):
        text = text[1:]
    text = text.replace('\r\n', '\n').replace('\r', '\n')
    if text and not text.endswith('\n\n'):
        raise ValueError('event stream does not end with a blank line')
    blocks = []
    cur = {'comments': [], 'fields': []}
    used = False
    for line in text.split('\n')[:-1] if text else []:
        if line == '':
            if used:
                blocks.append(cur)
            cur = {'comments': [], 'fields': []}
            used = False
            continue
        used = True
        if line.startswith(':'):
            c = line[1:]
            cur['comments'].append(c[1:] if c.startswith(' ') else c)
            continue
        name, sep, value = line.partition(':')
        if sep and value.startswith(' '):
            value = value[1:]
        cur['fields'].append((name, value))
    if used:
        raise ValueError('unterminated event block')
    return blocks


def sse_expected_block(ev):
    """What a user agent must read for one emitted event (single-line field values only)."""
    if not ev:
        return {'comments': ['ping'], 'fields': {}}
    fields = {}
    comments = []
    if ev.get('comment') is not None:
        comments.append(ev['comment'])
    if ev.get('event') is not None:
        fields['event'] = ev['event']
    if ev.get('event_id') is not None:
        fields['id'] = ev['event_id']
    if ev.get('retry') is not None:
        fields['retry'] = str(ev['retry'])
    if ev.get('data') is not None:
        fields['data'] = ('raw', ev['data'].decode('utf-8'))
    elif ev.get('text') is not None:
        fields['data'] = ('raw', ev['text'])
    elif ev.get('json') is not None:
        fields['data'] = ('json', ev['json'])
    if not fields and not comments:
        comments.append('ping')
    return {'comments': comments, 'fields': fields}


def sse_block_matches(block, want):
    if block['comments'] != want['comments']:
        return False
    got = {}
    for name, value in block['fields']:
        if name in got:
            return False        # our events never repeat a field; a repeat would change the meaning
        got[name] = value
    if got.keys() != want['fields'].keys():
        return False
    for name, w in want['fields'].items():
        if name == 'data':
            kind, val = w
            if kind == 'raw':
                if got[name] != val:
                    return False
            else:
                try:
                    if not json_equal(json.loads(got[name]), val):
                        return False
                except Exception:  # noqa
                    return False
        elif got[name] != w:
            return False
    return True
