"""C17 reference model: what a falcon.asgi.WebSocket conversation must look like.

Written from the property statement, docs/api/websocket.rst and the public docstrings of
falcon.asgi.WebSocket / WebSocketOptions - not from falcon/asgi/ws.py.  It is an *online*
monitor: the check runs one operation of the responder script against the real object,
then hands this model (operation, facts observed at the server boundary before the
operation, the send attempts the operation caused, the result) and the model says what
is wrong, and moves its own state.

phase: HANDSHAKE (not yet accepted) / ACCEPTED / CLOSED (closed by the app, or the app was
told that the client is gone) / UNKNOWN (server rejected the handshake answer: no further
expectations about results, only the wire automaton of the driver keeps judging).
"""

import json

HANDSHAKE, ACCEPTED, CLOSED, UNKNOWN = 'HANDSHAKE', 'ACCEPTED', 'CLOSED', 'UNKNOWN'

FALLBACK_ERROR_CODE = 3011      # docs: "If your ASGI server does not support this code, the framework will use code 3011"


def valid_close_code(code):
    """RFC 6455 7.4: 1000-1003, 1007-1014 may be sent by an endpoint; 1004-1006, 1015 and the rest of
    1xxx..2999 are reserved; 3000-4999 are for libraries/applications.  (Anything >= 2000 is accepted here:
    the documented rule is 'must be >= 1000 and unreserved'.)"""
    if not isinstance(code, int) or code < 1000:      # int subclasses (IntEnum members) are ints; True/False are 1/0
        return False
    if 1004 <= code <= 1006 or 1015 <= code <= 1999:
        return False
    return True


def spec_tuple(spec):
    if not spec:
        return (2, 0)
    return tuple(int(p) for p in spec.split('.'))


class Binary:
    """An independent, trivially invertible BINARY media codec installed by the check
    (msgpack is not available offline): b'J' + utf-8 JSON."""

    @staticmethod
    def enc(obj):
        return b'J' + json.dumps(obj, sort_keys=True).encode('utf-8')

    @staticmethod
    def dec(data):
        if not data.startswith(b'J'):
            raise ValueError('not a J-frame')
        return json.loads(data[1:].decode('utf-8'))


def errname(ex):
    return type(ex).__name__


class SessionModel:
    def __init__(self, spec, client_events, reasons, errors):
        """client_events: the scripted ASGI events after websocket.connect.
        reasons: the configured default_close_reasons mapping (configuration, read from the app).
        errors: dict name -> exception class (OperationNotAllowed, WebSocketDisconnected, PayloadTypeError)."""
        self.spec = spec_tuple(spec)
        self.client = client_events
        self.reasons = reasons
        self.E = errors
        self.phase = HANDSHAKE
        self.lost = False
        self.rx = 0                 # client events consumed by receive operations
        self.gone_code = None       # the code with which the CLIENT side ended the connection, once the app was
                                    # told (None: not ended by the client / closed by the app itself: not checked)
        self.timeouts = 0           # receive operations that were cancelled by their deadline
        self.diverged = False       # a disagreement was recorded: later operations are not judged
        self.handshake_rejected = False   # the server refused the accept event (subprotocol): state undefined
        self.problems = []          # (kind, detail)
        self.branches = []          # branch classes hit (for coverage counters)

    # ------------------------------------------------------------------ helpers
    def bad(self, kind, **detail):
        self.problems.append((kind, detail))

    def hit(self, name):
        self.branches.append(name)

    def check_gone_code(self, name, res):
        """Every WebSocketDisconnected raised after the client (or the lost connection) ended the session carries
        that code - the first time and every later time."""
        if self.gone_code is not None and self._is(res, 'WebSocketDisconnected'):
            self.hit('disconnect-code-repeated')
            if getattr(res[1], 'code', None) != self.gone_code:
                self.bad('wrong-disconnect-code', op=name, want=self.gone_code, got=getattr(res[1], 'code', None),
                         why='connection ended earlier with this code')

    def supports_headers(self):
        return self.spec >= (2, 1)

    def supports_reason(self):
        return self.spec >= (2, 3)

    def _is(self, res, *names):
        return res[0] == 'exc' and any(isinstance(res[1], self.E[n]) for n in names)

    def _expect_exc(self, op, res, attempts, names, why):
        if attempts:
            self.bad('event-on-refused-op', op=op['op'], why=why, events=[a[1] for a in attempts])
        if not self._is(res, *names):
            self.bad('wrong-error', op=op['op'], why=why, want=list(names), got=_show(res))

    def expected_close_event(self, code, reason):
        ev = {'type': 'websocket.close', 'code': code}
        if self.supports_reason():
            r = reason or self.reasons.get(code)
            if r:
                ev['reason'] = r
        return ev

    def check_close_attempt(self, ev, code, reason, where):
        want = self.expected_close_event(code, reason)
        got = dict(ev) if isinstance(ev, dict) else ev
        if isinstance(got, dict):
            got.setdefault('code', 1000)
            if not got.get('reason') and 'reason' not in want and self.supports_reason():
                got.pop('reason', None)       # an empty/None reason says the same as no reason
        if got != want:
            self.bad('close-event-mismatch', where=where, want=want, got=ev)
            return False
        return True

    # ------------------------------------------------------------------ operations
    def judge(self, op, facts, attempts, res):
        """op: script step dict. facts: driver snapshot before the op. attempts: [[k, event, outcome]].
        res: ('ok', value) | ('exc', exception)."""
        if self.phase == UNKNOWN:
            return
        name = op['op']
        known_gone = bool(facts['handed']) or self.lost
        n = len(self.problems)
        getattr(self, '_op_' + name)(op, facts, attempts, res, known_gone)
        if len(self.problems) > n:
            # the first disagreement decides; whatever follows could be its consequence
            self.diverged = True
            self.phase = UNKNOWN

    # -- accept
    def _op_accept(self, op, facts, attempts, res, gone):
        ONA = 'OperationNotAllowed'
        if self.phase == CLOSED or gone:
            self.hit('accept.closed')
            return self._expect_exc(op, res, attempts, [ONA], 'accept on a closed/lost connection')
        if self.phase == ACCEPTED:
            self.hit('accept.twice')
            return self._expect_exc(op, res, attempts, [ONA], 'second accept')
        sub, hdrs = op.get('sub'), op.get('hdrs')
        arg_errors = []
        if sub is not None and not isinstance(sub, str):
            arg_errors.append('subprotocol-type')
        pairs = _pairs(hdrs)
        if pairs:
            if not self.supports_headers():
                arg_errors.append('headers-unsupported')
            if any(k.lower() == 'sec-websocket-protocol' for k, _ in pairs):
                arg_errors.append('sec-websocket-protocol-header')
        if arg_errors:
            self.hit('accept.' + arg_errors[0])
            if attempts:
                self.bad('event-on-refused-op', op='accept', why=arg_errors, events=[a[1] for a in attempts])
            if not (res[0] == 'exc' and isinstance(res[1], ValueError)):     # OperationNotAllowed is a ValueError
                self.bad('wrong-error', op='accept', why=arg_errors, want=['ValueError'], got=_show(res))
            if 'headers-unsupported' in arg_errors and len(arg_errors) == 1 and not self._is(res, ONA):
                self.bad('wrong-error', op='accept', why=arg_errors, want=[ONA], got=_show(res))
            return
        want = {'type': 'websocket.accept'}
        if sub is not None:
            want['subprotocol'] = sub
        if pairs:
            want['headers'] = [(k.lower().encode('ascii'), v.encode('ascii')) for k, v in pairs]
        if len(attempts) != 1:
            return self.bad('accept-attempts', want=want, got=[a[1] for a in attempts], res=_show(res))
        _, ev, outcome = attempts[0]
        got = dict(ev) if isinstance(ev, dict) else ev
        if isinstance(got, dict) and 'headers' in got:
            try:
                got['headers'] = [tuple(h) for h in got['headers']]
            except TypeError:
                pass
            if not got['headers'] and 'headers' not in want:
                del got['headers']
        if isinstance(got, dict) and got.get('subprotocol', 0) is None and 'subprotocol' not in want:
            del got['subprotocol']
        if got != want:
            self.bad('accept-event-mismatch', want=want, got=ev)
        if outcome == 'sent':
            self.hit('accept.ok')
            self.phase = ACCEPTED
            if res[0] != 'ok':
                self.bad('spurious-error', op='accept', got=_show(res))
        elif outcome == 'raised:subprotocol':
            self.hit('accept.server-rejects-subprotocol')
            if not (res[0] == 'exc' and isinstance(res[1], ValueError)):
                self.bad('wrong-error', op='accept', why='server rejected the subprotocol', want=['ValueError'],
                         got=_show(res))
            self.phase = UNKNOWN
            self.handshake_rejected = True
        else:
            self._after_failed_send('accept', outcome, res)

    def _after_failed_send(self, opname, outcome, res):
        kind = outcome.split(':', 1)[1]
        if kind in ('oserror', 'oserror_cause', 'ws_ok'):
            self.hit('%s.send-lost.%s' % (opname, kind))
            self.lost = True
            self.phase = CLOSED
            if not self._is(res, 'WebSocketDisconnected'):
                self.bad('wrong-error', op=opname, why='send() reported the connection lost (%s)' % kind,
                         want=['WebSocketDisconnected'], got=_show(res))
            else:
                want_code = 1001 if kind == 'oserror_cause' else 1000
                self.gone_code = want_code
                if getattr(res[1], 'code', None) != want_code:
                    self.bad('wrong-disconnect-code', op=opname, why=kind, want=want_code,
                             got=getattr(res[1], 'code', None))
        elif kind == 'runtime':
            # an error that says nothing about the connection: reported as it is, nothing changes
            self.hit('%s.send-raised-other' % opname)
            if not (res[0] == 'exc' and isinstance(res[1], RuntimeError) and 'simulated transient' in str(res[1])):
                self.bad('wrong-error', op=opname, why='server send raised an unrelated error',
                         want=['the same RuntimeError'], got=_show(res))
        else:
            self.bad('unexpected-send-outcome', op=opname, outcome=outcome, got=_show(res))

    # -- close
    def _op_close(self, op, facts, attempts, res, gone):
        code, reason = op.get('code'), op.get('reason')
        if code is not None and not valid_close_code(code):
            self.hit('close.invalid-code')
            if attempts:
                self.bad('event-on-refused-op', op='close', why='invalid close code', events=[a[1] for a in attempts])
            if not (res[0] == 'exc' and isinstance(res[1], ValueError)):
                self.bad('wrong-error', op='close', why='invalid close code %r' % (code,), want=['ValueError'],
                         got=_show(res))
            return
        if self.phase == CLOSED or gone:
            self.hit('close.noop')
            if attempts:
                self.bad('event-on-closed', op='close', events=[a[1] for a in attempts])
            if res[0] != 'ok':
                self.bad('spurious-error', op='close', why='close on a closed socket does nothing', got=_show(res))
            if self.phase != CLOSED and facts['handed']:
                self.gone_code = facts['code'] or 1000      # it was the client who ended it
            self.phase = CLOSED       # the application closed its side: later operations see a closed socket
            return
        eff = 1000 if code is None else code
        if len(attempts) != 1:
            return self.bad('close-attempts', want=self.expected_close_event(eff, reason),
                            got=[a[1] for a in attempts], res=_show(res))
        _, ev, outcome = attempts[0]
        self.check_close_attempt(ev, eff, reason, 'ws.close()')
        if outcome == 'sent':
            self.hit('close.denial' if self.phase == HANDSHAKE else 'close.ok')
            self.phase = CLOSED
            if res[0] != 'ok':
                self.bad('spurious-error', op='close', got=_show(res))
        else:
            kind = outcome.split(':', 1)[1]
            self.hit('close.send-raised.' + kind)
            if kind in ('oserror', 'oserror_cause', 'ws_ok'):
                # whatever close() reports, the connection is gone.  What later operations must answer is
                # not documented for this situation: only the wire monitor (nothing may be sent any more)
                # keeps judging.
                self.lost = True
                self.phase = UNKNOWN
            # what close() itself reports when the server refuses the event is not documented: not judged

    # -- sends
    def _send_common(self, op, facts, attempts, res, gone, bad_type, want_event):
        name = op['op']
        if self.phase == HANDSHAKE:
            self.hit(name + '.unaccepted')
            allowed = ['OperationNotAllowed'] + (['TypeError'] if bad_type else [])
            if attempts:
                self.bad('event-on-refused-op', op=name, why='not accepted', events=[a[1] for a in attempts])
            if not (self._is(res, 'OperationNotAllowed') or (bad_type and _isexc(res, TypeError))):
                self.bad('wrong-error', op=name, why='not yet accepted', want=allowed, got=_show(res))
            return
        if self.phase == CLOSED or gone:
            self.hit(name + ('.closed' if self.phase == CLOSED else '.disconnect-noticed'))
            if attempts:
                self.bad('event-on-closed', op=name, events=[a[1] for a in attempts])
            if not (self._is(res, 'WebSocketDisconnected') or (bad_type and _isexc(res, TypeError))):
                self.bad('wrong-error', op=name, why='closed or disconnected', want=['WebSocketDisconnected'],
                         got=_show(res))
            elif self.phase != CLOSED and facts['handed'] and self._is(res, 'WebSocketDisconnected'):
                want_code = facts['code'] or 1000
                self.gone_code = want_code
                if getattr(res[1], 'code', None) != want_code:
                    self.bad('wrong-disconnect-code', op=name, want=want_code, got=getattr(res[1], 'code', None))
            elif self.phase == CLOSED:
                self.check_gone_code(name, res)
            if self._is(res, 'WebSocketDisconnected'):
                self.phase = CLOSED
            return
        if op.get('unser'):
            # accepted, live socket, but the media handler cannot serialize the object: the handler's error is
            # reported, nothing is sent, nothing changes
            self.hit(name + '.unserializable')
            if attempts:
                self.bad('event-on-refused-op', op=name, why='media not serializable', events=[a[1] for a in attempts])
            if res[0] != 'exc' or self._is(res, 'WebSocketDisconnected', 'OperationNotAllowed'):
                self.bad('wrong-error', op=name, why='media not serializable', want=['the media handler error'],
                         got=_show(res))
            return
        if bad_type:
            self.hit(name + '.bad-type')
            if attempts:
                self.bad('event-on-refused-op', op=name, why='wrong payload type', events=[a[1] for a in attempts])
            if not _isexc(res, TypeError):
                self.bad('wrong-error', op=name, why='wrong payload type', want=['TypeError'], got=_show(res))
            return
        if len(attempts) != 1:
            return self.bad('send-attempts', op=name, want=want_event, got=[a[1] for a in attempts], res=_show(res))
        _, ev, outcome = attempts[0]
        if not want_event(ev):
            self.bad('payload-altered', op=name, sent=op.get('v'), got=ev)
        if outcome == 'sent':
            self.hit(name + '.ok')
            if res[0] != 'ok':
                self.bad('spurious-error', op=name, got=_show(res))
        else:
            self._after_failed_send(name, outcome, res)

    def _op_send_text(self, op, facts, attempts, res, gone):
        v = op['_v']
        self._send_common(op, facts, attempts, res, gone, not isinstance(v, str),
                          lambda ev: isinstance(ev, dict) and ev.get('type') == 'websocket.send' and
                          isinstance(ev.get('text'), str) and wire_text(ev.get('text')) == wire_text(v) and
                          ev.get('bytes') is None)

    def _op_send_data(self, op, facts, attempts, res, gone):
        v = op['_v']
        ok = isinstance(v, (bytes, bytearray, memoryview))
        self._send_common(op, facts, attempts, res, gone, not ok,
                          lambda ev: isinstance(ev, dict) and ev.get('type') == 'websocket.send' and
                          type(ev.get('bytes')) is bytes and ev.get('bytes') == bytes(v) and ev.get('text') is None)

    def _op_send_media(self, op, facts, attempts, res, gone):
        v = op['_v']
        if op.get('pt') == 'binary':
            def match(ev):
                try:
                    return (isinstance(ev, dict) and ev.get('type') == 'websocket.send' and ev.get('text') is None and
                            type(ev.get('bytes')) is bytes and Binary.dec(ev['bytes']) == v)
                except Exception:  # noqa
                    return False
        else:
            def match(ev):
                try:
                    return (isinstance(ev, dict) and ev.get('type') == 'websocket.send' and ev.get('bytes') is None and
                            type(ev.get('text')) is str and json.loads(ev['text']) == v)
                except Exception:  # noqa
                    return False
        self._send_common(op, facts, attempts, res, gone, False, match)

    # -- receives
    def _recv_common(self, op, facts, attempts, res, gone, pick):
        name = op['op']
        if attempts:
            self.bad('event-on-receive', op=name, events=[a[1] for a in attempts])
        if self.phase == HANDSHAKE:
            self.hit(name + '.unaccepted')
            if not self._is(res, 'OperationNotAllowed'):
                self.bad('wrong-error', op=name, why='not yet accepted', want=['OperationNotAllowed'], got=_show(res))
            return
        if self.phase == CLOSED:
            self.hit(name + '.closed')
            if not self._is(res, 'WebSocketDisconnected'):
                self.bad('wrong-error', op=name, why='closed', want=['WebSocketDisconnected'], got=_show(res))
            self.check_gone_code(name, res)
            return
        timed = op.get('timeout') is not None
        if timed and (self.rx >= len(self.client) or self.client[self.rx]['type'] == 'pause'):
            # the client says nothing before the deadline: asyncio.wait_for cancels the parked receive.
            # Nothing was consumed, nothing changes, the socket stays usable.
            self.hit(name + '.timed-out')
            if not _isexc(res, TimeoutError):
                self.bad('wrong-error', op=name, why='no client message before the deadline', want=['TimeoutError'],
                         got=_show(res))
            self.timeouts += 1
            return
        while self.rx < len(self.client) and self.client[self.rx]['type'] == 'pause':
            self.rx += 1              # an untimed receive simply waits until the client speaks again
            self.hit(name + '.waited-through-pause')
        if self.rx >= len(self.client):
            # silent client: the operation can only wait
            self.hit(name + '.would-block')
            return self.bad('receive-returned-without-input', op=name, got=_show(res))
        ev = self.client[self.rx]
        self.rx += 1
        if self.timeouts:
            self.hit(name + '.after-cancelled-receive')
        if ev['type'] == 'websocket.disconnect':
            self.hit(name + '.disconnect')
            self.phase = CLOSED
            if not self._is(res, 'WebSocketDisconnected'):
                self.bad('wrong-error', op=name, why='client disconnected', want=['WebSocketDisconnected'],
                         got=_show(res))
            else:
                want_code = ev.get('code') or 1000
                self.gone_code = want_code
                if getattr(res[1], 'code', None) != want_code:
                    self.bad('wrong-disconnect-code', op=name, want=want_code, got=getattr(res[1], 'code', None))
            return
        kind, want = pick(ev)
        if kind == 'type-error':
            self.hit(name + '.wrong-payload-type')
            if not self._is(res, 'PayloadTypeError'):
                self.bad('wrong-error', op=name, why='payload of the other type', want=['PayloadTypeError'],
                         got=_show(res))
        elif kind == 'malformed':
            self.hit(name + '.malformed-media')
            if res[0] != 'exc' or self._is(res, 'WebSocketDisconnected', 'OperationNotAllowed'):
                self.bad('wrong-error', op=name, why='undecodable media', want=['a media error'], got=_show(res))
        else:
            self.hit(name + '.ok')
            if res[0] != 'ok':
                self.bad('spurious-error', op=name, got=_show(res), index=self.rx - 1)
            elif type(res[1]) is not type(want) or res[1] != want:
                self.bad('payload-altered-or-reordered', op=name, want=want, got=res[1], index=self.rx - 1)

    def blocked(self, op):
        """The operation never completed: legal only for a receive on an accepted, live socket whose
        client has nothing more to say."""
        if self.phase == UNKNOWN:
            return
        rest = [e for e in self.client[self.rx:] if e['type'] != 'pause']
        if op['op'].startswith('receive_') and op.get('timeout') is None and self.phase == ACCEPTED and not rest:
            self.hit(op['op'] + '.blocks-on-silent-client')
            return
        self.bad('operation-never-completed', op=op, phase=self.phase, rx=self.rx, n_client=len(self.client))

    def _op_receive_text(self, op, facts, attempts, res, gone):
        def pick(ev):
            t = ev.get('text')
            return ('ok', t) if t is not None else ('type-error', None)
        self._recv_common(op, facts, attempts, res, gone, pick)

    def _op_receive_data(self, op, facts, attempts, res, gone):
        def pick(ev):
            b = ev.get('bytes')
            return ('ok', b) if b is not None else ('type-error', None)
        self._recv_common(op, facts, attempts, res, gone, pick)

    def _op_receive_media(self, op, facts, attempts, res, gone):
        def pick(ev):
            t, b = ev.get('text'), ev.get('bytes')
            try:
                if t is not None:
                    return ('ok', json.loads(t))
                if b is not None:
                    return ('ok', Binary.dec(b))
            except Exception:  # noqa
                return ('malformed', None)
            return ('type-error', None)
        self._recv_common(op, facts, attempts, res, gone, pick)

    # ------------------------------------------------------------------ end of the conversation
    def open_for_close(self, handed):
        return self.phase in (HANDSHAKE, ACCEPTED) and not self.lost and not handed


def expected_final_code(terminal, error_close_code, rejected):
    """Close code the framework must use for the way user code ended.

    terminal: ('return',) | ('http', status) | ('unexpected',) .
    Returns the list of codes of the close attempts, in order."""
    if terminal[0] == 'return':
        return [1000]
    if terminal[0] == 'http':
        return [3000 + terminal[1]]
    if not valid_close_code(error_close_code):
        return [FALLBACK_ERROR_CODE]
    if error_close_code in rejected:
        return [error_close_code, FALLBACK_ERROR_CODE]
    return [error_close_code]


def wire_text(t):
    """The characters a server puts on the wire for a text value: the str data itself, whatever the
    class of the object says about its display forms (__str__/__repr__/__format__)."""
    return str.encode(t, 'utf-8', 'surrogatepass')


def _pairs(hdrs):
    if not hdrs:
        return []
    if isinstance(hdrs, dict):
        return list(hdrs.items())
    return [tuple(h) for h in hdrs]


def _isexc(res, cls):
    return res[0] == 'exc' and isinstance(res[1], cls)


def _show(res):
    if res[0] == 'exc':
        return 'raised %s(%s) code=%r' % (type(res[1]).__name__, str(res[1])[:80], getattr(res[1], 'code', None))
    return 'returned %r' % (res[1],)
