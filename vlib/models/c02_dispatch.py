"""Reference model of falcon's dispatch decision (property C02).

Written from the property statement and the public documentation of App.add_route /
add_sink / add_static_route (not from falcon's code):

* a route whose template matches the request path always wins over sinks/static routes;
* otherwise sinks and static routes are consulted most-recently-added first, sinks before
  static routes when sink_before_static_route is true, static routes before sinks otherwise;
  a sink matches when its regular expression matches *from the start of the path*, a static
  route when the path starts with "<prefix>/" (or equals the bare prefix if a fallback file is
  configured);
* otherwise 404.

Route templates are restricted to shapes which every reading of the router documentation
decides the same way: '/'-separated segments, each either a literal or one whole-segment field
`{name}` / `{name:int}`.  A request path is `unsure` (the case is skipped, never judged) when an
empty path segment faces a field, or when the path begins with '//'.  When several templates
match one path the statement does not say which resource is meant: every matching route is an
acceptable alternative.
"""

import re

HTTP_METHODS = ['CONNECT', 'DELETE', 'GET', 'HEAD', 'OPTIONS', 'PATCH', 'POST', 'PUT', 'TRACE']
WEBDAV_METHODS = ['CHECKIN', 'CHECKOUT', 'COPY', 'LOCK', 'MKCOL', 'MOVE', 'PROPFIND', 'PROPPATCH',
                  'REPORT', 'UNCHECKIN', 'UNLOCK', 'UPDATE', 'VERSION-CONTROL']
STANDARD = HTTP_METHODS + WEBDAV_METHODS
META = ['WEBSOCKET']
CUSTOM = []     # verbs enabled for this process through FALCON_CUSTOM_HTTP_METHODS (docs: "Custom HTTP Methods")


def configure_custom(methods):
    """Custom verbs are HTTP methods like any other: dispatched, 405'ed and listed in Allow."""
    CUSTOM[:] = list(methods)


def http_verbs():
    return STANDARD + CUSTOM

_FIELD = re.compile(r'^\{([A-Za-z_][A-Za-z0-9_]*)(?::(int))?\}$')
_CLEAN_REL = re.compile(r'^[a-z0-9_]+(\.[a-z0-9]+)?(/[a-z0-9_]+(\.[a-z0-9]+)?)*$')


EMPTY_AS_SUFFIX = '\x00empty-suffix-read-literally'


def responder_name(method, suffix=None):
    n = 'on_' + method.lower()
    if suffix == EMPTY_AS_SUFFIX:
        return n + '_'
    if suffix:
        n += '_' + suffix
    return n


def implemented(callable_attrs, suffix=None):
    """Methods (incl. the WEBSOCKET meta method) a resource implements for a route with this suffix."""
    return {m for m in http_verbs() + META if responder_name(m, suffix) in callable_attrs}


def parse_template(template):
    assert template.startswith('/')
    segs = []
    for s in template[1:].split('/'):
        m = _FIELD.match(s)
        if m:
            segs.append(('field', m.group(1), m.group(2)))
        elif '{' in s:
            # several plain fields and literal text in one segment, e.g. 'v{major}.{minor}'
            parts = []
            for tok in re.split(r'(\{[A-Za-z_][A-Za-z0-9_]*\})', s):
                if tok.startswith('{'):
                    parts.append(('f', tok[1:-1]))
                elif tok:
                    assert '{' not in tok and '}' not in tok, template
                    parts.append(('l', tok))
            segs.append(('multi', parts))
        else:
            assert '}' not in s, template
            segs.append(('lit', s))
    return segs


def _multi_ways(parts, text, limit=2):
    """All ways (up to `limit`) to read `text` as the literal parts with a NON-EMPTY value for every field."""
    if not parts:
        return [{}] if text == '' else []
    kind, val = parts[0]
    if kind == 'l':
        return _multi_ways(parts[1:], text[len(val):], limit) if text.startswith(val) else []
    out = []
    for cut in range(1, len(text) + 1):
        for rest in _multi_ways(parts[1:], text[cut:], limit):
            d = {val: text[:cut]}
            d.update(rest)
            out.append(d)
            if len(out) >= limit:
                return out
    return out


def match_template(segs, path):
    """-> (True, kwargs) | (False, None) | (None, None) when the model declines to decide.

    A path starting with several slashes: neither this property nor C01 says whether the extra leading slashes
    belong to the first segment(s) or are dropped.  Both readings are evaluated; the model only decides when
    they agree (e.g. no template can match under either)."""
    if not path.startswith('/'):
        return None, None
    if path.startswith('//'):
        a = _match_segments(segs, path[1:].split('/'))
        b = _match_segments(segs, path.lstrip('/').split('/'))
        return a if a == b else (None, None)
    return _match_segments(segs, path[1:].split('/'))


def _match_segments(segs, psegs):
    if len(psegs) != len(segs):
        return False, None
    kwargs = {}
    unsure = False
    for seg, p in zip(segs, psegs):
        if seg[0] == 'lit':
            if seg[1] != p:
                return False, None
        elif seg[0] == 'multi':
            ways = _multi_ways(seg[1], p)
            if not ways:
                return False, None
            if len(ways) > 1 or '\n' in p:
                unsure = True           # which split the router prefers is C01's business
                continue
            kwargs.update(ways[0])
        else:
            if p == '':
                unsure = True
                continue
            if seg[2] == 'int':
                if p.isascii() and p.isdigit():
                    kwargs[seg[1]] = int(p)
                elif p.isalpha():
                    return False, None      # letters only: not an integer under any reading
                else:
                    unsure = True           # signs, blanks, '_' ...: the converter's business (C01)
                    continue
            else:
                kwargs[seg[1]] = p
    if unsure:
        return None, None
    return True, kwargs


class Model:
    """Mirror of the sequence of add_route/add_sink/add_static_route calls made on the real app."""

    def __init__(self, sink_first, resources, dirs):
        self.sink_first = sink_first
        self.resources = resources      # list of sets of callable attribute names
        self.dirs = dirs                # dir index -> {relative path: bytes}
        self.routes = []                # (template, segs, res_idx, suffix)
        self.sinks = []                 # (idx, compiled pattern) in order of addition
        self.statics = []               # (idx, prefix, dir_idx, fallback_rel|None) in order of addition

    def add_route(self, template, res_idx, suffix):
        # the responders of a route are the ones the resource has when the route is added
        self.routes.append((template, parse_template(template), res_idx, suffix, frozenset(self.resources[res_idx])))

    def mutate_resource(self, res_idx, add=(), remove=()):
        """The resource object gains / loses callable on_* attributes between two add_* calls.  Routes added
        later see the new set; what routes added EARLIER do with it is not stated (they are skipped)."""
        self.resources[res_idx] = (set(self.resources[res_idx]) | set(add)) - set(remove)

    def add_sink(self, idx, pattern, flags=0):
        self.sinks.append((idx, re.compile(pattern, flags)))

    def add_static(self, idx, prefix, dir_idx, fallback):
        self.statics.append((idx, prefix, dir_idx, fallback))

    # ---- fallbacks
    def _fallback_order(self):
        sinks = [('sink',) + s for s in reversed(self.sinks)]
        statics = [('static',) + s for s in reversed(self.statics)]
        return sinks + statics if self.sink_first else statics + sinks

    @staticmethod
    def _static_matches(prefix, fallback, path):
        p = prefix if prefix.endswith('/') else prefix + '/'
        if path.startswith(p):
            return True
        return fallback is not None and path == p[:-1]

    def matching_fallbacks(self, path):
        out = []
        for item in self._fallback_order():
            if item[0] == 'sink':
                m = item[2].match(path)
                if m:
                    out.append(('sink', item[1], m.groupdict()))
            else:
                _, idx, prefix, dir_idx, fallback = item
                if self._static_matches(prefix, fallback, path):
                    p = prefix if prefix.endswith('/') else prefix + '/'
                    out.append(('static', idx, dir_idx, path[len(p):], fallback))
        return out

    # ---- the decision
    def expect(self, method, path):
        """-> None (skip) or dict(alts=[alternative,...], masks=bool, shadowed=[...])."""
        if method in META:
            return {'alts': [{'cls': '400-meta'}], 'masks': False, 'n_fallbacks': 0}
        matched = []
        for template, segs, res_idx, suffix, snapshot in self.routes:
            ok, kwargs = match_template(segs, path)
            if ok is None:
                return None
            if ok:
                if snapshot != frozenset(self.resources[res_idx]):
                    return None         # resource changed after this route was added: undecided by the statement
                matched.append((template, res_idx, suffix, kwargs))
        fallbacks = self.matching_fallbacks(path)
        if matched:
            alts = []
            readings = []
            for template, res_idx, suffix, kwargs in matched:
                readings.append((template, res_idx, suffix, kwargs))
                if suffix == '' and implemented(self.resources[res_idx], EMPTY_AS_SUFFIX):
                    # add_route(..., suffix=''): "no suffix" (plain on_get ...) is one reading; taking the docs
                    # literally (on_get_{suffix} -> 'on_get_') is the other, tenable only if such responders
                    # exist - a suffix without any responder is refused when the route is added
                    readings.append((template, res_idx, EMPTY_AS_SUFFIX, kwargs))
            for template, res_idx, suffix, kwargs in readings:
                impl = implemented(self.resources[res_idx], suffix)
                http_impl = sorted(m for m in impl if m not in META)
                if method in impl:
                    alt = {'cls': 'responder', 'res': res_idx, 'attr': responder_name(method, suffix),
                           'kwargs': kwargs}
                elif method == 'OPTIONS':
                    alt = {'cls': 'auto-options', 'allow': http_impl}
                elif method in http_verbs():
                    alt = {'cls': '405', 'allow': sorted(set(http_impl) | {'OPTIONS'})}
                else:
                    alt = {'cls': 'unknown-verb'}
                alt['template'] = template
                alt['suffix'] = '' if suffix == EMPTY_AS_SUFFIX else suffix
                if alt not in alts:
                    alts.append(alt)
            return {'alts': alts, 'masks': bool(fallbacks), 'n_fallbacks': len(fallbacks)}
        if not fallbacks:
            return {'alts': [{'cls': '404'}], 'masks': False, 'n_fallbacks': 0}
        first = fallbacks[0]
        if first[0] == 'sink':
            alt = {'cls': 'sink', 'idx': first[1], 'kwargs': first[2]}
        else:
            _, idx, dir_idx, rel, fallback = first
            files = self.dirs[dir_idx]
            alt = {'cls': 'static', 'idx': idx, 'dir': dir_idx, 'rel': rel}
            if rel in files:
                alt['content'] = files[rel]
            elif rel == '' or _CLEAN_REL.match(rel):
                alt['content'] = files[fallback] if fallback is not None else None   # None -> 404
            else:
                alt['lenient'] = True       # the static route's own path sanitising is not this property
                alt['content'] = None
        alt['over'] = [f[0] for f in fallbacks[1:]]
        return {'alts': [alt], 'masks': False, 'n_fallbacks': len(fallbacks)}
