"""Reference readers for typed request headers (property C09).

Written from RFC 9110 (Range, HTTP-date, entity-tag lists, Accept), RFC 6265 section 4.2
(cookie-string), RFC 7239 (Forwarded), RFC 3986 (authority) and falcon's public
documentation of the Request attributes -- not from falcon's parsers.

Every reader is a strict recogniser + evaluator.  It answers either

  ('ok', value)   the text is valid by the grammar; `value` is what an RFC-level parser yields
  FREE            not valid by the strict grammar, or a corner the RFC/docs leave open: the
                  property allows any lenient reading or a 4xx error there

`expectations(case, stack)` turns an abstract request into one expectation per accessor:

  ('eq', v)  ('in', [v..])  ('hosti', [v..])  ('4xx',)  ('free',)  ('pred', label, fn)
"""

import datetime
import ipaddress
import re

UTC = datetime.timezone.utc
FREE = ('free',)
OWS = ' \t'

TCHAR = frozenset("!#$%&'*+-.^_`|~0123456789ABCDEFGHIJKLMNOPQRSTUVWXYZabcdefghijklmnopqrstuvwxyz")
DIGIT = frozenset('0123456789')


def is_token(s):
    return bool(s) and all(c in TCHAR for c in s)


def is_digits(s):
    return bool(s) and all(c in DIGIT for c in s)


# ------------------------------------------------------------------ Content-Length / ints

def ref_content_length(v):
    """RFC 9110 8.6: Content-Length = 1*DIGIT."""
    if is_digits(v) and len(v) <= 1000:
        return ('ok', int(v))
    return FREE


# ------------------------------------------------------------------ Range (RFC 9110 14.1 / 14.2)

def _range_spec(s):
    """int-range / suffix-range -> falcon's documented (first, last) reading, else None."""
    first, dash, last = s.partition('-')
    if not dash:
        return None
    if first == '':
        if not is_digits(last) or int(last) == 0:   # "-0" is unsatisfiable; left open
            return None
        return (-int(last), -1)
    if not is_digits(first):
        return None
    if last == '':
        return (int(first), -1)
    if not is_digits(last) or int(last) < int(first):   # last < first: invalid per 14.1.1
        return None
    return (int(first), int(last))


def ref_range(v):
    """-> (range_unit result, range result).

    A valid set of two or more ranges cannot be expressed by the 2-tuple; the documentation of
    Request.range says such a value results in HTTPBadRequest -> ('4xx',).
    """
    unit, eq, rest = v.partition('=')
    if not eq or not is_token(unit):
        return FREE, FREE
    if ',' in rest:
        parts = [p.strip(OWS) for p in rest.split(',')]
        if len(parts) >= 2 and all(_range_spec(p) is not None for p in parts):
            return ('ok', unit), ('4xx',)
        return FREE, FREE
    spec = _range_spec(rest)
    if spec is None:
        return FREE, FREE
    return ('ok', unit), ('ok', spec)


# ------------------------------------------------------------------ HTTP-date (RFC 9110 5.6.7)

DAY3 = ['Mon', 'Tue', 'Wed', 'Thu', 'Fri', 'Sat', 'Sun']
DAYL = ['Monday', 'Tuesday', 'Wednesday', 'Thursday', 'Friday', 'Saturday', 'Sunday']
MONTH = ['Jan', 'Feb', 'Mar', 'Apr', 'May', 'Jun', 'Jul', 'Aug', 'Sep', 'Oct', 'Nov', 'Dec']
_T = r'([0-9]{2}):([0-9]{2}):([0-9]{2})'
_IMF = re.compile(r'(?:%s), ([0-9]{2}) (%s) ([0-9]{4}) %s GMT\Z' % ('|'.join(DAY3), '|'.join(MONTH), _T))
_R850 = re.compile(r'(?:%s), ([0-9]{2})-(%s)-([0-9]{2}) %s GMT\Z' % ('|'.join(DAYL), '|'.join(MONTH), _T))
_ASC = re.compile(r'(?:%s) (%s) ([0-9]{2}| [0-9]) %s ([0-9]{4})\Z' % ('|'.join(DAY3), '|'.join(MONTH), _T))


def _mkdt(year, mon, day, h, m, s):
    if not (0 <= h <= 23 and 0 <= m <= 59 and 0 <= s <= 59):    # second 60 (leap) left open
        return None
    try:
        return datetime.datetime(year, mon, day, h, m, s, tzinfo=UTC)
    except ValueError:
        return None


def ref_http_date(v):
    """-> ('imf', dt) | ('asctime', dt) | ('rfc850', (yy, mon, day, h, m, s)) | None."""
    m = _IMF.match(v)
    if m:
        d, mon, y, hh, mm, ss = m.groups()
        dt = _mkdt(int(y), MONTH.index(mon) + 1, int(d), int(hh), int(mm), int(ss))
        return ('imf', dt) if dt else None
    m = _ASC.match(v)
    if m:
        mon, d, hh, mm, ss, y = m.groups()
        dt = _mkdt(int(y), MONTH.index(mon) + 1, int(d), int(hh), int(mm), int(ss))
        return ('asctime', dt) if dt else None
    m = _R850.match(v)
    if m:
        d, mon, yy, hh, mm, ss = m.groups()
        # validate day/time against a leap year so that 29-Feb-00 stays open to both centuries
        fields = (int(yy), MONTH.index(mon) + 1, int(d), int(hh), int(mm), int(ss))
        if _mkdt(2000 + fields[0], *fields[1:]) is None and _mkdt(1900 + fields[0], *fields[1:]) is None:
            return None
        return ('rfc850', fields)
    return None


def rfc850_pred(fields):
    """Two-digit years: the century rule of RFC 9110 depends on the current date; only the
    fields that are in the text are demanded."""
    yy, mon, day, h, m, s = fields

    def ok(got):
        return (isinstance(got, datetime.datetime) and got.utcoffset() == datetime.timedelta(0) and
                got.year % 100 == yy and (got.month, got.day, got.hour, got.minute, got.second) == (mon, day, h, m, s))
    return ok


# ------------------------------------------------------------------ entity-tag lists (RFC 9110 8.8.3, 13.1)

_ETAG = re.compile('(W/)?"([\x21\x23-\x7e\x80-\xff]*)"\\Z')


def ref_etags(v):
    """If-Match / If-None-Match = "*" / #entity-tag -> ['*'] or [(opaque, is_weak)...]."""
    if not v or v != v.strip(OWS):
        return FREE
    if v == '*':
        return ('ok', ['*'])
    elems, cur, inq = [], '', False
    for ch in v:
        if ch == '"':
            inq = not inq
            cur += ch
        elif ch == ',' and not inq:
            elems.append(cur)
            cur = ''
        else:
            cur += ch
    elems.append(cur)
    out = []
    for e in elems:
        m = _ETAG.match(e.strip(OWS))
        if not m:
            return FREE      # includes empty list elements (recipient tolerance is optional)
        out.append((m.group(2), bool(m.group(1))))
    return ('ok', out)


# ------------------------------------------------------------------ Cookie (RFC 6265 4.2.1)

QUOTED_COOKIE_READING = {}     # stack -> 'keep' | 'strip' (set by the check after calibration)

COOKIE_OCTET = frozenset(chr(c) for c in [0x21] + list(range(0x23, 0x2C)) + list(range(0x2D, 0x3B)) +
                         list(range(0x3C, 0x5C)) + list(range(0x5D, 0x7F)))


def ref_cookies(v):
    """cookie-string = cookie-pair *( ";" SP cookie-pair ) -> [(name, [acceptable values])].

    For a DQUOTE-wrapped cookie-value RFC 6265 does not say whether the quotes belong to the
    value (falcon's parser says it mimics the standard library, which strips them).  Either
    reading is acceptable, but it has to be ONE reading for the whole production
    ( DQUOTE *cookie-octet DQUOTE ), the empty quoted value included: the alternatives are
    returned as [kept, stripped] and `expectations` selects the one named by
    QUOTED_COOKIE_READING[stack] ('keep' | 'strip'), which the check calibrates once per stack on
    a non-empty quoted canary.  Without calibration both are accepted.
    """
    if not v:
        return FREE
    pairs = []
    for p in v.split('; '):
        name, eq, val = p.partition('=')
        if not eq or not is_token(name):
            return FREE
        if len(val) >= 2 and val[0] == '"' and val[-1] == '"':
            inner, alts = val[1:-1], [val, val[1:-1]]
        else:
            inner, alts = val, [val]
        if any(c not in COOKIE_OCTET for c in inner):
            return FREE
        pairs.append((name, alts))
    return ('ok', pairs)


# ------------------------------------------------------------------ Forwarded (RFC 7239 4, 6)

def _split_unquoted(s, sep):
    out, cur, inq, esc = [], '', False, False
    for ch in s:
        if inq:
            cur += ch
            if esc:
                esc = False
            elif ch == '\\':
                esc = True
            elif ch == '"':
                inq = False
        elif ch == '"':
            inq = True
            cur += ch
        elif ch == sep:
            out.append(cur)
            cur = ''
        else:
            cur += ch
    out.append(cur)
    return out


def ref_unquote(q):
    """quoted-string -> text, None when not a quoted-string (obs-text left open)."""
    if len(q) < 2 or q[0] != '"' or q[-1] != '"':
        return None
    body, out, i = q[1:-1], [], 0
    while i < len(body):
        c = body[i]
        o = ord(c)
        if c == '\\':
            if i + 1 >= len(body):
                return None
            n = ord(body[i + 1])
            if not (n in (0x09, 0x20) or 0x21 <= n <= 0x7E):
                return None
            out.append(body[i + 1])
            i += 2
        elif o in (0x09, 0x20, 0x21) or 0x23 <= o <= 0x5B or 0x5D <= o <= 0x7E:
            out.append(c)
            i += 1
        else:
            return None
    return ''.join(out)


def ref_forwarded(v):
    """Forwarded = 1#forwarded-element -> [{lower-case param: value}, ...]."""
    if not v or v != v.strip(OWS):
        return FREE
    elements = []
    for e in _split_unquoted(v, ','):
        e = e.strip(OWS)
        pairs = {}
        for p in _split_unquoted(e, ';'):
            if p == '':
                continue             # forwarded-element = [pair] *( ";" [pair] )
            name, eq, val = p.partition('=')
            if not eq or not is_token(name):
                return FREE
            if not is_token(val):
                val = ref_unquote(val)
                if val is None:
                    return FREE
            lname = name.lower()
            if lname in pairs:
                return FREE          # each parameter MUST NOT occur more than once
            pairs[lname] = val
        if not pairs:
            return FREE              # empty list element: recipient tolerance optional
        elements.append(pairs)
    return ('ok', elements)


_OBF = re.compile(r'_[A-Za-z0-9._\-]+\Z')


def _is_ipv4(s):
    parts = s.split('.')
    return len(parts) == 4 and all(is_digits(p) and len(p) <= 3 and int(p) <= 255 and (p == '0' or p[0] != '0')
                                   for p in parts)


def _is_ipv6(s):
    if '%' in s or not s:
        return False
    try:
        ipaddress.IPv6Address(s)
        return True
    except ValueError:
        return False


def ref_node(s):
    """RFC 7239 6: node = nodename [ ":" node-port ] -> acceptable host texts, None if not a node."""
    if s.startswith('['):
        end = s.find(']')
        if end < 0 or not _is_ipv6(s[1:end]):
            return None
        names, rest = [s[1:end], s[:end + 1]], s[end + 1:]
    else:
        name, colon, port = s.partition(':')
        if not (name.lower() == 'unknown' or _OBF.match(name) or _is_ipv4(name)):
            return None
        names, rest = [name], colon + port
    if rest == '':
        return names
    port = rest[1:]
    if rest[0] == ':' and ((is_digits(port) and len(port) <= 5) or _OBF.match(port)):
        return names
    return None


# ------------------------------------------------------------------ Host (RFC 9110 7.2, RFC 3986 3.2)

_REGNAME = re.compile(r"(?:[A-Za-z0-9\-._~!$&'()*+,;=]|%[0-9A-Fa-f]{2})+\Z")
_LDH = re.compile(r'[A-Za-z0-9](?:[A-Za-z0-9\-]*[A-Za-z0-9])?\Z')


def ref_authority(v):
    """Host = uri-host [ ":" port ] -> ('ok', (host alternatives, port or None, kind))."""
    if v.startswith('['):
        end = v.find(']')
        if end < 0 or not _is_ipv6(v[1:end]):
            return FREE
        hosts, rest, kind = [v[1:end], v[:end + 1]], v[end + 1:], 'ipv6'
    else:
        host, colon, port = v.partition(':')
        if not _REGNAME.match(host):
            return FREE
        hosts, rest = [host], colon + port
        kind = 'ipv4' if _is_ipv4(host) else 'reg'
    if rest == '':
        return ('ok', (hosts, None, kind))
    if rest[0] != ':':
        return FREE
    port = rest[1:]
    if port == '':
        return ('ok', (hosts, None, kind))       # port = *DIGIT; empty means default (3986 6.2.3)
    if is_digits(port) and len(port) <= 1000:
        return ('ok', (hosts, int(port), kind))
    return FREE


# ------------------------------------------------------------------ Accept (RFC 9110 12.5.1)

_QVALUE = re.compile(r'(?:0(?:\.[0-9]{0,3})?|1(?:\.0{0,3})?)\Z')


def ref_accept_ranges(v):
    """-> [(type, subtype, q)] lower-cased, or None when outside this model.

    Media-range parameters other than the weight, duplicated ranges and empty list elements are
    outside (their matching rules belong to property C11)."""
    ranges = []
    for part in v.split(','):
        part = part.strip(OWS)
        if not part:
            return None
        bits = [b.strip(OWS) for b in part.split(';')]
        t, slash, st = bits[0].partition('/')
        if not slash or not is_token(t) or not is_token(st) or (t == '*' and st != '*'):
            return None
        q = 1.0
        if len(bits) > 2:
            return None
        if len(bits) == 2:
            n, eq, val = bits[1].partition('=')
            if n not in ('q', 'Q') or not eq or not _QVALUE.match(val):
                return None
            q = float(val)
        ranges.append((t.lower(), st.lower(), q))
    if len(set(r[:2] for r in ranges)) != len(ranges):
        return None
    return ranges


def ref_quality(media_type, ranges):
    """q of the most specific matching range (RFC 9110 12.5.1), 0.0 when none matches."""
    t, _, st = media_type.lower().partition('/')
    best = None
    for rt, rst, q in ranges:
        if (rt, rst) == (t, st):
            spec = 3
        elif rt == t and rst == '*':
            spec = 2
        elif rt == '*' and rst == '*':
            spec = 1
        else:
            continue
        if best is None or spec > best[0]:
            best = (spec, q)
    return best[1] if best else 0.0


# ------------------------------------------------------------------ de-facto headers

_SCHEME = re.compile(r'[A-Za-z][A-Za-z0-9+\-.]*\Z')
_XFF_ENTRY = re.compile(r'[0-9A-Za-z.:_\-\[\]]+\Z')


def ref_xff(v):
    out = []
    for e in v.split(','):
        e = e.strip(' ')
        if not _XFF_ENTRY.match(e):
            return FREE
        out.append(e)
    return ('ok', out)


# ------------------------------------------------------------------ expectations per accessor

DATE_PROPS = {'date': 'date', 'if_modified_since': 'if-modified-since', 'if_unmodified_since': 'if-unmodified-since'}
OBS_DATE_HEADERS = ['Date', 'If-Modified-Since', 'If-Unmodified-Since', 'X-When']
RAW_PROPS = {'user_agent': 'user-agent', 'auth': 'authorization', 'expect': 'expect', 'if_range': 'if-range',
             'referer': 'referer'}
ACCEPT_PROBES = ['application/json', 'application/xml', 'text/html', 'image/png']
PREFER_SETS = [('text/html', 'application/json'), ('application/xml', 'application/json', 'image/png')]
INT_HEADERS = ['Content-Length', 'X-Count']


def eq(v):
    return ('eq', v)


# list-based fields (RFC 9110 5.3): a sender may spread the list over several field lines; the field value is the
# lines joined, in order, by a comma (optional whitespace)
LIST_FIELDS = frozenset(['if-match', 'if-none-match', 'accept', 'forwarded', 'x-forwarded-for'])


def combine_headers(headers):
    """[[name, value]...] -> ({lower name: combined value}, {lower name: [acceptable raw texts]} for split fields)."""
    lines = {}
    for name, value in headers:
        lines.setdefault(name.lower(), []).append(value)
    hdr, raw_alts = {}, {}
    for n, vs in lines.items():
        if len(vs) > 1:
            if n not in LIST_FIELDS:
                raise ValueError('generator error: singleton field %r on several lines' % n)
            raw_alts[n] = [','.join(vs), ', '.join(vs)]
        hdr[n] = ','.join(vs)
    return hdr, raw_alts


def expectations(case, stack):
    """case: {'scheme','server','client','root_path','path','query','headers': [[name, value]...]}.

    Returns ({accessor key: expectation}, set of branch-class labels).
    """
    hdr, raw_alts = combine_headers(case['headers'])

    def raw(name):
        v = hdr.get(name)
        return eq(v) if name not in raw_alts else ('in', raw_alts[name])
    scheme = case['scheme']
    if stack == 'asgi' and case.get('asgi_ws'):
        # WebSocket connection scope (falcon.asgi.Request as built for on_websocket / process_request_ws):
        # the scheme is ws / wss; default ports 80 / 443 (RFC 6455 section 3)
        scheme = {'http': 'ws', 'https': 'wss'}[scheme]
    default_port = 443 if scheme in ('https', 'wss') else 80
    E, B = {}, set()

    # ---- plain
    for prop, h in RAW_PROPS.items():
        v = hdr.get(h)
        E[prop] = eq(None) if v is None else (eq(v) if v else FREE)
    ct = hdr.get('content-type')
    E['content_type'] = eq(ct)
    def headers_ok(got, want=dict(hdr), lower_only=False):
        # names: documented upper-case on WSGI, lower-case on ASGI; only case-insensitive equality is demanded.
        # a list field sent on several lines may be joined with "," or ", "
        if not isinstance(got, dict) or len(got) != len(want):
            return False
        g = {(k if lower_only else k.lower()): v for k, v in got.items()}
        return set(g) == set(want) and all(g[k] in raw_alts.get(k, [want[k]]) for k in want)
    E['headers'] = ('pred', 'headers %r' % (hdr,), headers_ok)
    E['headers_lower'] = ('pred', 'lower-case headers %r' % (hdr,), lambda got: headers_ok(got, lower_only=True))
    for n in raw_alts:
        B.add('multiline.' + n)
    E['scheme'] = eq(scheme)
    E['root_path'] = eq(case['root_path'])

    # ---- Content-Length and int headers
    cl = hdr.get('content-length')
    if cl is None:
        E['content_length'] = eq(None)
    else:
        r = ref_content_length(cl)
        E['content_length'] = eq(r[1]) if r[0] == 'ok' else FREE
        B.add('cl.valid' if r[0] == 'ok' else 'cl.invalid')
    for name in INT_HEADERS:
        v = hdr.get(name.lower())
        if v is None:
            E['get_header_as_int:' + name] = eq(None)
        else:
            E['get_header_as_int:' + name] = eq(int(v)) if (is_digits(v) and len(v) < 1000) else FREE

    # ---- Range
    rg = hdr.get('range')
    if rg is None:
        E['range'] = E['range_unit'] = eq(None)
    else:
        ur, rr = ref_range(rg)
        E['range_unit'] = ('in', [ur[1], ur[1].lower()]) if ur[0] == 'ok' else FREE
        if rr[0] == 'ok':
            E['range'] = eq(rr[1])
            a, b = rr[1]
            B.add('range.suffix' if a < 0 else ('range.open' if b == -1 else 'range.int'))
            if a == b:
                B.add('range.first_eq_last')
        elif rr[0] == '4xx':
            E['range'] = rr
            B.add('range.multi')
        else:
            E['range'] = FREE
            B.add('range.invalid')

    # ---- dates
    for prop, h in DATE_PROPS.items():
        v = hdr.get(h)
        if v is None:
            E[prop] = eq(None)
            continue
        r = ref_http_date(v)
        if r is not None and r[0] == 'imf':
            E[prop] = eq(r[1])
        else:
            E[prop] = FREE       # documented: "assumed to conform to RFC 1123"; obs-date needs obs_date=True
    for name in OBS_DATE_HEADERS:
        v = hdr.get(name.lower())
        key = 'hdt_obs:' + name
        if v is None:
            E[key] = eq(None)
            continue
        r = ref_http_date(v)
        if r is None:
            E[key] = FREE
            B.add('date.invalid')
        elif r[0] == 'rfc850':
            E[key] = ('pred', 'rfc850 fields', rfc850_pred(r[1]))
            B.add('date.rfc850')
        else:
            E[key] = eq(r[1])
            B.add('date.' + r[0])

    # ---- entity tags
    for prop, h in (('if_match', 'if-match'), ('if_none_match', 'if-none-match')):
        v = hdr.get(h)
        if v is None:
            E[prop] = eq(None)
            continue
        r = ref_etags(v)
        if r is FREE:
            E[prop] = FREE
            B.add('etag.invalid')
            continue
        E[prop] = eq(r[1])
        if r[1] == ['*']:
            B.add('etag.star')
        else:
            B.add('etag.single' if len(r[1]) == 1 else 'etag.list')
            if any(w for _, w in r[1]):
                B.add('etag.weak')
            if any(',' in t for t, _ in r[1]):
                B.add('etag.comma_inside')
            if any(t == '' for t, _ in r[1]):
                B.add('etag.empty_opaque')

    # ---- cookies
    ck = hdr.get('cookie')
    names = list(case.get('cookie_probe', []))
    if ck is None:
        E['cookies'] = eq({})
        for n in names:
            E['cookie_values:' + n] = eq(None)
    else:
        r = ref_cookies(ck)
        if r is FREE:
            E['cookies'] = FREE
            for n in names:
                E['cookie_values:' + n] = FREE
            B.add('cookie.invalid')
        else:
            first, allv = {}, {}
            reading = QUOTED_COOKIE_READING.get(stack)
            for n, alts in r[1]:
                if len(alts) > 1:
                    if alts[1] == '':
                        B.add('cookie.empty_quoted')
                    if reading is not None:
                        alts = [alts[0 if reading == 'keep' else 1]]
                first.setdefault(n, alts)
                allv.setdefault(n, []).append(alts)
            if len(allv) < len(r[1]):
                B.add('cookie.duplicate_name')
            if any(len(a) > 1 for _, a in r[1]):
                B.add('cookie.quoted')
            if len(r[1]) > 1:
                B.add('cookie.multi')
            B.add('cookie.valid')

            def cookies_ok(got, first=first):
                return (isinstance(got, dict) and set(got) == set(first) and
                        all(got[k] in first[k] for k in first))
            E['cookies'] = ('pred', 'first value per name %r' % (first,), cookies_ok)
            for n in names:
                if n not in allv:
                    E['cookie_values:' + n] = eq(None)
                else:
                    def vals_ok(got, want=allv[n]):
                        return (isinstance(got, list) and len(got) == len(want) and
                                all(g in w for g, w in zip(got, want)))
                    E['cookie_values:' + n] = ('pred', 'all values in order %r' % (allv[n],), vals_ok)

    # ---- Host / netloc / port
    host = hdr.get('host')
    server = None if (stack == 'asgi' and case.get('asgi_no_server')) else case.get('server')
    netloc = None             # None -> free
    if host is not None:
        r = ref_authority(host)
        if r is FREE:
            E['host'] = E['port'] = E['netloc'] = E['subdomain'] = FREE
            B.add('host.invalid')
        else:
            hosts, port, kind = r[1]
            E['host'] = ('hosti', hosts)
            E['port'] = eq(default_port if port is None else port)
            E['netloc'] = eq(host)
            netloc = host
            B.add('host.' + kind)
            B.add('host.port' if port is not None else ('host.empty_port' if host.endswith(':') else 'host.noport'))
            if port is None:
                B.add('host.default_port_' + scheme)
            if kind == 'reg':
                labels = hosts[0].split('.')
                if all(_LDH.match(x) for x in labels):
                    E['subdomain'] = eq(labels[0] if len(labels) > 1 else None)
                    B.add('subdomain.some' if len(labels) > 1 else 'subdomain.none')
                else:
                    E['subdomain'] = FREE
            else:
                E['subdomain'] = FREE     # documented: undefined for IP addresses
    elif server is None:
        E['host'] = E['port'] = E['netloc'] = E['subdomain'] = FREE
        B.add('host.absent_no_server')
    else:
        sname, sport = server
        E['port'] = eq(int(sport))
        if _is_ipv6(sname):
            # server bound to an IPv6 address.  RFC 3875 (CGI) puts the brackets into SERVER_NAME, common WSGI
            # servers (and the ASGI 'server' pair) give the bare address.
            if stack == 'wsgi' and case.get('wsgi_server_bracketed'):
                lit = '[%s]' % sname
                E['host'] = ('hosti', [sname, lit])
                netloc = lit if int(sport) == default_port else '%s:%s' % (lit, sport)
                E['netloc'] = eq(netloc)
                B.add('host.absent_ipv6_bracketed')
            else:
                # a bare address has no RFC 3986 authority reading without adding brackets; the server address is
                # not a header value, so netloc and the URLs built from it are left open; host and port are not
                E['host'] = ('hosti', [sname, '[%s]' % sname])
                E['netloc'] = FREE
                netloc = None
                B.add('host.absent_ipv6_bare')
                B.add('host.absent_ipv6_bare_default_port' if int(sport) == default_port else
                      'host.absent_ipv6_bare_other_port')
            E['subdomain'] = FREE
        else:
            E['host'] = ('hosti', [sname])
            netloc = sname if int(sport) == default_port else '%s:%s' % (sname, sport)
            E['netloc'] = eq(netloc)
            labels = sname.split('.')
            E['subdomain'] = eq(labels[0] if len(labels) > 1 else None) if all(_LDH.match(x) for x in labels) and \
                not _is_ipv4(sname) else FREE
        B.add('host.absent')
        B.add('netloc.server_default_port' if int(sport) == default_port else 'netloc.server_other_port')

    if scheme in ('ws', 'wss'):
        B.add('ws.host_header' if host is not None else 'ws.no_host_header')

    # ---- URL composition
    rel = case['root_path'] + case['path'] + ('?' + case['query'] if case['query'] else '')
    E['relative_uri'] = eq(rel)
    if netloc is None:
        E['uri'] = E['url'] = E['prefix'] = FREE
    else:
        E['uri'] = E['url'] = eq(scheme + '://' + netloc + rel)
        E['prefix'] = eq(scheme + '://' + netloc + case['root_path'])
        B.add('uri.composed')
        if case['query']:
            B.add('uri.with_query')
        if case['root_path']:
            B.add('uri.with_root_path')

    # ---- Forwarded family
    fw = hdr.get('forwarded')
    fwd = None
    if fw is None:
        E['forwarded'] = eq(None)
    else:
        r = ref_forwarded(fw)
        if r is FREE:
            E['forwarded'] = FREE
            fwd = FREE
            B.add('fwd.invalid')
        else:
            fwd = r[1]
            E['forwarded'] = eq([(e.get('for'), e.get('by'), e.get('host'),
                                  e['proto'].lower() if 'proto' in e else None) for e in fwd])
            B.add('fwd.valid')
            if len(fwd) > 1:
                B.add('fwd.multi_hop')
            if any(set(e) - {'for', 'by', 'host', 'proto'} for e in fwd):
                B.add('fwd.ext_param')
            if '\\' in fw:
                B.add('fwd.quoted_pair')
            for e in fwd:
                f = e.get('for', '')
                if f.startswith('['):
                    B.add('fwd.ipv6_port' if ']:' in f else 'fwd.ipv6')
                elif f.startswith('_'):
                    B.add('fwd.obfnode')
                if ':_' in f:
                    B.add('fwd.obfport')

    # forwarded_scheme
    if fw is not None:
        if fwd is FREE:
            fs = None
        else:
            p = fwd[0].get('proto')
            fs = p.lower() if p else scheme
            B.add('fscheme.forwarded_proto' if p else 'fscheme.forwarded_fallback')
    elif 'x-forwarded-proto' in hdr:
        x = hdr['x-forwarded-proto']
        fs = x.lower() if _SCHEME.match(x) else None
        B.add('fscheme.xfp')
    else:
        fs = scheme
        B.add('fscheme.own')
    E['forwarded_scheme'] = FREE if fs is None else eq(fs)

    # forwarded_host
    if fw is not None:
        if fwd is FREE:
            fh = None
        else:
            fh = fwd[0].get('host') or netloc
            B.add('fhost.forwarded_host' if fwd[0].get('host') else 'fhost.forwarded_fallback')
    elif 'x-forwarded-host' in hdr:
        x = hdr['x-forwarded-host']
        fh = x if ref_authority(x) is not FREE else None
        B.add('fhost.xfh')
    else:
        fh = netloc
        B.add('fhost.own')
    E['forwarded_host'] = FREE if fh is None else eq(fh)
    if fs is None or fh is None:
        E['forwarded_uri'] = E['forwarded_prefix'] = FREE
    else:
        E['forwarded_uri'] = eq(fs + '://' + fh + rel)
        E['forwarded_prefix'] = eq(fs + '://' + fh + case['root_path'])

    # access_route / remote_addr
    client = case.get('client')
    remote = client[0] if client else '127.0.0.1'     # documented default when unknown
    route = None          # list of alternatives-lists, or None for free
    if fw is not None:
        if fwd is not FREE:
            route = []
            for e in fwd:
                if 'for' in e:
                    alts = ref_node(e['for'])
                    if alts is None:
                        route = None
                        break
                    route.append(alts)
            B.add('route.forwarded')
    elif 'x-forwarded-for' in hdr:
        r = ref_xff(hdr['x-forwarded-for'])
        route = None if r is FREE else [[x] for x in r[1]]
        B.add('route.xff')
    elif 'x-real-ip' in hdr:
        x = hdr['x-real-ip']
        route = [[x]] if _XFF_ENTRY.match(x) else None
        B.add('route.x_real_ip')
    else:
        route = []
        B.add('route.remote_only')
    if route is None:
        E['access_route'] = FREE
        E['remote_addr'] = eq(remote) if stack == 'wsgi' else FREE
    else:
        if route and remote in route[-1]:
            variants = [route]
            B.add('route.remote_is_last')
        elif any(remote in alts for alts in route):
            variants = [route, route + [[remote]]]      # docs differ on "already included"
        else:
            variants = [route + [[remote]]]
            if route:
                B.add('route.remote_appended')

        def route_ok(got, variants=variants):
            return isinstance(got, list) and any(
                len(got) == len(var) and all(g in alts for g, alts in zip(got, var)) for var in variants)
        E['access_route'] = ('pred', 'route %r' % (variants,), route_ok)
        E['remote_addr'] = eq(remote)

    # ---- Accept
    ac = hdr.get('accept')
    if ac is None:
        E['accept'] = eq('*/*')
        ranges = [('*', '*', 1.0)]
        B.add('accept.absent')
    elif ac == '':
        E['accept'] = FREE
        ranges = None
    else:
        E['accept'] = raw('accept')
        ranges = ref_accept_ranges(ac)
        B.add('accept.modelled' if ranges is not None else 'accept.unmodelled')

    def accepts(mt):
        return ref_quality(mt, ranges) > 0.0
    if ranges is None:
        for mt in ACCEPT_PROBES:
            E['client_accepts:' + mt] = FREE
        for s in PREFER_SETS:
            E['client_prefers:' + ','.join(s)] = FREE
        E['client_accepts_json'] = E['client_accepts_xml'] = E['client_accepts_msgpack'] = FREE
    else:
        for mt in ACCEPT_PROBES:
            E['client_accepts:' + mt] = eq(accepts(mt))
            if ac is not None:
                B.add('accept.yes' if accepts(mt) else 'accept.no')
        E['client_accepts_json'] = eq(accepts('application/json'))
        E['client_accepts_xml'] = eq(accepts('application/xml'))
        E['client_accepts_msgpack'] = eq(accepts('application/x-msgpack') or accepts('application/msgpack'))
        for s in PREFER_SETS:
            qs = [ref_quality(mt, ranges) for mt in s]
            top = max(qs)
            if top <= 0.0:
                E['client_prefers:' + ','.join(s)] = eq(None)
            else:
                E['client_prefers:' + ','.join(s)] = ('in', [mt for mt, q in zip(s, qs) if q == top])
        if ac is not None and any(q == 0.0 for _, _, q in ranges):
            B.add('accept.q0')
        if ac is not None and any(st == '*' and t != '*' for t, st, _ in ranges):
            B.add('accept.subtype_wildcard')

    # ---- case-insensitive lookup (three casings per probed name)
    for name in case.get('lookup', []):
        E['get_header:' + name] = raw(name.lower())
    return E, B
