"""Flat byte cursor: the reference model for buffered readers (C14) and body streams (C07)."""


class ModelDelimiterError(Exception):
    pass


class Cursor:
    def __init__(self, data, limit=None):
        self.data = bytes(data if limit is None else data[:max(limit, 0)])
        self.pos = 0

    # -- helpers
    @property
    def remaining(self):
        return len(self.data) - self.pos

    def at_end(self):
        return self.pos >= len(self.data)

    def _take(self, n):
        out = self.data[self.pos:self.pos + n]
        self.pos += len(out)
        return out

    # -- operations
    def read(self, size=-1):
        if size is None or size < 0:
            return self._take(self.remaining)
        return self._take(size)

    def peek(self, size, chunk_size):
        if size < 0 or size > chunk_size:
            size = chunk_size
        return self.data[self.pos:self.pos + size]

    def find(self, delimiter):
        i = self.data.find(delimiter, self.pos)
        return -1 if i < 0 else i - self.pos

    def read_until(self, delimiter, size=-1, consume=False):
        """Returns the bytes before the next delimiter, at most `size` of them.
        With consume: the delimiter must directly follow what was returned."""
        p = self.find(delimiter)
        if size is None or size < 0:
            size = self.remaining
        n = size if p < 0 else min(size, p)
        out = self._take(n)
        if consume:
            if self.data[self.pos:self.pos + len(delimiter)] == delimiter:
                self.pos += len(delimiter)
            else:
                raise ModelDelimiterError(out)
        return out

    def readline(self, size=-1):
        p = self.find(b'\n')
        n = self.remaining if p < 0 else p + 1
        if size is not None and size >= 0:
            n = min(n, size)
        return self._take(n)

    def readlines(self, hint=-1):
        out = []
        total = 0
        while True:
            line = self.readline()
            if not line:
                break
            out.append(line)
            if hint is not None and hint >= 0:
                total += len(line)
                if total >= hint:
                    break
        return out

    def child(self, delimiter):
        """Sub-cursor over the bytes up to the next delimiter (or to the end)."""
        p = self.find(delimiter)
        n = self.remaining if p < 0 else p
        c = Cursor(self.data[self.pos:self.pos + n])
        c._parent = self
        return c

    def finish_child(self, child):
        """The child has been exhausted: the parent now stands at the delimiter."""
        self.pos += len(child.data)
