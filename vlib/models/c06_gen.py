"""C06 workload: pools, bounded-exhaustive families and the seeded random generator.

Everything produced here is JSON-able (see c06_request.py).  Inputs that are known to hit C09's
recorded findings (non-numeric port in Host / Forwarded for=) are deliberately not generated: those
are C09's business and would be re-reported here as a secondary WSGI/ASGI difference.
"""

import itertools

from vlib.models.c06_request import SINGLETONS, finalize, has_header, new_request, sim_host_value

# ---------------------------------------------------------------------------------- request pools

SEGMENTS = ['items', 'u', 'posts', '7', '42', 'bob', 'a%20b', '%C3%A9', '%E2%82%AC', '%F0%9F%98%80', '%FF',
            '%C0%AF', '%C3', '%2F', '%2f', '+', 'a;b', '%zz', '%', '%4', '', '.', '..', 'A', '%41', 'a=b', 'a,b',
            '%3F', '%23', '%00', '%7E', '~', 'sink', 'files', 'x.y', '%E9', '-1', '007', '%25', '%2525', "o'k", 'a&b']

PATHS = [
    '/', '/items', '/items/', '/items//', '//items', '/items/7', '/items/7/', '/items/a%20b', '/items/%C3%A9',
    '/items/%E2%82%AC/', '/items/%FF', '/items/%C0%AF', '/items/%C3', '/items/%2F', '/items/a%2Fb', '/items/+',
    '/items/a;b', '/items/%zz', '/items/%', '/items/%4', '/items/.', '/items/..', '/ITEMS', '/%69tems',
    '/u/bob/posts/7', '/u/bob/posts/x', '/u/bob/posts/7/', '/u/%C3%A9/posts/007', '/u/bob/posts/-1',
    '/u//posts/7', '/u/bob/posts/%37', '/u/bob/posts/%207', '/files/a/b/c', '/files/', '/files', '/files/a%2Fb/c',
    '/files/%E2%82%AC/x.y', '/sink', '/sink/x/y', '/sink/%C3%A9', '/sinker', '/nope', '/nope/', '/%', '/%FF',
    '/%F0%9F%98%80', '/items/%F0%9F%98%80', '/a%3Fb', '/items/a%3Fb', '/items/%23', '/items/%00', '/items/%25',
    '/items/%2525', '/items/a&b', '/items/a=b', "/items/o'k", '/*', '/items/*',
]
RAW8_PATHS = ['/items/\xc3\xa9', '/items/\xff', '/u/\xe2\x82\xac/posts/7', '/\xc3\xa9/', '/items/\xc3']

QUERIES = [
    '', 'a=1', 'a=1&b=2', 'a=1&a=2', 'a=1&a=2&a=3', 'a=', 'a', 'a&b', '=1', '=', '&', '&&', 'a=1&', '&a=1',
    'a=1&&b=2', 'a=x%20y', 'a=x+y', 'a=%2B', 'a=%C3%A9', 'a=%E2%82%AC', 'a=%FF', 'a=%C3', 'a=%zz', 'a=%', 'a=%4',
    'a=1,2,3', 'a=1,2&a=3', 'a=,', 'a=1,', 'a=,1', 'a=%2C', 'a=1%2C2', 'a=1,,2', 'a=b=c', 'a==', 'a=1;b=2',
    'a%20b=1', 'a+b=1', '%C3%A9=1', 'id=42', 'id=-7', 'id=4.5', 'id=abc', 'id=', 'id=42&id=43', 'id=0x1f',
    'flag=true', 'flag=false', 'flag=1', 'flag=0', 'flag=yes', 'flag=no', 'flag=T', 'flag=', 'flag', 'flag=maybe',
    'q=%26%3D', 'q=a%26b=c', 'a=1&b=&id=42&flag=true', 'a=%00', 'a=null', 'A=1&a=2', 'a=1&b=2&a=3', 'a=%201',
    'a=1#frag', 'a=%25', 'a=%2525', '?a=1', 'a=?', 'a=/', 'a[]=1&a[]=2', 'a=' + 'x' * 300,
    'next=/other?page=2', 'a=1&b=?x', 'q=a?b?c', '??', 'a=%3F&b=?', 'a=1?', 'a=b=c&d=e?f=g', 'a=:/@!$()*;', 'id=7&id=8&a=1', 'a=1,2&b=3,4',
]
RAW8_QUERIES = ['a=\xc3\xa9', 'a=\xff', 'a=1&b=\xe2\x82\xac', '\xc3\xa9=1', 'a=\xc3']

HOST_VALUES = ['example.com', 'example.com:8080', 'sub.example.com:443', 'a.b.c.example.org', 'EXAMPLE.com',
               'localhost', 'localhost:8000', '127.0.0.1', '127.0.0.1:81', '[::1]', '[::1]:8000', '[2001:db8::1]:443',
               'example.com:80', 'example.com:443', 'example.com:0', 'example.com:65535', 'xn--caf-dma.example']

DATES = ['Sun, 06 Nov 1994 08:49:37 GMT', 'Thu, 01 Jan 1970 00:00:00 GMT', 'Wed, 21 Oct 2015 07:28:00 GMT',
         'Sunday, 06-Nov-94 08:49:37 GMT', 'Sun Nov  6 08:49:37 1994', 'garbage', '', '2015-10-21T07:28:00Z',
         'Sun, 06 Nov 1994 08:49:37 +0100', 'Wed, 31 Feb 2015 07:28:00 GMT']

HEADER_POOL = {
    'Accept': ['*/*', 'application/json', 'application/xml', 'text/html;q=0.5, application/xml;q=0.9',
               'application/x-msgpack', 'application/msgpack', '', 'garbage', 'text/*;q=0', 'application/json;q=0',
               'text/xml', 'application/x-yaml, */*;q=0.1', 'Application/JSON', 'application/*', 'a/b;q=x'],
    'Content-Type': ['application/json', 'application/json; charset=utf-8', 'application/x-www-form-urlencoded',
                     'multipart/form-data; boundary=BOUND', 'text/plain', 'application/x-nope', '',
                     'APPLICATION/JSON', 'application/msgpack', 'garbage'],
    'Cookie': ['a=1', 'a=1; b=2', 'a=1; a=2', 'x="q r"', 'bad', '', 'a=1;b=2', 'a=; b', 'a=1; b=2; a=3',
               'sid=abc.DEF-1_2; theme=dark', 'a="1"; b=""', 'a=caf\xe9', '=x', 'a=1; ; b=2', 'A=1; a=2'],
    'Host': HOST_VALUES,
    'Forwarded': ['for=192.0.2.60;proto=https;host=example.org', 'for="[2001:db8::1]:4711"',
                  'for=192.0.2.43, for=198.51.100.17;by=203.0.113.60', 'proto=HTTPS', 'garbage', '',
                  'for=unknown', 'for=_hidden', 'for=192.0.2.43;proto=http;by=203.0.113.43', 'host=fwd.example.org:8443',
                  'for="192.0.2.43:47011";proto=https', 'FOR=192.0.2.1;PROTO=https', 'for=127.0.0.1',
                  'by=203.0.113.43', 'for=192.0.2.1;host="a.example.org"', 'proto=https;proto=http'],
    'X-Forwarded-For': ['203.0.113.7', '203.0.113.7, 10.0.0.1', 'a ,  b', '127.0.0.1', '', '203.0.113.7,127.0.0.1',
                        '2001:db8::1', 'unknown', '203.0.113.7,,10.0.0.1'],
    'X-Forwarded-Proto': ['https', 'HTTPS', 'http', '', 'wss', 'Https'],
    'X-Forwarded-Host': ['fwd.example.org', 'fwd.example.org:8443', '', 'FWD.example.org'],
    'X-Real-IP': ['198.51.100.9', '', '127.0.0.1', '2001:db8::2'],
    'Range': ['bytes=0-499', 'bytes=-500', 'bytes=9500-', 'bytes=5-2', 'bytes=0-0,-1', 'items=1-2', 'bytes',
              'bytes=', 'bytes=a-b', '', 'bytes=-', 'bytes=0-0', 'bytes=--1', 'bytes=1-x', 'BYTES=1-2', '=1-2',
              'bytes=-0', 'bytes= 1-2', 'bytes=1-2-3', 'bytes=0-499=1'],
    'If-Match': ['"abc"', 'W/"abc", "def"', '*', '', 'garbage', '"a", W/"b"', 'w/"abc"', '"a,b"', '"abc', 'W/""'],
    'If-None-Match': ['"abc"', 'W/"abc", "def"', '*', '', 'garbage', '"a", W/"b"', ' * ', '"\xe9"'],
    'If-Range': ['"abc"', 'Sun, 06 Nov 1994 08:49:37 GMT', '', 'W/"x"'],
    'Date': DATES,
    'If-Modified-Since': DATES,
    'If-Unmodified-Since': DATES,
    'User-Agent': ['curl/8.0', 'Mozilla/5.0 (X11; Linux x86_64)', '', 'caf\xe9/1.0'],
    'Authorization': ['Basic dXNlcjpwYXNz', 'Bearer abc.def.ghi', '', 'basic'],
    'Referer': ['https://example.org/a?b=c', '', 'about:blank'],
    'Expect': ['100-continue', '', 'nonsense'],
    'X-Num': ['42', 'abc', '-1', '', '4.5', '0042', '1e3'],
    'X-Date': DATES,
    'X-Custom': ['v', 'a, b', 'caf\xe9', '', 'x' * 200, 'a=b; c="d, e"', '"'],
    'Cache-Control': ['no-cache', 'max-age=0, no-store'],
    'From': ['user@example.org'],
    'Max-Forwards': ['10'],
    'Content-Length': ['0', '', 'abc', '-1', '+0', '1.0', ' ', '0x0', '00'],
    'Origin': ['https://app.example.org'],
    'Accept-Encoding': ['gzip, deflate', 'identity;q=0'],
    'Accept-Language': ['en-US,en;q=0.5'],
    'Connection': ['keep-alive', 'close'],
}
LIST_HEADERS = ['Accept', 'Forwarded', 'X-Forwarded-For', 'If-Match', 'If-None-Match', 'X-Custom', 'Cache-Control',
                'Accept-Encoding', 'Accept-Language', 'X-Forwarded-Proto', 'Range', 'Authorization']
SINGLETON_PAIRS = {
    'content-type': ('text/plain', 'application/json'), 'cookie': ('a=1', 'b=2'), 'expect': ('100-continue', 'x'),
    'from': ('a@example.org', 'b@example.org'), 'host': ('a.example.org', 'b.example.org:81'), 'max-forwards': ('1', '2'),
    'referer': ('http://a/', 'http://b/'), 'user-agent': ('ua/1', 'ua/2'), 'content-length': ('0', '0'),
}
FWD_FAMILY = ['Forwarded', 'X-Forwarded-For', 'X-Forwarded-Proto', 'X-Forwarded-Host', 'X-Real-IP']

SERVERS = [['falconframework.org', 80], ['falconframework.org', 443], ['falconframework.org', 8080], ['10.0.0.5', 8000],
           ['localhost', 80], ['api.example.org', 443], ['::1', 8443], ['falconframework.org', 65535],
           ['single', 81]]
CLIENTS = [['127.0.0.1', 51234], ['203.0.113.7', 40000], ['10.0.0.1', 1], ['2001:db8::9', 55555], None,
           ['198.51.100.9', 1025]]
ROOTS = ['', '', '/api', '/a/b', '/v1', '/api/']
METHODS = ['GET', 'POST', 'PUT', 'DELETE', 'HEAD', 'OPTIONS', 'PATCH', 'FOO', 'CONNECT', 'TRACE', 'WEBSOCKET', 'CHECKIN']

JSON_BODIES = ['{"a": 1}', '[1, 2, 3]', '{"k": "caf\xc3\xa9", "n": null, "l": [true, 1.5, "x"]}', '"s"', '0', 'null',
               '{', '{"a": 1} trailing', '\xff\xfe', '{"a": NaN}', ' {"a":\n1}\n', '{"a": "\\ud83d\\ude00"}', '[' * 50 + ']' * 50]
FORM_BODIES = ['a=1&b=2', 'a=1&a=2', 'a=x+y&b=%C3%A9', 'a', '', 'a=%FF', 'a=1,2', '=&=']
MULTIPART_BODIES = [
    '--BOUND\r\nContent-Disposition: form-data; name="f1"\r\n\r\nhello\r\n--BOUND\r\n'
    'Content-Disposition: form-data; name="file"; filename="a.txt"\r\nContent-Type: text/plain\r\n\r\nDATA\x00\xff\r\n--BOUND--\r\n',
    '--BOUND\r\nContent-Disposition: form-data; name="j"\r\nContent-Type: application/json\r\n\r\n{"x": 1}\r\n--BOUND--\r\n',
    '--BOUND--\r\n',
    '--BOUND\r\nContent-Disposition: form-data; name="f1"\r\n\r\ntruncated',
    'not multipart at all',
]
PLAIN_BODIES = ['hello', 'line1\nline2\r\nline3', '\x00\x01\xfe\xff' * 8, 'x' * 5000, 'y' * 9000, '\n\n\n']


def body_for(ctype):
    c = ctype.lower()
    if 'json' in c:
        return JSON_BODIES
    if 'urlencoded' in c:
        return FORM_BODIES
    if 'multipart' in c:
        return MULTIPART_BODIES
    return PLAIN_BODIES


# ---------------------------------------------------------------------------------- script pools

READ_MODES = [{'mode': 'none'}, {'mode': 'read'}, {'mode': 'readn', 'n': 3}, {'mode': 'readn', 'n': 4096},
              {'mode': 'iter'}, {'mode': 'exhaust'}, {'mode': 'media'}, {'mode': 'media_default'},
              {'mode': 'media_twice'}, {'mode': 'partial', 'n': 2}, {'mode': 'read_then_media'},
              {'mode': 'media_then_read'}, {'mode': 'multipart'}]
PROPAGATE = [None, 'media', 'range', 'content_length', 'missing_header', 'missing_param', 'date', 'param_int',
             'header_int', 'if_modified_since']
STATUSES = [None, 200, 201, 202, 204, 206, 299, 301, 304, 400, 404, 418, 500, 503, 799, 100, 101,
            '200 OK', '404 Not Found', '299 Custom Reason', '204 No Content', ['HTTPStatus', 418], ['HTTPStatus', 204],
            ['HTTPStatus', 200], '201']
BODIES = [['none'], ['text', 'hello'], ['text', 'café € \U0001f600'], ['text', ''], ['data', 'bytes\x00\xff'],
          ['data', ''], ['media', {'a': 1, 'b': [1, 2, {'c': None}]}], ['media', 'café'], ['media', []],
          ['media', None], ['text+data', 'T', 'D'], ['data+media', 'D', {'m': 1}], ['text+media', 'T', {'m': 1}],
          ['stream', 'gen', ['ab', 'cd', ''], None], ['stream', 'iter', ['x' * 10, 'y'], None], ['stream', 'file', ['f' * 20000], None],
          ['stream', 'set_stream', ['0123456789'], 10], ['stream', 'list', ['p', 'q'], None], ['stream', 'gen', [], None],
          ['stream', 'file', [''], None], ['stream+text', 'gen', ['s'], 'T'], ['stream', 'file_noclose', ['zz' * 10], None],
          ['stream', 'set_stream', ['01234'], 3], ['stream', 'gen', ['ab', '', 'cd'], None], ['stream', 'iter', ['', 'x', '', 'y'], None],
          ['stream', 'file_short', ['ab', 'cd', 'e' * 9000, 'f'], None], ['stream', 'file_short', ['x'], None],
          ['stream', 'file_short', ['p' * 8192, 'q', 'r' * 8192], None], ['stream', 'set_stream_short', ['01234', '56789'], 10]]
CONTENT_TYPES = [None, 'text/plain', 'application/json', 'text/html; charset=utf-8', 'application/x-nope',
                 'application/msgpack', '', 'application/x-www-form-urlencoded']
HDR_OPS = [
    [['set', 'X-A', '1']], [['set', 'x-a', '1'], ['set', 'X-A', '2']], [['append', 'X-A', '1'], ['append', 'x-a', '2']],
    [['set', 'X-A', '1'], ['delete', 'x-a']], [['set', 'X-L1', 'caf\xe9']], [['set_headers', [['X-B', 'b'], ['X-C', 'c']]]],
    [['set_headers_dict', [['X-B', 'b'], ['Content-Type', 'text/x-custom']]]], [['append', 'Set-Cookie', 'raw=1; Path=/']],
    [['append', 'set-cookie', 'r1=1'], ['append', 'Set-Cookie', 'r2=2']], [['set', 'Content-Length', '3']],
    [['set', 'Vary', 'Accept'], ['append', 'Vary', 'Cookie']], [['delete', 'Content-Type']], [['set', 'Content-Type', 'text/x-q']],
    [['set', 'X-Empty', '']], [['append', 'Link', '<a>; rel=x']], [['delete', 'X-Never-Set']],
    [['set', 'Cache-Control', 'no-store'], ['append', 'Cache-Control', 'private']],
]
DT1 = ['dt', 1994, 11, 6, 8, 49, 37]
DT2 = ['dt', 2030, 1, 2, 3, 4, 5]
PROPS = [
    [['location', '/new/place']], [['location', 'https://example.org/café?x=1&y=2']], [['vary', ['Accept', 'Cookie']]],
    [['vary', 'Accept']], [['etag', 'abc']], [['etag', 'W/"abc"']], [['etag', '"q"']], [['last_modified', DT1]],
    [['expires', DT2]], [['cache_control', ['no-cache', 'max-age=0']]], [['retry_after', 120]], [['retry_after', '30']],
    [['accept_ranges', 'bytes']], [['content_location', '/alt/café']], [['content_range', [0, 9, 100]]],
    [['content_range', [0, 9, 100, 'items']]], [['downloadable_as', 'report.pdf']], [['downloadable_as', 'café "q".txt']],
    [['viewable_as', 'img.png']], [['content_length', 5]], [['content_length', '7']], [['content_type', 'image/png']],
    [['location', '/x'], ['etag', 'e'], ['vary', 'A']], [['status_code', 202]], [['complete', True]],
]
LINKS = [[['/things/1', 'next', {}]], [['/things/café', 'prev', {'title': 'T', 'hreflang': ['en', 'fr']}]],
         [['/a', 'x y', {'title_star': ['en', 'café'], 'anchor': '/b', 'type_hint': 'text/html'}], ['/b', 'next', {}]],
         [['/c', 'preload', {'crossorigin': 'anonymous', 'link_extension': [['as', 'script']]}]]]
COOKIES = [
    [['set', 'sid', 'abc', {}]], [['set', 'sid', 'abc', {'max_age': 3600, 'path': '/p', 'domain': 'example.org'}]],
    [['set', 'a', '1', {'secure': False, 'http_only': False, 'same_site': 'Lax'}], ['set', 'b', 'x y', {}]],
    [['set', 'a', '1', {}], ['set', 'a', '2', {'path': '/'}]], [['set', 'a', '1', {}], ['unset', 'a', {}]],
    [['unset', 'gone', {'path': '/', 'domain': 'example.org', 'same_site': 'Strict'}]],
    [['set', 'e', 'v', {'expires': DT2, 'same_site': 'None', 'partitioned': True}]], [['set', 'z', '', {'max_age': 0}]],
    [['set', 'a', 'q"uote;', {}]], [['set', 'bad name', 'v', {}]],
]
ERR_KW = [{}, {'title': 'T', 'description': 'D'}, {'description': 'café <&> "q"', 'headers': {'X-Err': 'e'}},
          {'code': 77, 'href': 'http://docs.example/err', 'href_text': 'docs'}, {'headers': [['X-E1', '1'], ['X-E2', '2']]},
          {'title': '', 'description': ''}]
SIMPLE_ERRORS = ['HTTPBadRequest', 'HTTPForbidden', 'HTTPNotFound', 'HTTPRouteNotFound', 'HTTPNotAcceptable', 'HTTPConflict',
                 'HTTPGone', 'HTTPLengthRequired', 'HTTPPreconditionFailed', 'HTTPUriTooLong', 'HTTPUnsupportedMediaType',
                 'HTTPUnprocessableEntity', 'HTTPLocked', 'HTTPFailedDependency', 'HTTPPreconditionRequired',
                 'HTTPRequestHeaderFieldsTooLarge', 'HTTPUnavailableForLegalReasons', 'HTTPInternalServerError',
                 'HTTPNotImplemented', 'HTTPBadGateway', 'HTTPGatewayTimeout', 'HTTPVersionNotSupported',
                 'HTTPInsufficientStorage', 'HTTPLoopDetected', 'HTTPNetworkAuthenticationRequired']
RAISES = (
    [['error', n, {}] for n in SIMPLE_ERRORS] +
    [['error', 'HTTPBadRequest', kw] for kw in ERR_KW[1:]] +
    [['error', 'HTTPUnauthorized', {'challenges': ['Basic realm="x"', 'Bearer']}],
     ['error', 'HTTPMethodNotAllowed', {'allowed_methods': ['GET', 'PUT']}],
     ['error', 'HTTPServiceUnavailable', {'retry_after': 30}], ['error', 'HTTPServiceUnavailable', {'retry_after': DT2}],
     ['error', 'HTTPTooManyRequests', {'retry_after': 5}], ['error', 'HTTPContentTooLarge', {'retry_after': 1}],
     ['error', 'HTTPRangeNotSatisfiable', {'resource_length': 1234}],
     ['error', 'HTTPInvalidHeader', {'msg': 'bad', 'header_name': 'X-H'}], ['error', 'HTTPMissingHeader', {'header_name': 'X-H'}],
     ['error', 'HTTPInvalidParam', {'msg': 'bad', 'param_name': 'p'}], ['error', 'HTTPMissingParam', {'param_name': 'p'}],
     ['error', 'MediaNotFoundError', {'media_type': 'JSON'}], ['error', 'MediaMalformedError', {'media_type': 'JSON'}],
     ['error', 'HTTPError', {'status': 499, 'title': 'Odd'}], ['error', 'HTTPError', {'status': '418 Teapot'}],
     ['status', 204, None, None], ['status', '201 Created', {'X-S': 's'}, 'made'], ['status', 404, [['X-S', 's']], 'café'],
     ['status', 304, {'ETag': '"e"'}, None], ['status', ['HTTPStatus', 202], None, 'ok'], ['status', 200, None, ''],
     ['redirect', 'HTTPMovedPermanently', '/moved'], ['redirect', 'HTTPFound', 'https://example.org/f?x=1'],
     ['redirect', 'HTTPSeeOther', '/see/café'], ['redirect', 'HTTPTemporaryRedirect', '/tmp'],
     ['redirect', 'HTTPPermanentRedirect', '/perm'], ['redirect+headers', 'HTTPFound', '/f', {'X-R': 'r'}],
     ['exc', 'ValueError'], ['exc', 'KeyError'], ['exc', 'ZeroDivisionError'], ['custom', 'boom'], ['custom_child', 'x']])


STATIC_TARGETS = ['/static/a.txt', '/static/b.json', '/static/sub/c.bin', '/static/missing', '/static/', '/static', '/static/index.html',
                  '/static/empty.txt', '/static/%2E%2E/a.txt', '/static/sub/', '/staticx', '/sink/static/a.txt', '/sink/static/missing',
                  '/sink/static', '/sink/static/', '/sink/staticx', '/sink/static/sub/c.bin', '/dl/a.txt', '/dl/missing', '/dl/sub/c.bin',
                  '/dl/', '/static/a.txt/', '/static/A.TXT']


def multipart_body(parts, boundary='BOUND'):
    """[(header lines, data)] -> multipart/form-data body (latin-1 str)."""
    out = []
    for headers, data in parts:
        out.append('--' + boundary + '\r\n' + ''.join(h + '\r\n' for h in headers) + '\r\n' + data + '\r\n')
    out.append('--' + boundary + '--\r\n')
    return ''.join(out)


def multipart_limit_bodies():
    """Sizes around the documented MultipartParseOptions defaults: max_body_part_buffer_size 1 MiB,
    max_body_part_count 64, max_body_part_headers_size 8192 - one below, exactly at, one above."""
    mib = 1024 * 1024
    for n in (mib - 1, mib, mib + 1):
        yield 'file-%d' % n, multipart_body([(['Content-Disposition: form-data; name="f"; filename="big.bin"',
                                               'Content-Type: application/octet-stream'], 'x' * n)])
        yield 'text-%d' % n, multipart_body([(['Content-Disposition: form-data; name="t"'], 'y' * n),
                                             (['Content-Disposition: form-data; name="after"'], 'z')])
    for n in (63, 64, 65):
        yield 'count-%d' % n, multipart_body([(['Content-Disposition: form-data; name="p%d"' % i], str(i)) for i in range(n)])
    base = len('Content-Disposition: form-data; name="h"; filename=""\r\n')
    for total in range(8180, 8200):
        pad = total - base
        yield 'headers-%d' % total, multipart_body([(['Content-Disposition: form-data; name="h"; filename="%s"' % ('n' * pad)], 'd')])


OPS = [['set_status', 202], ['set_status', '299 Custom'], ['set_status', ['HTTPStatus', 404]], ['set_header', 'X-Pre', 'p'],
       ['set_media', {'pre': [1]}], ['set_text', 'pre'], ['set_data', 'pre'], ['render_body'], ['mutate_media'],
       ['set_content_type', 'text/x-pre']]
SITES = [[0, 'request'], [1, 'request'], [3, 'request'], [0, 'resource'], [3, 'resource'], 'responder', [2, 'response'], [1, 'response'],
         [0, 'response']]
RENDER_SITES = ['responder', [2, 'response'], [1, 'response']]      # in execution order (response hooks run last-registered first)
HEADER_FORMS = ['iter', 'gen', 'zip', 'map', 'tuple', 'mappingproxy', 'mapping']


def default_script():
    return {'read': {'mode': 'none'}, 'propagate': None, 'status': None, 'body': ['none'], 'content_type': None,
            'hdr_ops': [], 'props': [], 'links': [], 'cookies': [], 'raise': None, 'raise_at': 'early',
            'short_circuit': False, 'mw_fault': None, 'ops': [], 'file_wrapper': False}


def script(**kw):
    s = default_script()
    for k, v in kw.items():
        if k not in s:
            raise KeyError(k)
        s[k] = v
    return s


# ---------------------------------------------------------------------------------- helpers

def with_sim(req, default_ua, style=None):
    """Make the request expressible through simulate_request where that only needs defaults filled in."""
    if not has_header(req, 'user-agent'):
        req['headers'].append(['User-Agent', default_ua])
    if req['http_version'] != '1.0' and not has_header(req, 'host'):
        req['headers'].append(['Host', sim_host_value(req)])
    req['sim'] = dict(style or {})
    return req


def mk(default_ua, sim=True, script_=None, **kw):
    req = new_request(**kw)
    req['script'] = script_ or default_script()
    finalize(req)
    if sim:
        with_sim(req, default_ua)
    return req


OPTS = [[s, k, c] for s in (False, True) for k in (False, True) for c in (False, True)]


# ---------------------------------------------------------------------------------- exhaustive families

def families(tier, ua):
    """Yield (family, request).  Sizes are fixed by the pools, so the phase always completes."""
    thorough = tier == 'thorough'
    # E1 paths x strip x method
    for p in PATHS:
        for strip in (False, True):
            for m in (['GET', 'POST', 'HEAD', 'PATCH', 'OPTIONS'] if thorough else ['GET', 'POST', 'PATCH']):
                yield 'E1.path', mk(ua, method=m, target=p, opts=[strip, True, False])
    for p in RAW8_PATHS:
        for strip in (False, True):
            yield 'E1.raw8path', mk(ua, sim=False, target=p, opts=[strip, True, False])
    for m in METHODS:
        for p in ('/', '/items', '/nope', '/sink/x'):
            yield 'E1.method', mk(ua, method=m, target=p)
    # E1b static routes (one under the sink's prefix, one apart, one downloadable with a fallback file) - apps are built
    #     with the constructors' default arguments
    for t in STATIC_TARGETS:
        for m in ('GET', 'HEAD', 'POST', 'OPTIONS'):
            for hs in ([], [['Range', 'bytes=0-3']], [['Range', 'bytes=-5']], [['Range', 'bytes=100000-']], [['If-None-Match', '*']],
                       [['If-Modified-Since', 'Wed, 21 Oct 2015 07:28:00 GMT']]):
                if hs and (m != 'GET' and not thorough):
                    continue
                yield 'E1.static', mk(ua, method=m, target=t, headers=hs)
    # E1c hooked resources whose subclass delegates with super().on_*() positionally / by keyword / mixed
    for t in ('/hooked/21', '/hooked/abc', '/hooked/deny', '/hooked/21/x', '/hooked/007/9', '/hooked/%C3%A9', '/hookedc/7',
              '/hookedc/deny', '/hooked/', '/hooked/21/x/y'):
        for m in ('GET', 'POST', 'PUT', 'DELETE', 'HEAD', 'OPTIONS'):
            for sc in ((script(), script(**{'raise': ['error', 'HTTPConflict', {}], 'raise_at': 'late'})) if m in ('GET', 'PUT') else (script(),)):
                yield 'E1.hooked', mk(ua, method=m, target=t, script_=sc)
    # E2 queries x keep_blank x csv
    for q in QUERIES:
        for keep in (False, True):
            for csv in (False, True):
                yield 'E2.query', mk(ua, target='/items', query=q, opts=[False, keep, csv])
    for q in RAW8_QUERIES:
        for keep in (False, True):
            yield 'E2.raw8query', mk(ua, sim=False, target='/items', query=q, opts=[False, keep, False])
    if thorough:
        for p in PATHS[::3]:
            for q in QUERIES[::3]:
                yield 'E2.path-x-query', mk(ua, target=p, query=q, root_path='/api')
    # E3 every single header value, in two casings, on http and https
    for name, vals in HEADER_POOL.items():
        for v in vals:
            for casing in (name, name.lower(), name.upper()):
                if casing == name.upper() and not thorough:
                    continue
                if name == 'Content-Length':
                    req = mk(ua, sim=False, method='POST', target='/items', headers=[[casing, v]],
                             script_=script(read={'mode': 'read'}))
                    yield 'E3.invalid-cl', req
                    continue
                scheme_matters = name in ('Host', 'Forwarded', 'X-Forwarded-Proto', 'X-Forwarded-Host', 'X-Forwarded-For', 'X-Real-IP')
                for scheme in (('http', 'https') if thorough or scheme_matters else ('http',)):
                    server = ['falconframework.org', 80 if scheme == 'http' else 443]
                    yield 'E3.header', mk(ua, target='/items', headers=[[casing, v]], scheme=scheme, server=server)
    # E3b list-valued headers repeated (joined by both stacks), singleton repeats (not compared)
    for name in LIST_HEADERS:
        vals = HEADER_POOL[name]
        for v1, v2 in itertools.islice(itertools.product(vals, repeat=2), 0, None, 3 if thorough else 7):
            yield 'E3.list-repeat', mk(ua, target='/items', headers=[[name, v1], [name.lower(), v2]])
    for name, (v1, v2) in sorted(SINGLETON_PAIRS.items()):
        yield 'E3.singleton-repeat', mk(ua, sim=False, target='/items', headers=[[name, v1], [name.title(), v2]])
    # E3c forwarding family subsets x scheme x server port x host header form
    fvals = {'Forwarded': 'for=192.0.2.60;proto=https;host=fwd.example.org', 'X-Forwarded-For': '203.0.113.7, 10.0.0.1',
             'X-Forwarded-Proto': 'HTTPS', 'X-Forwarded-Host': 'xfh.example.org:8443', 'X-Real-IP': '198.51.100.9'}
    for mask in range(32):
        hs = [[n, fvals[n]] for i, n in enumerate(FWD_FAMILY) if mask >> i & 1]
        for scheme in ('http', 'https'):
            for port in ((80, 443, 8080) if thorough else ((80, 8080) if scheme == 'http' else (443, 8080))):
                for hostmode in ('derived', 'custom', 'none'):
                    kw = dict(target='/items', query='a=1', scheme=scheme, server=['falconframework.org', port],
                              root_path='/api' if mask & 1 else '')
                    if hostmode == 'custom':
                        yield 'E3.fwd', mk(ua, headers=hs + [['Host', 'sub.example.com:8443']], **kw)
                    elif hostmode == 'none':
                        yield 'E3.fwd', mk(ua, headers=hs, http_version='1.0', **kw)
                    else:
                        yield 'E3.fwd', mk(ua, headers=hs, **kw)
    # E3c' every kind of Forwarded value (valid / partial / element-less) x every subset of the X-Forwarded-* / X-Real-IP
    #      fallbacks x scheme: which header wins must not depend on the stack
    fkinds = ['for=192.0.2.60;proto=https;host=fwd.example.org', 'for=192.0.2.60', 'proto=http', 'host=only.example.org', '', ',',
              'unknown', 'garbage;;', 'for=_a, for=_b;proto=https', ';', 'for=']
    others = {'X-Forwarded-For': '203.0.113.7', 'X-Forwarded-Proto': 'wss', 'X-Forwarded-Host': 'xfh.example.org', 'X-Real-IP': '198.51.100.9'}
    onames = list(others)
    for fk in fkinds:
        for mask in range(16):
            hs = [['Forwarded', fk]] + [[n, others[n]] for i, n in enumerate(onames) if mask >> i & 1]
            for scheme in (('http', 'https') if thorough or mask in (0, 2, 15) else ('http',)):
                yield 'E3.fwd-kinds', mk(ua, target='/items', headers=hs, scheme=scheme,
                                         server=['falconframework.org', 80 if scheme == 'http' else 443])
    # E3d Host header forms x scheme (user-supplied Host through the simulators: DESIGN 'already observed')
    for hv in HOST_VALUES:
        for scheme in ('http', 'https'):
            for server in (['falconframework.org', 80], ['falconframework.org', 8443]):
                yield 'E3.host', mk(ua, target='/items', headers=[['Host', hv]], scheme=scheme, server=server)
    # E3e connection facts
    for server in SERVERS:
        for scheme in ('http', 'https'):
            for client in CLIENTS:
                for hv in ('1.1', '1.0'):
                    yield 'E3.conn', mk(ua, target='/items', scheme=scheme, server=server, client=client,
                                        http_version=hv, root_path=ROOTS[(server[1] + len(server[0])) % len(ROOTS)])
    # E4 bodies x content types x read modes
    n_e4 = 0
    for ct in HEADER_POOL['Content-Type']:
        bodies = body_for(ct)
        for body in (bodies if thorough else bodies[:5]):
            for rm in READ_MODES:
                if rm['mode'] == 'multipart' and 'multipart' not in ct:
                    continue
                n_e4 += 1
                for chunks in ((None, [1], [5, 0, 7]) if thorough else ((None,) if n_e4 % 2 else ([3, 0, 4],))):
                    yield 'E4.body', mk(ua, method='POST', target='/items', headers=[['Content-Type', ct]], body=body,
                                        chunks=chunks if body else None, script_=script(read=rm))
    for label, body in multipart_limit_bodies():
        for chunks in ((None, [4096]) if label.startswith(('file', 'text')) else (None,)):
            yield 'E4.multipart-limits', mk(ua, method='POST', target='/items', body=body, chunks=chunks,
                                            headers=[['Content-Type', 'multipart/form-data; boundary=BOUND']],
                                            script_=script(read={'mode': 'multipart'}))
    for rm in READ_MODES:
        for m in ('GET', 'POST', 'PUT', 'DELETE'):
            yield 'E4.nobody', mk(ua, method=m, target='/items', script_=script(read=rm))
            yield 'E4.cl0', mk(ua, method=m, target='/items', headers=[['Content-Length', '0']], script_=script(read=rm))
    for pr in PROPAGATE:
        for hs in ([], [['Range', 'bytes=5-2']], [['Content-Type', 'application/json']], [['Date', 'garbage']],
                   [['X-Num', 'abc']], [['If-Modified-Since', 'garbage']]):
            for q in ('', 'id=abc'):
                yield 'E4.propagate', mk(ua, method='POST', target='/items', query=q, headers=hs, body='{',
                                         script_=script(propagate=pr))
    # E5 response recipes
    for st in STATUSES:
        for body in BODIES:
            for m in (('GET', 'HEAD', 'POST') if thorough else (('GET', 'HEAD') if BODIES.index(body) % 2 == STATUSES.index(st) % 2 else ('GET',))):
                yield 'E5.status-body', mk(ua, method=m, target='/items', script_=script(status=st, body=body))
    for ct in CONTENT_TYPES:
        for body in BODIES[:13]:
            yield 'E5.ctype', mk(ua, target='/items', script_=script(content_type=ct, body=body))
    for r in RAISES:
        for acc in (None, 'application/json', 'application/xml', 'text/html'):
            for at in ('early', 'late'):
                hs = [['Accept', acc]] if acc is not None else []
                yield 'E5.raise', mk(ua, target='/items', headers=hs,
                                     script_=script(**{'raise': r, 'raise_at': at, 'body': ['text', 'partial'],
                                                       'hdr_ops': [['set', 'X-A', '1']]}))
    for ops in HDR_OPS:
        for body in (['none'], ['text', 'hi'], ['stream', 'gen', ['a', 'b'], None]):
            for m in ('GET', 'HEAD'):
                yield 'E5.hdr-ops', mk(ua, method=m, target='/items', script_=script(hdr_ops=ops, body=body))
    for pr in PROPS:
        for st in (None, 204, 301):
            yield 'E5.props', mk(ua, target='/items', script_=script(props=pr, status=st, body=['text', 'hello']))
    for ln in LINKS:
        yield 'E5.links', mk(ua, target='/items', script_=script(links=ln))
    for ck in COOKIES:
        for m in ('GET', 'OPTIONS', 'HEAD'):
            yield 'E5.cookies', mk(ua, method=m, target='/items', script_=script(cookies=ck))
    # three competing sources of Set-Cookie lines (raw appended lines, managed set_cookie, managed unset_cookie) for the same
    # and for different names, in every order of the calls: the ORDER of the lines decides which cookie survives
    raw = [['append', 'Set-Cookie', 'session=upstream123; Path=/']]
    raw2 = [['append', 'Set-Cookie', 'session=up1'], ['append', 'set-cookie', 'other=o; Path=/x'], ['append', 'Set-Cookie', 'session=up2']]
    for r in ([], raw, raw2):
        for ck in ([], [['unset', 'session', {}]], [['set', 'session', 'managed', {}]], [['set', 'session', 'm1', {}], ['unset', 'session', {}]],
                   [['set', 'zzz', 'z', {}], ['set', 'aaa', 'a', {}], ['unset', 'session', {'path': '/'}]], [['set', 'other', 'm', {}]]):
            for extra in ([], [['set', 'X-A', '1'], ['append', 'X-A', '2']]):
                for m in ('GET', 'HEAD'):
                    yield 'E5.cookie-sources', mk(ua, method=m, target='/items', script_=script(hdr_ops=r + extra, cookies=ck))
    for sc in (True,):
        for m in ('GET', 'POST', 'HEAD'):
            for p in ('/items', '/nope', '/sink/a'):
                yield 'E5.short-circuit', mk(ua, method=m, target=p, script_=script(short_circuit=sc, body=['text', 'unused']))
    for body in BODIES:
        if body[0].startswith('stream'):
            for fw in (False, True):
                yield 'E5.file-wrapper', mk(ua, target='/items', script_=script(body=body, file_wrapper=fw))
    # E7 middleware stacks: both pairing modes x short-circuit position/stage x scripted faults in every hook
    sc_list = [False, 0, 1, 3, [0, 'resource'], [3, 'resource']]
    faults = [None] + [[i, st, k] for i, st in ((0, 'request'), (1, 'request'), (3, 'request'), (0, 'resource'), (3, 'resource'),
                                                (0, 'response'), (1, 'response'), (2, 'response'))
                       for k in ('http', 'exc', 'custom')]
    for mwm in ('independent', 'dependent'):
        for sc in sc_list:
            for f in faults:
                if sc is not False and f is not None and f[1] != 'response' and not thorough:
                    continue
                for m, p in ((('GET', '/items'), ('HEAD', '/nope'), ('POST', '/sink/a')) if thorough or f is None
                             else (('GET', '/items'),)):
                    yield 'E7.middleware', mk(ua, method=m, target=p, mw=mwm,
                                              script_=script(short_circuit=sc, mw_fault=f, body=['text', 'from responder']))
    # E8 application logic spread over middleware hooks and the responder: pre-set status/headers/body before the
    #    responder (also the framework's own OPTIONS / 405 / 404 responders), early public render_body(), later changes
    for op in OPS:
        for site in SITES:
            for m, p in ((('GET', '/items'), ('OPTIONS', '/items'), ('PATCH', '/items'), ('HEAD', '/items/7'), ('GET', '/nope'),
                          ('OPTIONS', '/sink/x')) if thorough else (('GET', '/items'), ('OPTIONS', '/items'), ('PATCH', '/items'), ('GET', '/nope'))):
                yield 'E8.ops-single', mk(ua, method=m, target=p,
                                          script_=script(ops=[[site] + op], body=['media', {'a': 1, 'l': [1]}]))
    later = [['mutate_media'], ['set_content_type', 'application/json; charset=utf-8'], ['set_media', {'new': True}], ['set_text', 'late'],
             ['set_data', 'late'], ['render_body'], ['set_status', 202]]
    for i, first in enumerate(RENDER_SITES):
        for second in RENDER_SITES[i + 1:] + [[0, 'response']]:
            for op2 in later:
                for body in (['media', {'a': 1, 'l': [1]}], ['media', [1, 2]], ['text', 'T'], ['data', 'D'], ['none'],
                             ['data+media', 'D', {'m': 1}]):
                    for m in (('GET', 'HEAD') if thorough else ('GET',)):
                        yield 'E8.render-then-change', mk(ua, method=m, target='/items', script_=script(
                            ops=[[first, 'render_body'], [second] + op2], body=body))
    for mwm in ('independent', 'dependent'):
        for pre in ([[0, 'request'], 'set_status', 202], [[1, 'request'], 'set_media', {'pre': 1}], [[3, 'resource'], 'set_status', 404]):
            for sc in (False, 1, [0, 'resource']):
                for m in ('GET', 'OPTIONS', 'PATCH'):
                    yield 'E8.preset-x-mode', mk(ua, method=m, target='/items', mw=mwm, script_=script(ops=[pre], short_circuit=sc))
    # E6d the documented forms of the headers= argument (Mapping or iterable of pairs, one-shot iterables included),
    #     Mapping (not dict) for cookies= and params=
    for form in HEADER_FORMS:
        for hs in ([['Authorization', 'Basic dXNlcjpwYXNz'], ['Accept', 'application/xml'], ['X-Custom', 'v']],
                   [['Host', 'sub.example.com:8443'], ['User-Agent', 'curl/8.0']], [['X-Custom', 'a'], ['x-custom', 'b']], []):
            for stl in ({}, {'content_type_param': True}, {'explicit_host': True}):
                for m, body in (('GET', ''), ('POST', '{"a": 1}')):
                    req = new_request(method=m, target='/items', headers=[list(h) for h in hs] + ([['Content-Type', 'application/json']] if body else []),
                                      body=body)
                    req['script'] = default_script()
                    finalize(req)
                    yield 'E6.sim-header-forms', with_sim(req, ua, dict(stl, headers_form=form))
    for ma in ('mappingproxy', 'mapping'):
        for q in ('a=1&b=2', 'a=1,2', ''):
            req = new_request(target='/items', query=q, headers=[['Cookie', 'a=1; b=2']])
            req['script'] = default_script()
            finalize(req)
            yield 'E6.sim-header-forms', with_sim(req, ua, {'mapping_args': ma, 'cookies_param': True, 'params_dict': True})
    # E6 simulator argument styles
    styles = [{'explicit_host': True}, {'explicit_port': True}, {'explicit_remote': True}, {'empty_root_arg': True},
              {'empty_query_arg': True}, {'empty_body_arg': True}, {'content_type_param': True}, {'cookies_param': True},
              {'headers_as_dict': True}, {'explicit_cl': True}, {'content_type_conflict': True}, {'json_param': True}]
    for q in QUERIES:
        for stl in (({'inline_query': True}, {'inline_query': True, 'params_empty': True}, {'inline_query': True, 'inline_empty': True},
                     {'params_dict': True}, {'params_empty': True}) if thorough or '?' in q or not q else
                    ({'inline_query': True, 'params_empty': True}, {'params_dict': True})):
            if stl.get('params_dict') and not q.replace('&', '').replace('=', '').replace(',', '').isalnum():
                continue
            for tgt in (('/items', '/items/a%3Fb') if '?' in q or not q else ('/items',)):
                req = new_request(target=tgt, query=q)
                req['script'] = default_script()
                finalize(req)
                yield 'E6.sim-query-style', with_sim(req, ua, stl)
    # E6b optional whitespace around field values / None values handed to the simulators (they document stripping)
    ows_styles = [{'ows': [' ', ' ']}, {'ows': ['\t', '']}, {'ows': ['', ' \t ']}, {'ows': ['  ', ''], 'headers_as_dict': True},
                  {'none_for_empty': True}, {'none_for_empty': True, 'ows': [' ', '\t'], 'headers_as_dict': True}]
    for name, vals in HEADER_POOL.items():
        if name == 'Content-Length':
            continue
        picked = [v for v in vals if v][:2] + ['']
        for v in picked:
            for stl in ows_styles:
                if v and 'ows' not in stl:
                    continue
                req = new_request(method='POST' if name == 'Content-Type' else 'GET', target='/items',
                                  headers=[[name, v], ['X-Tags', 'a, b'], ['X-Blank', '']])
                req['script'] = default_script()
                finalize(req)
                yield 'E6.sim-ows', with_sim(req, ua, stl)
    # E6c documented alternative argument forms (string port, version aliases, str body, root path without slash)
    for scheme in ('http', 'https'):
        for port in (80, 443, 8080):
            for hv in ('1.1', '1.0', '2'):
                for stl in ({'port_str': True}, {'port_str': True, 'http_version_alias': True, 'root_no_slash': True, 'body_str': True}):
                    req = new_request(method='POST', target='/items', scheme=scheme, server=['falconframework.org', port],
                                      http_version=hv, root_path='/api', body='{"k": "caf\xc3\xa9"}',
                                      headers=[['Content-Type', 'application/json']])
                    req['script'] = script(read={'mode': 'media_default'})
                    finalize(req)
                    yield 'E6.sim-arg-forms', with_sim(req, ua, stl)
    for stl in styles:
        for m in ('GET', 'POST', 'OPTIONS'):
            for body in ('', '{"a": 1}'):
                req = new_request(method=m, target='/items', headers=[['Content-Type', 'application/json'], ['Cookie', 'a=1; b=2']],
                                  body=body)
                req['script'] = script(read={'mode': 'media_default'})
                finalize(req)
                yield 'E6.sim-style', with_sim(req, ua, stl)


# ---------------------------------------------------------------------------------- random

def pct(rng, s):
    out = []
    for ch in s.encode('utf-8'):
        c = chr(ch)
        if ch < 128 and c.isalnum() and rng.random() < 0.85:
            out.append(c)
        else:
            out.append('%%%02X' % ch if rng.random() < 0.8 else '%%%02x' % ch)
    return ''.join(out)


def rand_target(rng):
    r = rng.random()
    if r < 0.2:
        return rng.choice(PATHS)
    if r < 0.45:
        t = rng.choice(['/', '/items', '/items', '/items/' + rng.choice(SEGMENTS), '/u/' + rng.choice(SEGMENTS) + '/posts/' +
                        rng.choice(['7', '42', '007', '%37']), '/files/a/' + rng.choice(SEGMENTS), '/sink/' + rng.choice(SEGMENTS)])
    elif r < 0.6:
        base = rng.choice(['/items/', '/u/', '/files/', '/sink/', '/'])
        segs = [rng.choice(SEGMENTS) for _ in range(rng.randint(0, 3))]
        if base == '/u/':
            segs = [rng.choice(SEGMENTS), 'posts', rng.choice(['7', '42', '-1', 'x', '%37', '007', rng.choice(SEGMENTS)])]
        t = base + '/'.join(segs)
    elif r < 0.7:
        t = '/items/' + pct(rng, rng.choice(['café', '€ uro', 'a b/c', '\U0001f600', 'x?y', 'tab\t', '100%']))
    else:
        t = '/' + '/'.join(rng.choice(SEGMENTS) for _ in range(rng.randint(1, 4)))
    if rng.random() < 0.25:
        t += '/'
    return t.replace('?', '%3F')


def rand_query(rng):
    r = rng.random()
    if r < 0.35:
        return ''
    if r < 0.6:
        return rng.choice(QUERIES)
    parts = []
    for _ in range(rng.randint(1, 5)):
        k = rng.choice(['a', 'b', 'id', 'flag', 'q', 'A', '', 'a%20b', '%C3%A9'])
        v = rng.choice(['1', '', 'x%20y', 'x+y', '%C3%A9', '%FF', '1,2', ',', 'true', 'false', '42', '-3', 'null', '%', '%zz',
                        'a=b', '/o?p=2', '?', 'x?', pct(rng, rng.choice(['café', 'a&b=c', ' ', ',']))])
        parts.append(rng.choice([k + '=' + v, k + '=' + v, k, k + '=']))
    return rng.choice(['&', '&', '&', '&&', ';']).join(parts)


def casing(rng, name):
    r = rng.random()
    if r < 0.4:
        return name
    if r < 0.6:
        return name.lower()
    if r < 0.75:
        return name.upper()
    return ''.join(c.upper() if rng.random() < 0.5 else c.lower() for c in name)


def rand_headers(rng, allow_singleton_repeat):
    hs = []
    names = list(HEADER_POOL)
    for _ in range(rng.choice([0, 1, 1, 2, 3, 4, 6, 9])):
        n = rng.choice(names)
        if n in ('Content-Length', 'Content-Type'):
            continue
        if n.lower() in SINGLETONS and any(k.lower() == n.lower() for k, _ in hs):
            if not allow_singleton_repeat:
                continue
        elif n not in LIST_HEADERS and any(k.lower() == n.lower() for k, _ in hs):
            # repeats of non-list headers: both stacks comma-join them; keep them rarer
            if rng.random() < 0.7:
                continue
        hs.append([casing(rng, n), rng.choice(HEADER_POOL[n])])
    return hs


def rand_script(rng):
    s = default_script()
    s['read'] = dict(rng.choice(READ_MODES))
    if s['read']['mode'] in ('readn', 'partial'):
        s['read']['n'] = rng.choice([1, 2, 3, 7, 64, 4096, 10000])
    if rng.random() < 0.15:
        s['propagate'] = rng.choice(PROPAGATE)
    if rng.random() < 0.5:
        s['status'] = rng.choice(STATUSES)
    if rng.random() < 0.7:
        s['body'] = rng.choice(BODIES)
    if rng.random() < 0.3:
        s['content_type'] = rng.choice(CONTENT_TYPES)
    if rng.random() < 0.35:
        s['hdr_ops'] = [op for ops in rng.sample(HDR_OPS, rng.randint(1, 3)) for op in ops]
    if rng.random() < 0.3:
        s['props'] = [p for ps in rng.sample(PROPS, rng.randint(1, 3)) for p in ps]
    if rng.random() < 0.15:
        s['links'] = rng.choice(LINKS)
    if rng.random() < 0.3:
        s['cookies'] = [c for cs in rng.sample(COOKIES, rng.randint(1, 2)) for c in cs]
    if rng.random() < 0.3:
        s['raise'] = rng.choice(RAISES)
        s['raise_at'] = rng.choice(['early', 'late'])
    if rng.random() < 0.06:
        s['short_circuit'] = rng.choice([True, 0, 1, 3, [0, 'resource'], [3, 'resource']])
    if rng.random() < 0.06:
        s['mw_fault'] = [rng.choice([0, 1, 2, 3]), rng.choice(['request', 'resource', 'response']), rng.choice(['http', 'exc', 'custom'])]
    if rng.random() < 0.12:
        s['ops'] = [[rng.choice(SITES)] + rng.choice(OPS) for _ in range(rng.randint(1, 3))]
    s['file_wrapper'] = rng.random() < 0.3
    return s


def rand_request(rng, ua):
    req = new_request()
    req['method'] = rng.choice(['GET'] * 4 + ['POST'] * 3 + ['PUT', 'DELETE', 'HEAD', 'HEAD', 'OPTIONS', 'PATCH'] + METHODS)
    req['target'] = rand_target(rng)
    req['query'] = rand_query(rng)
    want_sim = rng.random() < 0.7
    special = rng.random()
    if special < 0.04:
        req['target'] = rng.choice(RAW8_PATHS)
        want_sim = False
    elif special < 0.08:
        req['query'] = rng.choice(RAW8_QUERIES)
        want_sim = False
    singleton_rep = special > 0.96
    req['headers'] = rand_headers(rng, singleton_rep)
    req['opts'] = rng.choice(OPTS)
    req['mw'] = rng.choice(['independent', 'independent', 'dependent'])
    req['scheme'] = rng.choice(['http', 'http', 'https'])
    req['server'] = list(rng.choice(SERVERS))
    if rng.random() < 0.5:
        req['server'][1] = 443 if req['scheme'] == 'https' else 80
    req['client'] = rng.choice(CLIENTS)
    req['root_path'] = rng.choice(ROOTS)
    req['http_version'] = rng.choice(['1.1', '1.1', '1.1', '1.0', '2'])
    if req['method'] not in ('GET', 'HEAD', 'OPTIONS', 'DELETE') or rng.random() < 0.15:
        ct = rng.choice(HEADER_POOL['Content-Type'])
        if rng.random() < 0.9:
            req['headers'].insert(rng.randint(0, len(req['headers'])), [casing(rng, 'Content-Type'), ct])
        req['body'] = rng.choice(body_for(ct)) if rng.random() < 0.85 else ''
        if req['body'] and rng.random() < 0.6:
            req['chunks'] = [rng.choice([0, 1, 2, 5, 17, 4096]) for _ in range(rng.randint(1, 4))]
    elif rng.random() < 0.1:
        req['headers'].append([casing(rng, 'Content-Length'), rng.choice(HEADER_POOL['Content-Length'])])
        want_sim = want_sim and req['headers'][-1][1] == '0'
    req['script'] = rand_script(rng)
    finalize(req)
    if rng.random() < 0.5 and not has_header(req, 'host') and req['http_version'] != '1.0':
        req['headers'].insert(rng.randint(0, len(req['headers'])),
                              [casing(rng, 'Host'), rng.choice(HOST_VALUES + [sim_host_value(req)] * 6)])
    if want_sim:
        style = {}
        for k in ('explicit_host', 'explicit_port', 'explicit_remote', 'empty_root_arg', 'empty_query_arg', 'empty_body_arg',
                  'content_type_param', 'cookies_param', 'headers_as_dict', 'explicit_cl', 'content_type_conflict', 'json_param',
                  'inline_query', 'inline_query', 'inline_empty', 'params_empty', 'params_dict', 'port_str', 'http_version_alias',
                  'root_no_slash', 'body_str'):
            if rng.random() < 0.12:
                style[k] = True
        if rng.random() < 0.15:
            style['ows'] = [rng.choice(['', ' ', '\t', ' \t ']), rng.choice(['', ' ', '\t', '  '])]
        if rng.random() < 0.1:
            style['none_for_empty'] = True
        if rng.random() < 0.15:
            style['headers_form'] = rng.choice(HEADER_FORMS)
        if rng.random() < 0.05:
            style['mapping_args'] = rng.choice(['mappingproxy', 'mapping'])
        with_sim(req, ua, style)
    return req


# ---------------------------------------------------------------------------------- client histories

H_DEFAULTS = [None, {}, {'Authorization': 'Bearer t0', 'X-Trace': 'd'}, {'Accept': 'application/xml'}, {'User-Agent': 'cli/1', 'X-Tenant': 't'}]
H_STEP_HEADERS = ['absent', None, {}, {'X-Req': '1'}, {'Authorization': 'Basic enp6'}, {'Accept': 'text/html', 'X-Extra': 'e'},
                  {'X-Trace': 'override'}]


def _step(h, **kw):
    st = dict(kw)
    if h != 'absent':
        st['headers'] = h
    return st


def histories(tier):
    """Several requests through ONE client object created with default headers: every ordered pair (quick) / triple
    (thorough) of per-request header arguments, for every kind of defaults."""
    n = 3 if tier == 'thorough' else 2
    for d in H_DEFAULTS:
        for combo in itertools.product(H_STEP_HEADERS, repeat=n):
            yield {'defaults': d, 'steps': [_step(h) for h in combo]}
    for form in HEADER_FORMS:
        for dform in (None, 'mappingproxy', 'mapping'):
            yield {'defaults': {'Authorization': 'Bearer t0', 'X-Trace': 'd'}, 'defaults_form': dform,
                   'steps': [_step({'X-Req': '1', 'X-Trace': 'override'}, headers_form=form), _step('absent'),
                             _step({'Accept': 'text/html'}, headers_form=form)]}
    # every client entry point with the argument styles of the one-shot simulator (their defaults must agree) ...
    styled = [_step('absent', query='id=1&id=2&id=3', sim={'params_dict': True}),
              _step('absent', query='id=1,2,3', sim={'params_dict': True}),
              _step('absent', query='id=1&id=2', sim={'params_dict': True, 'params_csv_explicit': True}),
              _step('absent', query='a=1&b=?x', sim={'inline_query': True}),
              _step('absent', method='POST', body='{"a": 1}', ctype='application/json', sim={'json_param': True}),
              _step('absent', method='POST', body='hello', ctype='text/plain', sim={'content_type_param': True}),
              _step({'X-Req': '1'}, method='POST', body='{"a": 1}', ctype='application/json', sim={'json_param': True}),
              _step('absent', method='POST', body='a=1', ctype='application/x-www-form-urlencoded'),
              _step('absent', method='PUT', body='caf\xc3\xa9', ctype='text/plain', sim={'body_str': True, 'port_str': True})]
    plain = [_step('absent'), _step('absent', method='POST'), _step(None), _step({'X-Later': 'l'})]
    for d in (None, {'X-Trace': 'd'}, {'Accept': 'application/xml', 'X-Tenant': 't'}):
        for st in styled:
            # ... and nothing of a request may survive into the next ones through the same client
            for after in plain:
                yield {'defaults': d, 'steps': [st, after, st]}
    for mwm in ('independent', 'dependent'):
        yield {'defaults': {'X-Trace': 'd'}, 'mw': mwm, 'opts': [True, False, True],
               'steps': [_step({'X-Req': '1'}, method='POST', target='/items/7', query='a=1,2', body='{"a": 1}',
                               script=script(read={'mode': 'media_default'})),
                         _step('absent', method='HEAD', target='/items/'), _step(None, method='GET', target='/nope')]}


def rand_history(rng):
    steps = []
    for _ in range(rng.randint(2, 4)):
        h = rng.choice(H_STEP_HEADERS)
        if isinstance(h, dict) and rng.random() < 0.3:
            h = dict(h)
            h[rng.choice(['X-A', 'Accept', 'Cookie', 'Range', 'If-Match'])] = rng.choice(['v', 'a=1', 'bytes=0-1', '"e"'])
        body = rng.choice(['', '', '{"a": 1}', 'hello'])
        extra = {'headers_form': rng.choice(HEADER_FORMS)} if isinstance(h, dict) and h and rng.random() < 0.3 else {}
        steps.append(_step(h, **extra, method=rng.choice(['GET', 'POST', 'PUT', 'HEAD', 'DELETE']) if not body else 'POST',
                           target=rng.choice(['/items', '/items/7', '/u/bob/posts/7', '/nope', '/sink/x', '/items/%C3%A9']),
                           query=rng.choice(['', 'a=1', 'a=1&b=2', 'id=7&flag=true']), body=body,
                           script=script(read={'mode': rng.choice(['none', 'read', 'media_default'])},
                                         status=rng.choice([None, 201, 404]), body=rng.choice(BODIES[:8]))))
    return {'defaults': rng.choice(H_DEFAULTS), 'steps': steps, 'opts': rng.choice(OPTS),
            'mw': rng.choice(['independent', 'dependent']), 'defaults_form': rng.choice([None, None, 'mappingproxy', 'mapping'])}
