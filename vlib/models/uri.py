"""Reference percent codec / query-string reader, written from RFC 3986 and the
property statements (C08, C10), not from falcon/util/uri.py."""

UNRESERVED = frozenset('ABCDEFGHIJKLMNOPQRSTUVWXYZabcdefghijklmnopqrstuvwxyz0123456789-._~')
RESERVED = frozenset(":/?#[]@!$&'()*+,;=")
HEX = frozenset(b'0123456789abcdefABCDEF')
HEXS = frozenset('0123456789abcdefABCDEF')


def ref_decode(s, plus=True):
    """Each well-formed %XX becomes a byte, malformed escapes stay literal, '+' becomes a
    space when requested, the bytes are read as UTF-8 with replacement."""
    b = s.encode('utf-8')
    if plus:
        b = b.replace(b'+', b' ')
    if 0x25 not in b:           # no '%': nothing to unescape (same result as the loop below)
        return b.decode('utf-8', 'replace')
    out = bytearray()
    i, n = 0, len(b)
    while i < n:
        if b[i] == 0x25 and n - i >= 3 and b[i + 1] in HEX and b[i + 2] in HEX:
            out.append(int(b[i + 1:i + 3], 16))
            i += 3
        else:
            out.append(b[i])
            i += 1
    return out.decode('utf-8', 'replace')


def ref_encode(s, value):
    allowed = UNRESERVED if value else (UNRESERVED | RESERVED)
    out = []
    for ch in s:
        if ch in allowed:
            out.append(ch)
        else:
            out.extend('%%%02X' % byte for byte in ch.encode('utf-8'))
    return ''.join(out)


def fully_escaped(s, value):
    """Every character is allowed or is a '%' that starts a %XX escape."""
    allowed = UNRESERVED if value else (UNRESERVED | RESERVED)
    i, n = 0, len(s)
    while i < n:
        ch = s[i]
        if ch == '%':
            if n - i >= 3 and s[i + 1] in HEXS and s[i + 2] in HEXS:
                i += 3
                continue
            return False
        if ch not in allowed:
            return False
        i += 1
    return True


def wellformed_output(s, value, upper_only):
    """Output alphabet check: allowed chars and %XX escapes only."""
    allowed = UNRESERVED if value else (UNRESERVED | RESERVED)
    i, n = 0, len(s)
    while i < n:
        ch = s[i]
        if ch == '%':
            if n - i < 3 or s[i + 1] not in HEXS or s[i + 2] not in HEXS:
                return False
            if upper_only and (s[i + 1:i + 3] != s[i + 1:i + 3].upper()):
                return False
            i += 3
            continue
        if ch not in allowed:
            return False
        i += 1
    return True


def ref_parse_qs(qs, keep_blank=False, csv=False):
    """form-urlencoded reading as stated in C08."""
    params = {}
    for field in qs.split('&'):
        if '=' in field:
            k, v = field.split('=', 1)
        else:
            k, v = field, ''
        if v == '':
            if not keep_blank or k == '':
                continue
        k = ref_decode(k, True)
        if csv and ',' in v:
            vals = [ref_decode(e, True) for e in v.split(',') if (e != '' or keep_blank)]
            if k in params:
                old = params[k]
                if isinstance(old, list):
                    old.extend(vals)
                else:
                    params[k] = [old] + vals
            else:
                params[k] = vals
        else:
            v = ref_decode(v, True)
            if k in params:
                old = params[k]
                if isinstance(old, list):
                    old.append(v)
                else:
                    params[k] = [old, v]
            else:
                params[k] = v
    return params


def ref_quote_string(s):
    return '"' + s.replace('\\', '\\\\').replace('"', '\\"') + '"'
