"""Reference models for C12 (media round trip, parsed at most once).

Written from RFC 8259 (JSON), the WHATWG application/x-www-form-urlencoded algorithm and the
documented contract of falcon.Request.get_media - not from falcon's code.

* ref_json_parse      iterative RFC 8259 reader (no recursion: depth 10^5 is fine)
* ref_json_dump       independent serializer with random-but-legal style (escapes, whitespace)
* ref_form_parse      WHATWG form reader (mapping: one value -> str, repeated -> list)
* ref_form_dump       independent form serializer with random-but-legal style
* same_doc            JSON-document equality (bool/null/str/containers strict, numbers by value)
* MediaModel          the "parsed at most once" state machine over call histories
"""

import math

WS = ' \t\n\r'
HEXD = '0123456789abcdefABCDEF'
DIG = '0123456789'
INT_DIGIT_LIMIT = 4300       # CPython's default int<->str limit: longer literals may be refused


class Bad(Exception):
    pass


class Info:
    __slots__ = ('depth', 'dupkeys', 'int_digits', 'nan_tokens', 'bom', 'lone_surrogate', 'nvalues')

    def __init__(self):
        self.depth = 0
        self.dupkeys = False
        self.int_digits = 0
        self.nan_tokens = False
        self.bom = False
        self.lone_surrogate = False
        self.nvalues = 0


def _scan_string(s, i, info):
    """s[i] == '"'. Returns (value, next index)."""
    n = len(s)
    i += 1
    out = []
    while True:
        if i >= n:
            raise Bad('unterminated string')
        c = s[i]
        if c == '"':
            return ''.join(out), i + 1
        if c == '\\':
            if i + 1 >= n:
                raise Bad('truncated escape')
            e = s[i + 1]
            if e == 'u':
                h = s[i + 2:i + 6]
                if len(h) != 4 or any(x not in HEXD for x in h):
                    raise Bad('bad \\u escape')
                cp = int(h, 16)
                i += 6
                if 0xD800 <= cp <= 0xDBFF and s[i:i + 2] == '\\u':
                    h2 = s[i + 2:i + 6]
                    if len(h2) == 4 and all(x in HEXD for x in h2):
                        lo = int(h2, 16)
                        if 0xDC00 <= lo <= 0xDFFF:
                            cp = 0x10000 + ((cp - 0xD800) << 10) + (lo - 0xDC00)
                            i += 6
                if 0xD800 <= cp <= 0xDFFF:
                    info.lone_surrogate = True
                out.append(chr(cp))
                continue
            m = {'"': '"', '\\': '\\', '/': '/', 'b': '\b', 'f': '\f', 'n': '\n', 'r': '\r', 't': '\t'}.get(e)
            if m is None:
                raise Bad('bad escape')
            out.append(m)
            i += 2
            continue
        if ord(c) < 0x20:
            raise Bad('control character in string')
        out.append(c)
        i += 1


def _scan_number(s, i, info):
    n = len(s)
    j = i
    if j < n and s[j] == '-':
        j += 1
    if j >= n:
        raise Bad('bad number')
    if s[j] == '0':
        j += 1
    elif s[j] in '123456789':
        while j < n and s[j] in DIG:
            j += 1
    else:
        raise Bad('bad number')
    is_float = False
    if j < n and s[j] == '.':
        k = j + 1
        while k < n and s[k] in DIG:
            k += 1
        if k == j + 1:
            raise Bad('bad fraction')
        j = k
        is_float = True
    if j < n and s[j] in 'eE':
        k = j + 1
        if k < n and s[k] in '+-':
            k += 1
        k0 = k
        while k < n and s[k] in DIG:
            k += 1
        if k == k0:
            raise Bad('bad exponent')
        j = k
        is_float = True
    text = s[i:j]
    if is_float:
        return float(text), j
    nd = len(text) - (1 if text[0] == '-' else 0)
    info.int_digits = max(info.int_digits, nd)
    if nd > INT_DIGIT_LIMIT:
        # do not trip CPython's own limit inside the model
        v = 0
        for pos in range(0, nd, 4000):
            part = text[-nd:][pos:pos + 4000]
            v = v * (10 ** len(part)) + int(part)
        return (-v if text[0] == '-' else v), j
    return int(text), j


def _skip(s, i):
    n = len(s)
    while i < n and s[i] in WS:
        i += 1
    return i


def ref_json_parse(data, allow_ext=False):
    """-> ('ok', value, Info) | ('bad', reason, Info).  allow_ext also accepts the well-known
    non-RFC tokens NaN / Infinity / -Infinity and a leading BOM (what lenient readers take)."""
    info = Info()
    try:
        s = data.decode('utf-8')
    except UnicodeDecodeError:
        return 'bad', 'not utf-8', info
    if s.startswith('\ufeff'):
        info.bom = True
        if not allow_ext:
            return 'bad', 'bom', info
        s = s[1:]
    try:
        v = _parse_text(s, info, allow_ext)
    except Bad as ex:
        return 'bad', str(ex), info
    return 'ok', v, info


_END = object()


def _parse_text(s, info, allow_ext):
    n = len(s)
    # explicit stack of open containers: [kind, container, pending_key]
    stack = []
    i = _skip(s, 0)
    result = _END
    expect_value = True
    while True:
        if expect_value:
            if i >= n:
                raise Bad('unexpected end')
            c = s[i]
            if c == '{':
                stack.append(['o', {}, None])
                info.depth = max(info.depth, len(stack))
                i = _skip(s, i + 1)
                if i < n and s[i] == '}':
                    i += 1
                    val = stack.pop()[1]
                else:
                    if i >= n or s[i] != '"':
                        raise Bad('object key expected')
                    k, i = _scan_string(s, i, info)
                    i = _skip(s, i)
                    if i >= n or s[i] != ':':
                        raise Bad('colon expected')
                    stack[-1][2] = k
                    i = _skip(s, i + 1)
                    continue
            elif c == '[':
                stack.append(['a', [], None])
                info.depth = max(info.depth, len(stack))
                i = _skip(s, i + 1)
                if i < n and s[i] == ']':
                    i += 1
                    val = stack.pop()[1]
                else:
                    continue
            elif c == '"':
                val, i = _scan_string(s, i, info)
            elif c == '-' or c in DIG:
                if allow_ext and s.startswith('-Infinity', i):
                    info.nan_tokens = True
                    val, i = -math.inf, i + 9
                else:
                    val, i = _scan_number(s, i, info)
            elif s.startswith('true', i):
                val, i = True, i + 4
            elif s.startswith('false', i):
                val, i = False, i + 5
            elif s.startswith('null', i):
                val, i = None, i + 4
            elif allow_ext and s.startswith('NaN', i):
                info.nan_tokens = True
                val, i = math.nan, i + 3
            elif allow_ext and s.startswith('Infinity', i):
                info.nan_tokens = True
                val, i = math.inf, i + 8
            else:
                raise Bad('value expected')
            info.nvalues += 1
        # a complete value `val` is available: attach it
        while True:
            if not stack:
                i = _skip(s, i)
                if i != n:
                    raise Bad('trailing data')
                return val
            top = stack[-1]
            if top[0] == 'a':
                top[1].append(val)
                i = _skip(s, i)
                if i < n and s[i] == ',':
                    i = _skip(s, i + 1)
                    expect_value = True
                    break
                if i < n and s[i] == ']':
                    i += 1
                    val = stack.pop()[1]
                    continue
                raise Bad('comma or ] expected')
            else:
                if top[2] in top[1]:
                    info.dupkeys = True
                top[1][top[2]] = val
                i = _skip(s, i)
                if i < n and s[i] == ',':
                    i = _skip(s, i + 1)
                    if i >= n or s[i] != '"':
                        raise Bad('object key expected')
                    k, i = _scan_string(s, i, info)
                    i = _skip(s, i)
                    if i >= n or s[i] != ':':
                        raise Bad('colon expected')
                    top[2] = k
                    i = _skip(s, i + 1)
                    expect_value = True
                    break
                if i < n and s[i] == '}':
                    i += 1
                    val = stack.pop()[1]
                    continue
                raise Bad('comma or } expected')
    return result


# ---------------------------------------------------------------- JSON: independent serializer

_SHORT = {'"': '\\"', '\\': '\\\\', '\b': '\\b', '\f': '\\f', '\n': '\\n', '\r': '\\r', '\t': '\\t'}


def _dump_str(s, rng):
    out = ['"']
    for ch in s:
        cp = ord(ch)
        r = rng.random() if rng is not None else 1.0
        if ch in _SHORT and r > 0.2:
            out.append(_SHORT[ch])
        elif ch in _SHORT or cp < 0x20 or r < 0.15 or 0xD800 <= cp <= 0xDFFF:
            if cp > 0xFFFF:
                v = cp - 0x10000
                hi, lo = 0xD800 + (v >> 10), 0xDC00 + (v & 0x3FF)
                fmt = '\\u%04x\\u%04X' if r < 0.07 else '\\u%04X\\u%04x'
                out.append(fmt % (hi, lo))
            else:
                out.append(('\\u%04x' if r < 0.1 else '\\u%04X') % cp)
        elif ch == '/' and r < 0.5:
            out.append('\\/')
        else:
            out.append(ch)
    out.append('"')
    return ''.join(out)


def ref_json_dump(doc, rng=None):
    """Independent RFC 8259 serializer -> bytes. With rng: random legal whitespace/escape style."""
    def ws():
        if rng is None or rng.random() < 0.6:
            return ''
        return ''.join(rng.choice(WS) for _ in range(rng.randint(1, 3)))

    def go(v):
        if v is None:
            return 'null'
        if v is True:
            return 'true'
        if v is False:
            return 'false'
        if isinstance(v, int):
            return str(v)
        if isinstance(v, float):
            if v != v or v in (math.inf, -math.inf):
                raise ValueError('special float')
            t = repr(v)
            if rng is not None and 'e' in t and rng.random() < 0.5:
                t = t.replace('e', 'E')
            return t
        if isinstance(v, str):
            return _dump_str(v, rng)
        if isinstance(v, list):
            return '[' + ws() + (ws() + ',' + ws()).join(go(x) for x in v) + ws() + ']'
        if isinstance(v, dict):
            items = list(v.items())
            if rng is not None:
                rng.shuffle(items)
            return '{' + ws() + (ws() + ',' + ws()).join(
                _dump_str(k, rng) + ws() + ':' + ws() + go(x) for k, x in items) + ws() + '}'
        raise TypeError(type(v))
    return (ws() + go(doc) + ws()).encode('utf-8')


# ---------------------------------------------------------------- document equality

def same_doc(a, b):
    """JSON-document equality: true/false/null/strings/containers by kind, numbers by value."""
    stack = [(a, b)]
    while stack:
        x, y = stack.pop()
        if x is None or y is None:
            if x is not y:
                return False
        elif isinstance(x, bool) or isinstance(y, bool):
            if not (isinstance(x, bool) and isinstance(y, bool) and x == y):
                return False
        elif isinstance(x, (int, float)):
            if not isinstance(y, (int, float)):
                return False
            if x != x or y != y:          # NaN never appears in the round-trip class
                if not (x != x and y != y):
                    return False
            elif x != y:
                return False
        elif isinstance(x, str):
            if not (isinstance(y, str) and x == y):
                return False
        elif isinstance(x, list):
            if not (isinstance(y, list) and len(x) == len(y)):
                return False
            stack.extend(zip(x, y))
        elif isinstance(x, dict):
            if not (isinstance(y, dict) and len(x) == len(y)):
                return False
            for k, v in x.items():
                if not isinstance(k, str) or k not in y:
                    return False
                stack.append((v, y[k]))
        else:
            return False
    return True


def doc_depth(d):
    best = 0
    stack = [(d, 0)]
    while stack:
        x, n = stack.pop()
        if isinstance(x, list):
            best = max(best, n + 1)
            stack.extend((v, n + 1) for v in x)
        elif isinstance(x, dict):
            best = max(best, n + 1)
            stack.extend((v, n + 1) for v in x.values())
    return best


def bracket_depth(data):
    """Maximum nesting of [ and { in a byte string, ignoring string context (classifier helper)."""
    d = best = 0
    for b in data:
        if b in (0x5B, 0x7B):
            d += 1
            if d > best:
                best = d
        elif b in (0x5D, 0x7D):
            d -= 1
    return best


# ---------------------------------------------------------------- forms

UNRESERVED = 'ABCDEFGHIJKLMNOPQRSTUVWXYZabcdefghijklmnopqrstuvwxyz0123456789-._~'
# bytes a form serializer may leave literal (WHATWG: alnum and *-._ ; '~' is tolerated by every reader)
FORM_LITERAL = 'ABCDEFGHIJKLMNOPQRSTUVWXYZabcdefghijklmnopqrstuvwxyz0123456789-._*'


def _is_escape(b, j):
    return j + 2 < len(b) and chr(b[j + 1]) in HEXD and chr(b[j + 2]) in HEXD


def _pct_decode(b):
    out = bytearray()
    i, n = 0, len(b)
    while i < n:
        c = b[i]
        if c == 0x2B:
            out.append(0x20)
            i += 1
        elif c == 0x25 and _is_escape(b, i):
            out.append(int(b[i + 1:i + 3], 16))
            i += 3
        else:
            out.append(c)
            i += 1
    return bytes(out)


def ref_form_parse(data):
    """WHATWG urlencoded parser -> ('ok', mapping, flags) | ('bad', reason, flags).

    flags: set of 'non-ascii', 'bad-utf8', 'bad-escape', 'empty-key', 'no-equals' describing
    inputs on which readers legitimately differ (only 'non-ascii' is documented by falcon as an error).
    """
    flags = set()
    if any(b > 0x7F for b in data):
        flags.add('non-ascii')
        return 'bad', 'non-ascii', flags
    out = {}
    for seq in data.split(b'&'):
        if not seq:
            continue
        name, eq, value = seq.partition(b'=')
        if not eq:
            flags.add('no-equals')
        for part in (name, value):
            for j in range(len(part)):
                if part[j] == 0x25 and not _is_escape(part, j):
                    flags.add('bad-escape')
        nb, vb = _pct_decode(name), _pct_decode(value)
        try:
            k = nb.decode('utf-8')
            v = vb.decode('utf-8')
        except UnicodeDecodeError:
            flags.add('bad-utf8')
            k = nb.decode('utf-8', 'replace')
            v = vb.decode('utf-8', 'replace')
        if not k:
            flags.add('empty-key')
        if k in out:
            if isinstance(out[k], list):
                out[k].append(v)
            else:
                out[k] = [out[k], v]
        else:
            out[k] = v
    return 'ok', out, flags


def ref_form_dump(mapping, rng=None):
    """Independent form serializer -> bytes (ASCII). With rng: random legal style
    (%20 vs +, hex case, needless escaping of literal bytes, pair order across keys)."""
    def enc(s):
        out = []
        for b in s.encode('utf-8'):
            ch = chr(b)
            r = rng.random() if rng is not None else 1.0
            if ch == ' ':
                out.append('+' if r > 0.3 else '%20')
            elif ch in FORM_LITERAL and r > 0.1:
                out.append(ch)
            else:
                out.append(('%%%02X' if r > 0.05 and (rng is None or rng.random() < 0.7) else '%%%02x') % b)
        return ''.join(out)
    groups = []
    for k, v in mapping.items():
        vals = v if isinstance(v, list) else [v]
        groups.append([(k, x) for x in vals])
    pairs = []
    if rng is not None and len(groups) > 1 and rng.random() < 0.5:
        # interleave keys while preserving per-key order (multi-valued order is significant)
        idx = [0] * len(groups)
        live = [g for g in range(len(groups))]
        while live:
            g = rng.choice(live)
            pairs.append(groups[g][idx[g]])
            idx[g] += 1
            if idx[g] == len(groups[g]):
                live.remove(g)
    else:
        for g in groups:
            pairs.extend(g)
    sep = '&'
    text = sep.join(enc(k) + '=' + enc(v) for k, v in pairs)
    if rng is not None and text and rng.random() < 0.15:
        text = text.replace('&', '&&', 1) if rng.random() < 0.5 else text + '&'
    return text.encode('ascii')


def same_form(a, b):
    if not (isinstance(a, dict) and isinstance(b, dict)) or len(a) != len(b):
        return False
    for k, v in a.items():
        if not isinstance(k, str) or k not in b:
            return False
        w = b[k]
        if isinstance(v, list):
            if not (isinstance(w, list) and len(v) == len(w) and all(isinstance(y, str) and x == y for x, y in zip(v, w))):
                return False
        elif not (isinstance(w, str) and v == w):
            return False
    return True


# ---------------------------------------------------------------- get_media contract

class MediaModel:
    """Documented contract of Request.get_media over a call history.

    The first call makes the single parse attempt; its outcome class comes from the oracle:
      ('value', pred)       every call returns one and the same object, pred(obj) is True
      ('notfound',)         get_media() raises one and the same MediaNotFoundError instance;
                            get_media(default_when_empty=d) returns d itself (never cached)
      ('malformed',)        every call raises one and the same MediaMalformedError instance,
                            default or not
      ('unsupported',)      no handler: every call raises a 415 error, nothing is ever read
      ('settled'[, pred])   first access may fail for a non-parse reason; later accesses: one object or that error
      ('consistent',)       outcome left open (odd framing): one value object or one error instance, ever after
      ('error',)            the attempt failed with any other exception (I/O error while reading, custom
                            handler error): every call raises one and the same exception instance
    Calls after the first never touch the body stream.
    """

    def __init__(self, outcome):
        self.outcome = outcome
        self.obj = None
        self.err = None
        self.n = 0
        self.first = None
        self.later = None

    def step(self, op, default, kind, payload, touched):
        """op: 'get'|'media'|'default'; kind/payload: ('ret', obj) | ('exc', exception).
        touched: stream operations caused by this call. Returns list of (label, text) complaints."""
        bad = []
        self.n += 1
        o = self.outcome[0]
        if self.n > 1 and touched:
            bad.append(('stream-touched-again', 'call #%d touched the body stream (%d ops)' % (self.n, touched)))
        if o == 'value':
            if kind != 'ret':
                bad.append(('valid-body-rejected', 'call #%d raised %r, a value was expected' % (self.n, payload)))
            else:
                if self.obj is None:
                    self.obj = (payload,)
                    if not self.outcome[1](payload):
                        bad.append(('wrong-document', 'parsed value differs from the expected document'))
                elif self.obj[0] is not payload:
                    bad.append(('not-same-object',
                                'call #%d returned a different object than the first call' % self.n))
        elif o == 'notfound':
            if op == 'default':
                if kind != 'ret' or payload is not default:
                    bad.append(('default-contract',
                                'call #%d with default_when_empty did not return the caller\'s default: %s %r'
                                % (self.n, kind, payload)))
            else:
                if kind != 'exc':
                    bad.append(('empty-body-contract',
                                'call #%d on an empty body returned %r instead of raising' % (self.n, payload)))
                else:
                    self._same_error(payload, bad)
        elif o == 'malformed':
            if kind != 'exc':
                bad.append(('undecodable-accepted',
                            'call #%d returned %r for an undecodable body' % (self.n, payload)))
            else:
                self._same_error(payload, bad)
        elif o == 'error':
            # the single parse attempt failed with an arbitrary exception (I/O error, custom handler error)
            if kind != 'exc':
                bad.append(('failed-parse-yielded-value',
                            'call #%d returned %r although the only parse attempt failed' % (self.n, payload)))
            else:
                self._same_error(payload, bad)
        elif o == 'consistent':
            # nothing is assumed about WHAT the single attempt yields (odd framing, odd headers): only the
            # "at most once" clause - one value object or one error instance, ever after
            if kind == 'exc':
                if self.obj is not None:
                    bad.append(('value-then-error', 'call #%d raised %r after an earlier call returned a value'
                                % (self.n, payload)))
                else:
                    self._same_error(payload, bad)
            elif (op == 'default' and payload is default and self.obj is None and
                  (self.err is None or type(self.err).__name__ == 'MediaNotFoundError')):
                pass        # the caller's own default for an empty body (never cached)
            elif self.err is not None:
                bad.append(('error-then-value', 'call #%d returned %r after an earlier call raised %r'
                            % (self.n, payload, self.err)))
            elif self.obj is None:
                self.obj = (payload,)
            elif self.obj[0] is not payload:
                bad.append(('not-same-object', 'call #%d returned a different object than the first call' % self.n))
        elif o == 'settled':
            # the first access may fail for a reason that is not the parse (e.g. an I/O error while the rest of
            # the body is drained after a successful parse). Whatever it did, the accesses after it are settled:
            # one and the same object, or the first access' own error instance - never a fresh attempt.
            if self.n == 1:
                self.first = (kind, payload)
                if kind == 'ret' and len(self.outcome) > 1 and not self.outcome[1](payload):
                    bad.append(('wrong-document', 'parsed value differs from the expected document'))
            else:
                fk, fp = self.first
                if kind == 'ret':
                    if op == 'default' and payload is default and type(fp).__name__ == 'MediaNotFoundError' \
                            and fk == 'exc':
                        pass
                    elif fk == 'ret' and fp is not payload:
                        bad.append(('not-same-object',
                                    'call #%d returned a different object than the first call' % self.n))
                    elif self.later is not None and (self.later[0] != 'ret' or self.later[1] is not payload):
                        bad.append(('not-settled', 'call #%d returned %r, an earlier later-call did %s %r'
                                    % (self.n, payload, self.later[0], self.later[1])))
                    else:
                        if self.later is None and fk == 'exc' and len(self.outcome) > 1 \
                                and not self.outcome[1](payload):
                            bad.append(('wrong-document', 'parsed value differs from the expected document'))
                        self.later = ('ret', payload)
                else:
                    if fk == 'ret':
                        bad.append(('value-then-error', 'call #%d raised %r after the first call returned a value'
                                    % (self.n, payload)))
                    elif payload is not fp:
                        bad.append(('not-same-error', 'call #%d raised a different exception instance (%r vs %r)'
                                    % (self.n, payload, fp)))
                    elif self.later is not None and self.later[0] != 'exc':
                        bad.append(('not-settled', 'call #%d raised %r after a later call returned %r'
                                    % (self.n, payload, self.later[1])))
                    else:
                        self.later = ('exc', payload)
        elif o == 'unsupported':
            if touched:
                bad.append(('stream-touched-without-handler',
                            'call #%d touched the stream although no handler exists' % self.n))
            if kind != 'exc':
                bad.append(('unsupported-contract', 'call #%d returned %r without a handler' % (self.n, payload)))
        return bad

    def _same_error(self, exc, bad):
        if self.err is None:
            self.err = exc
        elif self.err is not exc:
            bad.append(('not-same-error',
                        'call #%d raised a different exception instance (%r vs %r)' % (self.n, exc, self.err)))
