"""Reference model for C11: Accept negotiation (RFC 9110 12.4.2 / 12.5.1 grammar + the
specificity order documented for falcon.mediatypes.quality) and handler-mapping resolution.

Written from RFC 9110 and the public docstrings, not from falcon's code.  The parser is a
character-level, quoted-string aware reader (falcon's is str.split / str.partition based).

Every parsed text gets a *level*:
  STRICT  (0) grammar-valid: the oracle demands one exact answer
  LENIENT (1) not grammar-valid but with one obvious reading (empty list member, bare '*',
              q that is a plain real number in [0, 1] but not a 3-digit qvalue, blanks round '=' or '/'):
              either the documented value error or the answer under that reading
  GARBAGE (2) anything else: only "no undocumented exception, result of the right type"
  REJECT  (3) the documented value errors: no type/subtype; q not a real number in [0, 1]
"""

import re

STRICT, LENIENT, GARBAGE, REJECT = 0, 1, 2, 3

TCHAR = frozenset("!#$%&'*+-.^_`|~0123456789abcdefghijklmnopqrstuvwxyzABCDEFGHIJKLMNOPQRSTUVWXYZ")
OWS = ' \t'
QVALUE = re.compile(r'^(?:0(?:\.[0-9]{0,3})?|1(?:\.0{0,3})?)$')
PLAIN_DECIMAL = re.compile(r'^[+-]?[0-9]+(?:\.[0-9]*)?$')
WORD = re.compile(r'^[+-]?[A-Za-z]+$')


def is_token(s):
    return bool(s) and all(c in TCHAR for c in s)


def split_top(s, sep):
    """Split on sep outside quoted-strings. Returns (parts, unterminated_quote)."""
    parts, cur, inq, i, n = [], [], False, 0, len(s)
    while i < n:
        c = s[i]
        if inq:
            cur.append(c)
            if c == '\\' and i + 1 < n:
                cur.append(s[i + 1])
                i += 2
                continue
            if c == '"':
                inq = False
        elif c == '"':
            inq = True
            cur.append(c)
        elif c == sep:
            parts.append(''.join(cur))
            cur = []
        else:
            cur.append(c)
        i += 1
    parts.append(''.join(cur))
    return parts, inq


def unquote(v):
    """quoted-string -> (text, only_dquote_or_backslash_escaped) or None if not a quoted-string."""
    if len(v) < 2 or v[0] != '"' or v[-1] != '"':
        return None
    body = v[1:-1]
    out, i, n, plain = [], 0, len(body), True
    while i < n:
        c = body[i]
        if c == '\\':
            if i + 1 >= n:
                return None            # the closing quote was escaped: not terminated
            if body[i + 1] not in '"\\':
                plain = False
            out.append(body[i + 1])
            i += 2
            continue
        if c == '"':
            return None                # bare quote inside
        out.append(c)
        i += 1
    return ''.join(out), plain


class Parsed:
    __slots__ = ('main', 'sub', 'params', 'q', 'level', 'why', 'empty')

    def __init__(self, level, why='', main=None, sub=None, params=None, q=1.0, empty=False):
        self.level, self.why = level, why
        self.main, self.sub, self.params, self.q, self.empty = main, sub, params or {}, q, empty

    def __repr__(self):
        return 'Parsed(%r,%r,%r,q=%r,level=%d,%s)' % (self.main, self.sub, self.params, self.q, self.level, self.why)


_memo_one, _memo_acc = {}, {}


def parse_one(text, is_range):
    """One media-range (with optional weight) or one media type (memoised; results are never mutated)."""
    k = (text, is_range)
    r = _memo_one.get(k)
    if r is None:
        if len(_memo_one) > 20000:
            _memo_one.clear()
        r = _memo_one[k] = _parse_one(text, is_range)
    return r


def _parse_one(text, is_range):
    level, why = STRICT, ''

    def worse(lv, w):
        nonlocal level, why
        if lv > level:
            level, why = lv, w

    if any((ord(c) < 32 and c != '\t') or ord(c) >= 127 for c in text):
        return Parsed(GARBAGE, 'non-ascii-or-control')
    t = text.strip(OWS)
    if t == '':
        if is_range:
            return Parsed(LENIENT, 'empty-member', empty=True)
        return Parsed(REJECT, 'no-slash')
    segs, unterminated = split_top(t, ';')
    if unterminated:
        return Parsed(GARBAGE, 'unterminated-quote')
    first = segs[0].strip(OWS)
    if '/' not in first:
        if '"' in first or '\\' in first:
            return Parsed(GARBAGE, 'quote-in-type')
        if is_range and first == '*':
            main, sub = '*', '*'
            worse(LENIENT, 'bare-star')
        else:
            return Parsed(REJECT, 'no-slash')
    else:
        main, sub = first.split('/', 1)
        if main != main.strip(OWS) or sub != sub.strip(OWS):
            # not in the grammar, one obvious reading (like blanks round '='): the error or that reading
            worse(LENIENT, 'blank-round-slash')
            main, sub = main.strip(OWS), sub.strip(OWS)
        if not is_token(main) or not is_token(sub):
            return Parsed(GARBAGE, 'type-not-token')
        if ('*' in main and main != '*') or ('*' in sub and sub != '*'):
            # 'a*b' is a legal token but makes "wildcard" ambiguous; keep it out of the strict class
            worse(GARBAGE, 'star-inside-token')
        if main != main.lower() or sub != sub.lower():
            # RFC: case-insensitive; falcon documents "match exactly". Not demanded either way.
            worse(GARBAGE, 'upper-case-type')
    params, q, seen_q = {}, 1.0, False
    nseg = len(segs)
    for idx in range(1, nseg):
        raw = segs[idx]
        s = raw.strip(OWS)
        if s == '':
            continue                  # RFC 9110 parameters = *( OWS ";" OWS [ parameter ] )
        if '=' not in s:
            worse(GARBAGE, 'param-without-equals')
            continue
        name, value = s.split('=', 1)
        if name != name.strip(OWS) or value != value.strip(OWS):
            worse(LENIENT, 'blank-round-equals')
            name, value = name.strip(OWS), value.strip(OWS)
        if not is_token(name):
            worse(GARBAGE, 'param-name-not-token')
            continue
        lname = name.lower()
        quoted = False
        if is_token(value):
            val = value
        else:
            u = unquote(value)
            if u is None:
                if is_range and lname == 'q' and value == '':
                    return Parsed(REJECT, 'q-empty')
                worse(GARBAGE, 'param-value-malformed')
                continue
            val, plain = u
            quoted = True
            if not plain:
                worse(GARBAGE, 'quoted-pair-of-ordinary-char')
        if lname in params or (lname == 'q' and seen_q):
            worse(GARBAGE, 'duplicate-param')
        if is_range and lname == 'q':
            seen_q = True
            if any(segs[j].strip(OWS) for j in range(idx + 1, nseg)):
                worse(GARBAGE, 'q-not-last')
            if quoted:
                worse(GARBAGE, 'q-quoted')
            if QVALUE.match(val):
                q = float(val)
            elif WORD.match(val):
                return Parsed(REJECT, 'q-not-a-number')
            elif PLAIN_DECIMAL.match(val):
                f = float(val)
                if 0.0 <= f <= 1.0:
                    worse(LENIENT, 'q-not-3-digit')
                    q = f
                else:
                    return Parsed(REJECT, 'q-out-of-range')
            else:
                try:
                    f = float(val)
                except ValueError:
                    f = None
                if f is not None and f == f and 0.0 <= f <= 1.0:
                    worse(LENIENT, 'q-exotic-number')
                    q = f
                else:
                    worse(GARBAGE, 'q-exotic')
            continue
        # on a media type (not a range) 'q' is a parameter like any other (RFC 9110 8.3.1: any token);
        # a range never has a parameter called q (there it is the weight), so it is always extraneous
        params[lname] = val
    return Parsed(level, why, main, sub, params, q)


def parse_accept(header, naive=False):
    """-> (level, why, [Parsed non-empty members]) (memoised).

    naive=True is NOT the oracle: it models the recorded defect "list split on every comma,
    also inside quoted-strings" and is only used to attribute a disagreement to that defect.
    """
    r = _memo_acc.get((header, naive))
    if r is None:
        if len(_memo_acc) > 20000:
            _memo_acc.clear()
        r = _memo_acc[(header, naive)] = _parse_accept(header, naive)
    return r


def _parse_accept(header, naive):
    if any((ord(c) < 32 and c != '\t') or ord(c) >= 127 for c in header):
        return GARBAGE, 'non-ascii-or-control', []
    if naive:
        parts, unterminated = header.split(','), False
    else:
        parts, unterminated = split_top(header, ',')
    if unterminated:
        return GARBAGE, 'unterminated-quote', []
    level, why, members = STRICT, '', []
    for p in parts:
        m = parse_one(p, True)
        if m.level > level:
            level, why = m.level, m.why
        if not m.empty and m.level <= LENIENT:
            members.append(m)
    return level, why, members


def ref_parse_header(text):
    """Documented result of the public parse_header(): (main value, {lower-cased option: unquoted value}).

    None when the text is outside the part of the grammar with a single obvious reading (then only
    "the caller may change the returned dict without affecting later calls" is checked)."""
    if any((ord(c) < 32 and c != '\t') or ord(c) >= 127 for c in text):
        return None
    segs, unterminated = split_top(text, ';')
    if unterminated or '"' in segs[0] or '\\' in segs[0]:
        return None
    opts = {}
    for seg in segs[1:]:
        s = seg.strip(OWS)
        if s == '':
            continue
        if '=' not in s:
            return None
        name, value = s.split('=', 1)
        name, value = name.strip(OWS), value.strip(OWS)
        if not is_token(name) or name.lower() in opts:
            return None
        if is_token(value):
            opts[name.lower()] = value
        else:
            u = unquote(value)
            if u is None or not u[1]:
                return None
            opts[name.lower()] = u[0]
    return segs[0].strip(OWS), opts


def has_quoted_comma(header):
    """A comma inside a (terminated) quoted-string."""
    parts, unterminated = split_top(header, ',')
    return (not unterminated) and len(parts) != len(header.split(','))


def has_trailing_escaped_backslash(text):
    """A quoted-string whose last character is an escaped backslash ("...\\\\") followed by ';'."""
    i, n, inq = 0, len(text), False
    while i < n:
        c = text[i]
        if inq:
            if c == '\\' and i + 1 < n:
                if text[i + 1] == '\\' and i + 2 < n and text[i + 2] == '"' and ';' in text[i + 3:].split(',')[0]:
                    return True
                i += 2
                continue
            if c == '"':
                inq = False
        elif c == '"':
            inq = True
        i += 1
    return False


# ---- the documented order

def specificity(rng, mt):
    """None if the range does not match; else the 4 documented criteria, most important first."""
    if rng.main == '*' or mt.main == '*':
        c1 = 0
    elif rng.main == mt.main:
        c1 = 1
    else:
        return None
    if rng.sub == '*' or mt.sub == '*':
        c2 = 0
    elif rng.sub == mt.sub:
        c2 = 1
    else:
        return None
    shared = [n for n in rng.params if n in mt.params]
    for n in shared:
        if rng.params[n] != mt.params[n]:
            return None
    only_one_side = [n for n in rng.params if n not in mt.params] + [n for n in mt.params if n not in rng.params]
    c3 = 0 if only_one_side else 1
    return (c1, c2, c3, len(shared))


def quality_from(members, mt):
    """-> (q, info) info: classes of the decision for coverage counters."""
    best_spec, best_q = None, 0.0
    matched = []
    for r in members:
        sp = specificity(r, mt)
        if sp is None:
            continue
        matched.append((sp, r.q))
        if best_spec is None or sp > best_spec:
            best_spec, best_q = sp, r.q
        elif sp == best_spec and r.q > best_q:
            best_q = r.q
    info = set()
    if not matched:
        info.add('nomatch')
    else:
        if len(matched) > 1:
            info.add('multi')
        top = [q for sp, q in matched if sp == best_spec]
        rest = [q for sp, q in matched if sp != best_spec]
        if len(set(top)) > 1:
            info.add('tie_q')
        if rest and max(rest) > best_q:
            info.add('specific_beats_q')
        if best_q == 0.0:
            info.add('q0_best')
            if rest and max(rest) > 0.0:
                info.add('q0_masks_wildcard')
        if best_spec[2] == 1 and best_spec[3] > 0:
            info.add('exact_params')
        if best_spec[2] == 0 and best_spec[3] > 0:
            info.add('partial_params')
        if any(sp[:2] == best_spec[:2] and sp[2] < best_spec[2] and sp[3] >= best_spec[3] for sp, _ in matched):
            info.add('exact_over_count')
        if any(sp[:3] == best_spec[:3] and sp[3] < best_spec[3] for sp, _ in matched):
            info.add('count_decides')
        if best_spec[0] == 0:
            info.add('by_type_wildcard')
        elif best_spec[1] == 0:
            info.add('by_subtype_wildcard')
    return best_q, info


class Spec:
    """What the statement allows as the outcome of one call."""
    __slots__ = ('kind', 'value', 'errors', 'info', 'why')

    def __init__(self, kind, value=None, errors=(), info=(), why=''):
        # kind: value | raise | either | any
        self.kind, self.value, self.errors, self.info, self.why = kind, value, tuple(errors), set(info), why


MT, MR = 'InvalidMediaType', 'InvalidMediaRange'


def spec_quality(media_type, header, naive=False):
    mt = parse_one(media_type, False)
    hl, hwhy, members = parse_accept(header, naive)
    if mt.level == GARBAGE or hl == GARBAGE:
        return Spec('any', errors=(MT, MR), why=mt.why if mt.level == GARBAGE else hwhy)
    errs = []
    if mt.level == REJECT:
        errs.append(MT)
    if hl == REJECT:
        errs.append(MR)
    if errs:
        return Spec('raise', errors=errs, why=mt.why or hwhy)
    q, info = quality_from(members, mt)
    if mt.level == LENIENT or hl == LENIENT:
        return Spec('either', q, errors=(MR,) if hl == LENIENT else (MT,), info=info, why=hwhy or mt.why)
    return Spec('value', q, info=info)


def spec_best_match(candidates, header, naive=False):
    cands = [parse_one(c, False) for c in candidates]
    hl, hwhy, members = parse_accept(header, naive)
    if not candidates:
        if hl == STRICT:
            return Spec('value', '')
        return Spec('either', '', errors=(MR, MT), why=hwhy)
    if hl == GARBAGE or any(c.level == GARBAGE for c in cands):
        return Spec('any', errors=(MT, MR), why='garbage')
    errs = []
    if any(c.level == REJECT for c in cands):
        errs.append(MT)
    if hl == REJECT:
        errs.append(MR)
    if errs:
        return Spec('raise', errors=errs, why=hwhy)
    best, best_q, info = '', 0.0, set()
    qs = []
    for text, c in zip(candidates, cands):
        q, i = quality_from(members, c)
        qs.append(q)
        if q > best_q:                 # strictly greater: the first of equally good candidates wins
            best, best_q = text, q
    if best == '':
        info.add('bm_none')
    else:
        if qs.count(best_q) > 1:
            info.add('bm_tie_first')
        if qs.index(best_q) > 0:
            info.add('bm_not_first')
    if any(q == 0.0 for q in qs):
        info.add('bm_has_q0_candidate')
    if hl == LENIENT or any(c.level == LENIENT for c in cands):
        return Spec('either', best, errors=(MR, MT), info=info, why=hwhy)
    sp = Spec('value', best, info=info)
    return sp


def candidate_qualities(candidates, header):
    """For the 'never chosen' monitor: list of q per candidate (strict/lenient reading) or None."""
    hl, _, members = parse_accept(header)
    if hl >= GARBAGE:
        return None
    out = []
    for c in candidates:
        p = parse_one(c, False)
        if p.level >= GARBAGE:
            return None
        out.append(quality_from(members, p)[0])
    return out


# ---- handler mapping model

NOT_FOUND = '415'


def resolve_model(mapping, content_type, default, naive=False):
    """mapping: plain dict (insertion ordered) key -> handler. -> handler or NOT_FOUND (None: undecidable).

    naive=True models the recorded comma-splitting defect, for attribution only."""
    mt = default if (not content_type or content_type == '*/*') else content_type
    if not mapping:
        return NOT_FOUND
    if mt in mapping:
        return mapping[mt]
    keys = list(mapping.keys())
    sp = spec_best_match(keys, mt, naive)
    if sp.kind == 'value':
        return mapping[sp.value] if sp.value else NOT_FOUND
    if sp.kind == 'raise':
        return NOT_FOUND               # a malformed type designates nothing
    return None                        # not decidable by the statement


def resolve_allowed(mapping, content_type, default):
    """-> (allowed outcomes, class) - every outcome the statement admits, the expected one first.

    class 'rule'      : one answer (exact key / matching rule / default fallback / 415)
    class 'bad-key'   : the mapping holds a key that is not a type/subtype pair and the type is not an
                        exact key: the documented rule cannot rank such a candidate (best_match documents
                        InvalidMediaType for it), so it designates nothing -> 415; an implementation
                        that ranks only the well-formed keys is admitted too. Never anything else.
    class 'undecided' : no single reading (keys/types outside the grammar): only "a handler that is in
                        the current mapping, or 415".
    """
    mt = default if (not content_type or content_type == '*/*') else content_type
    if mapping and mt not in mapping:
        bad = [k for k in mapping if parse_one(k, False).level == REJECT]
        if bad:
            rest = {k: v for k, v in mapping.items() if k not in bad}
            alt = resolve_model(rest, content_type, default)
            out = [NOT_FOUND]
            if alt is None:
                out.extend(rest.values())
            elif alt is not NOT_FOUND:
                out.append(alt)
            return out, 'bad-key'
    one = resolve_model(mapping, content_type, default)
    if one is None:
        return [NOT_FOUND] + list(mapping.values()), 'undecided'
    return [one], 'rule'
