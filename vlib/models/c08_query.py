"""Reference readings for C08 (query mapping, typed conversions, to_query_str normal form).

Written from the property statement and the public documentation of falcon.Request.get_param_*,
falcon.uri.parse_query_string and falcon.to_query_str - not from their code.  The field reader
itself is vlib.models.uri.ref_parse_qs (shared with C10's codec).
"""

import json
import uuid
from decimal import Decimal
from datetime import datetime

from vlib.models.uri import HEXS, ref_decode, ref_parse_qs  # noqa: F401  (re-exported)

# The strings listed in the documentation of get_param_as_bool
TRUE_STRINGS = ('true', 'True', 't', 'yes', 'y', '1', 'on')
FALSE_STRINGS = ('false', 'False', 'f', 'no', 'n', '0', 'off')

DEFAULT_DATETIME_FORMAT = '%Y-%m-%dT%H:%M:%S%z'
DEFAULT_DATE_FORMAT = '%Y-%m-%d'


# ---------------------------------------------------------------- mapping

def fields(qs):
    """[(raw_name, raw_value, had_equals)] for every '&'-separated field."""
    out = []
    for f in qs.split('&'):
        i = f.find('=')
        if i < 0:
            out.append((f, '', False))
        else:
            out.append((f[:i], f[i + 1:], True))
    return out


def canon(mapping):
    """name -> list of values; a name without any value is the same as an absent name."""
    out = {}
    for k, v in mapping.items():
        vs = list(v) if isinstance(v, list) else [v]
        if vs:
            out[k] = vs
    return out


def all_blank_csv_names(qs, keep_blank, csv):
    """Names for which the statement leaves the *shape* of the entry open.

    With CSV splitting on and blank values dropped, a field whose value is made of commas only
    ('a=,') contributes no value at all.  Whether such a name is then absent, maps to an empty list
    or leaves a one-element list behind is not fixed by the statement; entries of these names are
    compared value-wise (canon) only.
    """
    if not csv or keep_blank:
        return set()
    out = set()
    for k, v, _ in fields(qs):
        if v and v.strip(',') == '':
            out.add(ref_decode(k, True))
    return out


def well_typed(mapping):
    """A parameter mapping is a dict of str -> str | list of str."""
    if type(mapping) is not dict:
        return False
    for k, v in mapping.items():
        if type(k) is not str:
            return False
        if type(v) is list:
            if not all(type(e) is str for e in v):
                return False
        elif type(v) is not str:
            return False
    return True


def classify(qs, keep_blank, csv):
    """Branch classes of the reader that this input exercises (coverage accounting only)."""
    cls = set()
    seen = {}
    for k, v, eq in fields(qs):
        if k == '' and v == '':
            cls.add('empty_field' if not eq else 'lone_equals')
            continue
        if k == '':
            cls.add('empty_name')
        if not eq:
            cls.add('bare_name')
        if '=' in v:
            cls.add('equals_run')
        if v == '':
            cls.add('blank_kept' if keep_blank else 'blank_dropped')
        for part, tag in ((k, 'name'), (v, 'value')):
            if '+' in part:
                cls.add('plus')
            n = len(part)
            i = part.find('%')
            npct = 0
            while i >= 0:
                npct += 1
                rest = part[i + 1:i + 3]
                if len(rest) == 2 and rest[0] in HEXS and rest[1] in HEXS:
                    cls.add('escape_in_' + tag)
                    if rest.upper() == '2C':
                        cls.add('encoded_comma_csv' if csv else 'encoded_comma')
                elif i == n - 1:
                    cls.add('trailing_percent')
                elif rest[0] in HEXS and (i == n - 2 or rest[1] not in HEXS):
                    cls.add('percent_one_hex')
                else:
                    cls.add('percent_nonhex')
                i = part.find('%', i + 1)
            if npct >= 7:
                cls.add('escape_dense')
        if ',' in v:
            cls.add('comma_csv' if csv else 'comma_literal')
            if ',%' in v or any(v[j] == ',' and j >= 3 and v[j - 3] == '%' for j in range(len(v))):
                cls.add('comma_next_to_escape')
            if csv and any(e == '' for e in v.split(',')):
                cls.add('blank_element_kept' if keep_blank else 'blank_element_dropped')
        if v == '' and not keep_blank:
            continue
        dk = ref_decode(k, True)
        if dk in seen:
            seen[dk] += 1
            cls.add('repeat_scalar_to_list' if seen[dk] == 2 else 'repeat_append')
            if csv and ',' in v:
                cls.add('csv_repeat')
            if dk != k:
                cls.add('repeat_via_decoded_name')
        else:
            seen[dk] = 1
    if '\x00' in qs:
        cls.add('nul')
    if not qs.isascii():
        cls.add('non_ascii')
    return cls


# ---------------------------------------------------------------- typed getters

class Outcome:
    """What a getter call is allowed to do."""
    __slots__ = ('kind', 'value', 'stored', 'tag')

    def __init__(self, kind, value=None, stored=False, tag=''):
        self.kind = kind        # 'return' | 'raise400' | 'propagate' (value = exception type name) | 'any'
        self.value = value
        self.stored = stored    # True: store == {name: value}; False: store untouched
        self.tag = tag

    def __repr__(self):
        return 'Outcome(%s, %r, stored=%r, %s)' % (self.kind, self.value, self.stored, self.tag)


TRANSFORMS = {
    None: None,
    'int': int,
    'float': float,
    'uuid': uuid.UUID,
    'upper': str.upper,
    'strict': None,     # filled below
}


def _strict(s):
    if not s.isalnum():
        raise ValueError('not alphanumeric')
    return s.lower()


TRANSFORMS['strict'] = _strict

# user-supplied transforms whose failure is NOT a ValueError (only ValueError is documented to become a 400):
CHOICES = ('1', 'x', 'a', 'A1')
_TABLE = {c: c.upper() for c in CHOICES}


def _first_match(s):                      # the 'first match' idiom: StopIteration for an unknown element
    return next(c for c in CHOICES if c == s)


def _lookup(s):                           # KeyError
    return _TABLE[s]


def _raiser(exc_type):
    def tr(s):
        if s not in CHOICES:
            raise exc_type('no conversion for %r' % (s,))
        return s
    return tr


TRANSFORMS.update({'first_match': _first_match, 'lookup': _lookup, 'type_error': _raiser(TypeError),
                   'generator_exit': _raiser(GeneratorExit), 'stop_async': _raiser(StopAsyncIteration),
                   'runtime_error': _raiser(RuntimeError)})


def _bounds(v, lo, hi):
    """[acceptable Outcome...] for a converted number under min/max (both inclusive)."""
    if v != v and (lo is not None or hi is not None):
        # NaN: "less than min / greater than max raises" says accept, "must be in the interval"
        # says refuse - the documentation contradicts itself, both readings are allowed.
        return [Outcome('return', v, True, 'nan-bounds'), Outcome('raise400', tag='nan-bounds')]
    if lo is not None and v < lo:
        return [Outcome('raise400', tag='below-min')]
    if hi is not None and v > hi:
        return [Outcome('raise400', tag='above-max')]
    tag = 'in-range' if (lo is not None or hi is not None) else 'ok'
    if (lo is not None and v == lo) or (hi is not None and v == hi):
        tag = 'on-bound'
    return [Outcome('return', v, True, tag)]


def convert(kind, s, op, json_loads=json.loads):
    """Reference conversion of one textual value -> list of acceptable outcomes."""
    bad = [Outcome('raise400', tag='invalid')]
    if kind == 'str':
        return [Outcome('return', s, True, 'ok')]
    if kind == 'int':
        try:
            v = int(s)
        except ValueError:
            return bad
        return _bounds(v, op.get('min'), op.get('max'))
    if kind == 'float':
        try:
            v = float(s)
        except ValueError:
            return bad
        return _bounds(v, op.get('min'), op.get('max'))
    if kind == 'bool':
        if s in TRUE_STRINGS:
            return [Outcome('return', True, True, 'true')]
        if s in FALSE_STRINGS:
            return [Outcome('return', False, True, 'false')]
        if s == '':
            return [Outcome('return', bool(op.get('blank_as_true', True)), True, 'blank')]
        return bad
    if kind == 'uuid':
        try:
            return [Outcome('return', uuid.UUID(s), True, 'ok')]
        except ValueError:
            return bad
    if kind in ('datetime', 'date'):
        fmt = op.get('fmt') or (DEFAULT_DATETIME_FORMAT if kind == 'datetime' else DEFAULT_DATE_FORMAT)
        try:
            v = datetime.strptime(s, fmt)
        except ValueError:
            return bad
        return [Outcome('return', v if kind == 'datetime' else v.date(), True, 'ok')]
    if kind == 'json':
        try:
            return [Outcome('return', json_loads(s), True, 'ok')]
        except ValueError:
            return bad
        except RecursionError:
            # text that cannot be parsed as JSON: the documented answer is the 400-class error
            return [Outcome('raise400', tag='too-deep')]
    raise AssertionError(kind)


def ref_getter(ref_params, ambiguous, op, json_loads=json.loads):
    """Acceptable outcomes of one getter call `op` on the reference mapping.

    op: {'g': kind, 'name': str, 'required': bool, 'default': obj, 'min','max','blank_as_true',
         'fmt','transform'}
    """
    kind, name = op['g'], op['name']
    vals = canon(ref_params).get(name)
    if not vals and name in ambiguous:
        # see all_blank_csv_names: presence of this name is open; only a non-400 exception is wrong
        return [Outcome('any', tag='open-presence')]
    if not vals:
        if op.get('required'):
            return [Outcome('raise400', tag='missing')]
        return [Outcome('return', op.get('default'), False, 'default')]
    if kind == 'list':
        tr = TRANSFORMS[op.get('transform')]
        if tr is None:
            return [Outcome('return', list(vals), True, 'list')]
        try:
            return [Outcome('return', [tr(e) for e in vals], True, 'list-transformed')]
        except ValueError:
            return [Outcome('raise400', tag='invalid')]
        except (Exception, GeneratorExit) as ex:
            # the transform failed with something else: no value exists, so nothing may be returned or stored;
            # the exception of the user's callable comes out (a 400 would also report "no value")
            return [Outcome('propagate', type(ex).__name__, False, 'transform-raised'), Outcome('raise400', tag='transform-raised')]
    return convert(kind, vals[-1], op, json_loads)


# The documentation (docs/api/media.rst, note on the JSON handler) says that get_param_as_json converts with
# the JSON handler configured in the request options.  Two conversions that differ observably from json.loads:

def _no_constant(name):
    raise ValueError('JSON constant %s is not accepted' % name)


def strict_decimal_loads(s):
    """Floats become Decimal, NaN/Infinity are refused."""
    return json.loads(s, parse_float=Decimal, parse_constant=_no_constant)


def tagged_loads(s):
    return {'via': 'custom-handler', 'value': json.loads(s)}


def make_tagged_loads(tag):
    def loads(s):
        return {'via': tag, 'value': json.loads(s)}
    return loads


def same(a, b):
    """Same value and same type (NaN equals NaN, True is not 1, aware datetimes keep their offset)."""
    return type(a) is type(b) and repr(a) == repr(b)


# ---------------------------------------------------------------- to_query_str

def scalar_text(v):
    if v is True:
        return 'true'
    if v is False:
        return 'false'
    return str(v)


def rendered_canon(d, comma_lists, keep_blank):
    """canon() of what parsing to_query_str(d, comma_lists) must give back.

    Booleans read back as 'true'/'false', other scalars as str(v); a one-element list is the
    same as its element; an empty list is a blank value under comma-delimited lists and nothing
    otherwise; blank values survive only with keep_blank.  Names are non-empty.
    """
    out = {}
    for k, v in (d or {}).items():
        if isinstance(v, list):
            vals = [scalar_text(e) for e in v]
            if not vals and comma_lists:
                vals = ['']
        else:
            vals = [scalar_text(v)]
        if not keep_blank:
            vals = [x for x in vals if x != '']
        if vals:
            out[k] = vals
    return out


def rendering_alphabet_ok(text):
    """name=value fields of unreserved characters and %XX escapes, joined by '&' (',' inside lists)."""
    i, n = 0, len(text)
    ok = frozenset('ABCDEFGHIJKLMNOPQRSTUVWXYZabcdefghijklmnopqrstuvwxyz0123456789-._~&=,')
    while i < n:
        ch = text[i]
        if ch == '%':
            if n - i < 3 or text[i + 1] not in HEXS or text[i + 2] not in HEXS:
                return False
            i += 3
            continue
        if ch not in ok:
            return False
        i += 1
    return True
