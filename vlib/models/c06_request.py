"""C06 - the abstract HTTP request, its written-down mappings and the anchor model.

An *abstract request* is a plain JSON-able dict (str / int / list / dict / bool / None only, so a
witness replays exactly).  Byte strings are carried as latin-1 ``str``:

    method        'GET'
    target        request-target path as sent on the wire, bytes-as-latin-1 ('/a%20b', '/\\xc3\\xa9')
    query         raw query string, bytes-as-latin-1 ('' = no query)
    headers       ordered [[name, value], ...] exactly as a server's HTTP parser hands them over
                  (RFC 9110 5.5: optional whitespace around the field value already removed); the simulator
                  legs may re-add such whitespace (style 'ows') or pass None for '' (style 'none_for_empty')
                  (arbitrary name casing, repeats, no surrounding whitespace in values)
    body          bytes-as-latin-1
    chunks        None or [sizes]: how the body arrives on ASGI (http.request events)
    scheme        'http' | 'https'
    server        [host, port]
    client        [addr, port] or None (server does not tell)
    root_path     '' or '/mount'
    http_version  '1.0' | '1.1' | '2'
    opts          [strip_url_path_trailing_slash, keep_blank_qs_values, auto_parse_qs_csv]
    mw            'independent' | 'dependent': App(independent_middleware=...) of both apps
    script        what the responder does (see vlib/models/c06_gen.py)
    sim           None, or a dict of *style* choices for the falcon.testing leg

Mappings (DESIGN.md C06; they are the trusted part of this check):

* WSGI, the way wsgiref/gunicorn fill environ: vlib.drivers.wsgi.make_environ
* ASGI, the way uvicorn/h11 fill the scope:    vlib.drivers.asgi.make_scope + body_events
* falcon.testing.simulate_request keyword arguments: sim_kwargs() below - only for requests that
  are expressible through its documented arguments.

The anchor model (anchor()) states, from the property statement and falcon's public docs only,
what every leg must see for the indisputable part of the request: method, decoded path, raw query,
lower-cased header map, root path, scheme, remote address, content length, netloc/host/port for
simple Host forms, the URI, and the body bytes.
"""

import json
import re
from urllib.parse import unquote_to_bytes

from vlib.drivers import asgi as A
from vlib.drivers import wsgi as W

SINGLETONS = frozenset(['content-length', 'content-type', 'cookie', 'expect', 'from', 'host',
                        'max-forwards', 'referer', 'user-agent'])   # falcon.constants.SINGLETON_HEADERS (public)

DEFAULTS = {
    'method': 'GET', 'target': '/', 'query': '', 'headers': [], 'body': '', 'chunks': None,
    'scheme': 'http', 'server': ['falconframework.org', 80], 'client': ['127.0.0.1', 51234],
    'root_path': '', 'http_version': '1.1', 'opts': [False, True, False], 'script': None, 'sim': None,
    'mw': 'independent',
}
# NOTE: falcon's RequestOptions defaults: strip_url_path_trailing_slash=False,
#   keep_blank_qs_values=True, auto_parse_qs_csv=False; the check builds all 8 combinations.


def new_request(**kw):
    r = {k: (list(v) if isinstance(v, list) else v) for k, v in DEFAULTS.items()}
    for k, v in kw.items():
        if k not in DEFAULTS:
            raise KeyError(k)
        r[k] = v
    r['headers'] = [list(h) for h in r['headers']]
    return r


def b(s):
    return s.encode('latin-1')


def header_values(req, name):
    n = name.lower()
    return [v for k, v in req['headers'] if k.lower() == n]


def has_header(req, name):
    return bool(header_values(req, name))


def default_port(scheme):
    return 443 if scheme == 'https' else 80


def sim_host_value(req):
    """The Host header the simulators derive from (host, port, scheme)."""
    host, port = req['server']
    return host if port == default_port(req['scheme']) else '%s:%d' % (host, port)


def finalize(req):
    """Make the framing consistent: a non-empty body is announced by Content-Length."""
    if req['body'] and not has_header(req, 'content-length'):
        req['headers'].append(['Content-Length', str(len(req['body']))])
    return req


# ---------------------------------------------------------------------------------- classes

_NUM = re.compile(r'^[0-9]+$')


def classes(req):
    """Labels that decide what is compared (and are counted as coverage)."""
    out = set()
    names = [k.lower() for k, _ in req['headers']]
    for n in set(names):
        if names.count(n) > 1:
            out.add('singleton-repeat' if n in SINGLETONS else 'list-repeat')
    if any(k != k.lower() for k, _ in req['headers']):
        out.add('hdr-casing')
    if any(ord(c) > 127 for c in req['query']):
        out.add('raw8-query')
    if any(ord(c) > 127 for c in req['target']):
        out.add('raw8-path')
    cl = header_values(req, 'content-length')
    if cl and not _NUM.match(cl[-1]):
        out.add('invalid-cl')
    if req['client'] is None:
        out.add('no-client')
    if req['chunks']:
        out.add('chunked-arrival')
    if req['root_path']:
        out.add('root-path')
    if req['scheme'] == 'https':
        out.add('https')
    if req['server'][1] not in (80, 443):
        out.add('port-nondefault')
    if req['http_version'] != '1.1':
        out.add('http-' + req['http_version'])
    if not has_header(req, 'host'):
        out.add('no-host-header')
    t = req['target']
    if '%' in t:
        out.add('path-pct')
        try:
            unquote_to_bytes(b(t)).decode('utf-8')
        except UnicodeDecodeError:
            out.add('path-invalid-utf8')
        else:
            if any(c > 127 for c in unquote_to_bytes(b(t))):
                out.add('path-pct-utf8')
    if len(t) > 1 and t.endswith('/'):
        out.add('path-trailing-slash')
    if req['query']:
        out.add('query')
    if req['body']:
        out.add('body')
    return out


def comparable(req):
    """WSGI and ASGI see the same header map only when no singleton header is repeated:
    an ASGI app keeps the last one, a WSGI server has already joined them (documented)."""
    return 'singleton-repeat' not in classes(req)


# ---------------------------------------------------------------------------------- mappings

def to_environ(req, file_wrapper=False):
    client = req['client'] or ['127.0.0.1', 1]
    env = W.make_environ(
        method=req['method'], raw_path=b(req['target']), query=req['query'],
        headers=[tuple(h) for h in req['headers']], body=b(req['body']), scheme=req['scheme'],
        server=tuple(req['server']), client=tuple(client), root_path=req['root_path'],
        http_version=req['http_version'], content_length=None, file_wrapper=file_wrapper)
    if req['client'] is None:
        del env['REMOTE_ADDR']
        del env['REMOTE_PORT']
    # the reader stops at the declared length (what a real server's framing does)
    return env


def to_scope(req):
    client = req['client'] or ['127.0.0.1', 1]
    scope = A.make_scope(
        method=req['method'], raw_path=b(req['target']), query=b(req['query']),
        headers=[tuple(h) for h in req['headers']], scheme=req['scheme'], server=tuple(req['server']),
        client=tuple(client), root_path=req['root_path'], http_version=req['http_version'])
    if req['client'] is None:
        del scope['client']
    events = A.body_events(b(req['body']), chunks=req['chunks'])
    return scope, events


def _cookie_dict(value):
    """Cookie header value -> ordered dict when it is exactly '; '.join('k=v') with unique simple names."""
    out = {}
    for part in value.split('; '):
        k, sep, v = part.partition('=')
        if not sep or not re.match(r'^[A-Za-z0-9_]+$', k) or not re.match(r'^[A-Za-z0-9_.-]*$', v) or k in out:
            return None
        out[k] = v
    return out or None


_PD_PAIR = re.compile(r'^([A-Za-z0-9]+)=([A-Za-z0-9]+(?:,[A-Za-z0-9]+)*)$')


def _params_dict(query):
    """'k=v&k=v2&j=w' / 'k=v,v2' -> (dict, params_csv) when the query is exactly what the documented
    params= encoding produces for that dict (unreserved characters only, repeats of a key adjacent)."""
    if not query:
        return None
    out, csv, repeated, last = {}, False, False, None
    for part in query.split('&'):
        m = _PD_PAIR.match(part)
        if not m:
            return None
        k, v = m.group(1), m.group(2)
        if ',' in v:
            if k in out:
                return None
            csv = True
            out[k] = v.split(',')
        elif k in out:
            if k != last:
                return None
            repeated = True
            out[k] = (out[k] if isinstance(out[k], list) else [out[k]]) + [v]
        else:
            out[k] = v
        last = k
    if csv and repeated:
        return None     # params_csv applies to every list at once
    return out, csv


def sim_kwargs(req, default_ua):
    """abstract request -> simulate_request(**kwargs), or (None, reason) when not expressible.

    Documented behaviour of the simulators relied on here: they always add a User-Agent when none is
    given, they add a Host header derived from host/port/scheme unless http_version is 1.0, they set
    Content-Length from the body, values are stripped, and WSGI responses go through wsgiref.validate.
    """
    st = req.get('sim') or {}
    t = req['target']
    try:
        path = b(t).decode('utf-8')
    except UnicodeDecodeError:
        return None, 'target is not UTF-8 text'
    if not path.startswith('/') or '?' in path:
        return None, 'target shape'
    if not req['query'].isascii():
        return None, 'raw 8-bit query'
    inline = bool(st.get('inline_query'))
    if req['query'].startswith('?'):
        # create_environ / create_scope raise ValueError for it, also when it arrives inline in the path
        return None, 'the simulators refuse a query string starting with ?'
    if not comparable(req):
        return None, 'singleton header repeated'
    if req['method'] != req['method'].upper():
        return None, 'method case'
    cls = classes(req)
    if 'invalid-cl' in cls:
        return None, 'wsgiref.validate rejects the environ'
    for k, v in req['headers']:
        if v != v.strip() or '_' in k:
            return None, 'header shape'
    if not has_header(req, 'user-agent'):
        return None, 'simulators add a default User-Agent'
    hosts = header_values(req, 'host')
    if req['http_version'] != '1.0' and not hosts:
        return None, 'simulators add a Host header'
    body = b(req['body'])
    cl = header_values(req, 'content-length')
    if body:
        if not cl or cl[-1] != str(len(body)):
            return None, 'framing'
    headers = []
    for k, v in req['headers']:
        lk = k.lower()
        if lk == 'content-length' and body:
            if st.get('explicit_cl'):
                headers.append((k, v))
            continue                       # simulators derive it from the body
        if lk == 'host' and req['http_version'] != '1.0' and v == sim_host_value(req) and not st.get('explicit_host'):
            continue                       # same value the simulator generates
        headers.append((k, v))
    kw = {'method': req['method'], 'path': path, 'protocol': req['scheme'], 'host': req['server'][0],
          'http_version': req['http_version']}
    pd = _params_dict(req['query']) if st.get('params_dict') else None
    if inline and (req['query'] or st.get('inline_empty')):
        # documented: "The path may contain a query string" - everything after the FIRST '?' is the query
        kw['path'] = path + '?' + req['query']
        if st.get('params_empty'):
            kw['params'] = {}
    elif pd is not None:
        # documented: params= dict, lists repeated (params_csv=False) or comma-joined (params_csv=True)
        kw['params'] = pd[0]
        if pd[1] or st.get('params_csv_explicit'):
            kw['params_csv'] = pd[1]      # documented default: False (repeat the key for every list item)
    elif req['query'] or st.get('empty_query_arg'):
        kw['query_string'] = req['query']
        if st.get('params_empty'):
            kw['params'] = {}
    # documented alternative argument forms: port "may also be passed [as a string], as long as it can be parsed as an
    # int"; http_version '2.0' == '2' and '1' == '1.0'; body as str is encoded as UTF-8; a root_path without the
    # leading slash gets one
    if st.get('port_str'):
        kw['port'] = str(req['server'][1])
    elif req['server'][1] != default_port(req['scheme']) or st.get('explicit_port'):
        kw['port'] = req['server'][1]
    if st.get('http_version_alias'):
        kw['http_version'] = {'2': '2.0', '1.0': '1'}.get(req['http_version'], req['http_version'])
    if req['client'] is None:
        pass
    elif req['client'][0] == '127.0.0.1' and not st.get('explicit_remote'):
        pass
    else:
        kw['remote_addr'] = req['client'][0]
    if req['root_path']:
        if not req['root_path'].startswith('/'):
            return None, 'root_path shape'
        kw['root_path'] = req['root_path'][1:] if st.get('root_no_slash') and req['root_path'][1:2] not in ('', '/') \
            else req['root_path']
    elif st.get('empty_root_arg'):
        kw['root_path'] = ''
    if body:
        kw['body'] = body
        if st.get('body_str'):
            try:
                kw['body'] = body.decode('utf-8')
            except UnicodeDecodeError:
                pass
    elif st.get('empty_body_arg') and not cl:
        kw['body'] = b''
    if req['chunks']:
        kw['asgi_chunk_size'] = max(1, req['chunks'][0])
    names = [k for k, _ in headers]
    unique = len(set(names)) == len(names)
    if (st.get('content_type_param') or st.get('content_type_conflict')) and unique:
        cts = [(k, v) for k, v in headers if k.lower() == 'content-type']
        if len(cts) == 1:
            if st.get('content_type_conflict'):
                # documented: the content_type argument takes precedence over a Content-Type given in headers
                headers = [((k, 'text/x-decoy') if k.lower() == 'content-type' else (k, v)) for k, v in headers]
            else:
                headers = [h for h in headers if h[0].lower() != 'content-type']
            kw['content_type'] = cts[0][1]
    if st.get('json_param') and unique and body and 'content_type' not in kw:
        cts = [(k, v) for k, v in headers if k.lower() == 'content-type']
        if len(cts) == 1 and cts[0][1] == 'application/json':
            try:
                obj = json.loads(body.decode('utf-8'))
                same = obj is not None and json.dumps(obj, ensure_ascii=False).encode('utf-8') == body
            except ValueError:
                same = False
            if same:
                # documented: json= serialises the document as the body and sets Content-Type: application/json
                headers = [h for h in headers if h[0].lower() != 'content-type']
                del kw['body']
                kw['json'] = obj
    if st.get('cookies_param') and req['method'] != 'OPTIONS':
        cks = [(k, v) for k, v in headers if k.lower() == 'cookie']
        if len(cks) == 1:
            d = _cookie_dict(cks[0][1])
            if d:
                headers = [h for h in headers if h[0].lower() != 'cookie']
                kw['cookies'] = d
    ows = st.get('ows')
    if ows or st.get('none_for_empty'):
        # On the wire a field value may be surrounded by optional whitespace (SP / HTAB); a server removes it before
        # the application sees the value (RFC 9110 5.5), so the abstract request - and with it both driver legs -
        # carries the stripped value.  The simulators document the same: values are stripped, None stands for ''.
        pre, post = ows or ['', '']
        dressed = []
        for k, v in headers:
            if v == '' and st.get('none_for_empty'):
                dressed.append((k, None))
            else:
                dressed.append((k, pre + v + post))
        headers = dressed
    if st.get('headers_as_dict') and unique:
        kw['headers'] = dict(headers)
    else:
        kw['headers'] = headers
    return kw, None


# ---------------------------------------------------------------------------------- anchor

_SIMPLE_HOST = re.compile(r'^([A-Za-z0-9.-]+)(?::([0-9]{1,5}))?$')


def ref_path(req):
    p = unquote_to_bytes(b(req['target'])).decode('utf-8', 'replace') or '/'
    if req['opts'][0] and len(p) != 1 and p.endswith('/'):
        p = p[:-1]
    return p


def anchor(req, script=None):
    """Expected digest entries every leg must agree with (only where the statement/doc leaves no choice)."""
    exp = {'method': req['method'], 'path': ref_path(req), 'root_path': req['root_path'],
           'scheme': req['scheme']}
    if req['query'].isascii():
        exp['query_string'] = req['query']
    exp['remote_addr'] = req['client'][0] if req['client'] else '127.0.0.1'
    if comparable(req):
        hl = {}
        for k, v in req['headers']:
            lk = k.lower()
            if lk in hl:
                hl[lk] = hl[lk] + ',' + v
            else:
                hl[lk] = v
        exp['headers_lower'] = hl
        cl = header_values(req, 'content-length')
        if not cl or cl[0] == '':
            exp['content_length'] = None
        elif _NUM.match(cl[0]):
            exp['content_length'] = int(cl[0])
        hosts = header_values(req, 'host')
        netloc = None
        if not hosts:
            host, port = req['server']
            exp['host'], exp['port'] = host, port
            netloc = host if port == default_port(req['scheme']) else '%s:%d' % (host, port)
        else:
            m = _SIMPLE_HOST.match(hosts[0])
            if m:
                exp['host'] = m.group(1)
                exp['port'] = int(m.group(2)) if m.group(2) else default_port(req['scheme'])
                netloc = hosts[0]
        if netloc is not None and 'query_string' in exp:
            exp['netloc'] = netloc
            rel = req['root_path'] + exp['path'] + ('?' + req['query'] if req['query'] else '')
            exp['relative_uri'] = rel
            exp['uri'] = req['scheme'] + '://' + netloc + rel
            exp['prefix'] = req['scheme'] + '://' + netloc + req['root_path']
    return exp


def anchor_body(req):
    """Bytes a responder reading the whole body must obtain, or None when the framing is not plain."""
    cl = header_values(req, 'content-length')
    body = b(req['body'])
    if not comparable(req):
        return None
    if not cl:
        return b'' if not body else None
    if _NUM.match(cl[0]) and int(cl[0]) == len(body):
        return body
    return None
