"""Reference model for C04 (error handling), written from the property statement, the
public docs of App.add_error_handler / HTTPError / HTTPStatus / default error serializer and
RFC 9110 section 12.5.1 - not from falcon/app.py or falcon/app_helpers.py.

* handler registry: class -> handler id, the latest registration per class wins; the handler
  for an exception is the one registered for the first class of type(ex).__mro__ that has one.
* Accept negotiation: most specific matching media range gives the weight of a candidate,
  the candidate with the highest non-zero weight wins, JSON wins ties it takes part in.
  Anything the RFC / docs leave open gives a *weak* answer (set of allowed choices or None).
* decoders for the default JSON / XML error documents (independent parsers).
"""

import json
import re
import xml.etree.ElementTree as ET
from urllib.parse import unquote_to_bytes

JSON = 'application/json'
XML_TYPES = ('text/xml', 'application/xml')
URLENC = 'application/x-www-form-urlencoded'
MULTIPART = 'multipart/form-data'

# documented status code of every falcon.errors.HTTPError subclass (RFC 9110 / 6585 / 4918 ...)
ERROR_STATUS = {
    'HTTPBadRequest': 400, 'HTTPUnauthorized': 401, 'HTTPForbidden': 403, 'HTTPNotFound': 404,
    'HTTPRouteNotFound': 404, 'HTTPMethodNotAllowed': 405, 'HTTPNotAcceptable': 406,
    'HTTPConflict': 409, 'HTTPGone': 410, 'HTTPLengthRequired': 411, 'HTTPPreconditionFailed': 412,
    'HTTPContentTooLarge': 413, 'HTTPUriTooLong': 414, 'HTTPUnsupportedMediaType': 415,
    'HTTPRangeNotSatisfiable': 416, 'HTTPUnprocessableEntity': 422, 'HTTPLocked': 423,
    'HTTPFailedDependency': 424, 'HTTPPreconditionRequired': 428, 'HTTPTooManyRequests': 429,
    'HTTPRequestHeaderFieldsTooLarge': 431, 'HTTPUnavailableForLegalReasons': 451,
    'HTTPInternalServerError': 500, 'HTTPNotImplemented': 501, 'HTTPBadGateway': 502,
    'HTTPServiceUnavailable': 503, 'HTTPGatewayTimeout': 504, 'HTTPVersionNotSupported': 505,
    'HTTPInsufficientStorage': 507, 'HTTPLoopDetected': 508, 'HTTPNetworkAuthenticationRequired': 511,
    'HTTPInvalidHeader': 400, 'HTTPMissingHeader': 400, 'HTTPInvalidParam': 400, 'HTTPMissingParam': 400,
    'MediaNotFoundError': 400, 'MediaMalformedError': 400, 'MediaValidationError': 400,
    'MultipartParseError': 400,
}
REDIRECT_STATUS = {
    'HTTPMovedPermanently': 301, 'HTTPFound': 302, 'HTTPSeeOther': 303,
    'HTTPTemporaryRedirect': 307, 'HTTPPermanentRedirect': 308,
}


# ------------------------------------------------------------------ handler registry

class Registry:
    """class -> handler id; replay of the registration history."""

    def __init__(self, defaults):
        self.map = dict(defaults)

    def register(self, classes, hid):
        for c in classes:
            self.map[c] = hid

    def lookup(self, cls):
        for c in cls.__mro__:
            if c in self.map:
                return self.map[c]
        return None


# ------------------------------------------------------------------ Accept negotiation

_TOKEN = r"[!#$%&'*+\-.^_`|~0-9A-Za-z]+"
_RANGE = re.compile(r'^(%s|\*)/(%s|\*)$' % (_TOKEN, _TOKEN))
_QVAL = re.compile(r'^(0(\.[0-9]{0,3})?|1(\.0{0,3})?)$')


def parse_accept(header):
    """-> list of (type, subtype, q, params dict) or None when the header is outside the
    unambiguous grammar this model decides (quoted strings, bad q, '*' alone ...).  type/subtype keep
    the spelling of the header (see negotiate for how letter case is judged)."""
    if header is None:
        return [('*', '*', 1.0, {})]
    if header == '' or '"' in header or '\\' in header:
        return None
    out = []
    for part in header.split(','):
        part = part.strip(' \t')
        if not part:
            return None
        pieces = [p.strip(' \t') for p in part.split(';')]
        m = _RANGE.match(pieces[0])
        if not m:
            return None
        typ, sub = m.group(1), m.group(2)
        if typ == '*' and sub != '*':
            return None
        q, ext = 1.0, {}
        seen_q = False
        for p in pieces[1:]:
            if '=' not in p:
                return None
            name, _, val = p.partition('=')
            name, val = name.strip(' \t').lower(), val.strip(' \t')     # parameter names are case-insensitive
            if not re.match('^' + _TOKEN + '$', name) or not re.match('^' + _TOKEN + '$', val):
                return None
            if name == 'q':
                if seen_q or not _QVAL.match(val):
                    return None
                seen_q = True
                q = float(val)
            else:
                if name in ext or val != val.lower():
                    return None         # repeated parameter / value whose letter case might matter: left open
                ext[name] = val
        out.append((typ, sub, q, ext))
    return out


def parse_media_type(mt):
    """'type/subtype; a=1; b=2' -> (type, subtype, {a: '1', b: '2'})"""
    pieces = [p.strip(' \t') for p in mt.split(';')]
    typ, _, sub = pieces[0].partition('/')
    params = {}
    for p in pieces[1:]:
        name, _, val = p.partition('=')
        params[name.strip(' \t').lower()] = val.strip(' \t')
    return typ, sub, params


def _weight(cand, ranges, fold):
    """weight of a candidate media type: the q of the most specific matching range, as the public docs of
    falcon.mediatypes.quality() define "most specific" (in decreasing priority): (1) main type matches exactly
    rather than by wildcard, (2) subtype likewise, (3) parameter names and values are all the same on both
    sides, (4) the number of MATCHING parameters; parameters present on one side only do not prevent a match,
    a shared name with different values does; (5) among equally specific ranges the highest q counts.
    fold: compare type/subtype case-insensitively (RFC 9110 8.3.1) or exactly as spelled."""
    ctyp, csub, cparams = parse_media_type(cand)
    best, best_q = None, 0.0
    for typ, sub, q, params in ranges:
        if fold:
            typ, sub = typ.lower(), sub.lower()
        if typ == '*':
            m1 = 0
        elif typ == ctyp:
            m1 = 1
        else:
            continue
        if sub == '*':
            m2 = 0
        elif sub == csub:
            m2 = 1
        else:
            continue
        shared = set(params) & set(cparams)
        if any(params[k] != cparams[k] for k in shared):
            continue
        score = (m1, m2, 1 if set(params) == set(cparams) else 0, len(shared))
        if best is None or score > best:
            best, best_q = score, q
        elif score == best:
            best_q = max(best_q, q)
    return best_q if best is not None else 0.0


def negotiate(header, candidates):
    """candidates: ordered list of media types the app can produce for an error (JSON first).

    Returns a set of allowed choices (each a media type, or 'empty' for "no body"), or None when
    the model gives no answer (weak case).
    """
    ranges = parse_accept(header)
    if ranges is None:
        return None
    weights = {}
    for c in candidates:
        w = _weight(c, ranges, True)
        if w is None:
            return None
        # Letter case: media types are case-insensitive, but whether a candidate is matched by a range
        # that differs from it only in case is judged elsewhere (media-type matching, C09/C11).  The model
        # answers only when both readings give every candidate the same weight, e.g. a capitalised vendor
        # type that names no candidate either way.
        if _weight(c, ranges, False) != w:
            return None
        weights[c] = w
    top = max(weights.values()) if weights else 0.0
    suffix = set()
    for typ, sub, q, ext in ranges:
        sub = sub.lower()       # the documented "+json"/"+xml" fallback reads the structured suffix case-insensitively
        if sub.endswith('+json') or sub.endswith('+xml'):
            if q <= 0.0 or ext:
                return None     # (a parameterised or refused vendor type: the fallback's reading is left open)
            suffix.add('+json' if sub.endswith('+json') else '+xml')
    allowed = set()
    if top > 0.0:
        tops = [c for c in candidates if weights[c] == top]
        allowed = {JSON} if JSON in tops else set(tops)
    else:
        if not suffix:
            return {'empty'}
    # documented "+json"/"+xml" fallback for custom types; relative precedence against listed
    # candidates is not documented -> union
    if '+json' in suffix:
        allowed.add(JSON)
    if '+xml' in suffix:
        allowed.add('application/xml')
        allowed.add('+xml-unavailable')     # marker: see check (xml switched off and no xml handler)
    return allowed


# ------------------------------------------------------------------ decoders

class Undecodable(Exception):
    pass


def _no_dups(pairs):
    d = {}
    for k, v in pairs:
        if k in d:
            raise Undecodable('duplicate key %r in JSON object' % (k,))
        d[k] = v
    return d


def decode_json(body):
    try:
        text = body.decode('utf-8')
    except UnicodeDecodeError as ex:
        raise Undecodable('body is not UTF-8: %r' % (ex,))
    try:
        return json.loads(text, object_pairs_hook=_no_dups)
    except ValueError as ex:
        raise Undecodable('body is not JSON: %r' % (ex,))


def decode_xml_error(body):
    """<error><title/>[<description/>][<code/>][<link><text/><href/><rel/></link>]</error> -> dict
    (code stays a string)."""
    try:
        root = ET.fromstring(body)
    except ET.ParseError as ex:
        raise Undecodable('body is not well-formed XML: %r' % (ex,))
    if root.tag != 'error' or root.attrib:
        raise Undecodable('root element is %r' % (root.tag,))
    out = {}
    for child in root:
        if child.tag in out:
            raise Undecodable('duplicate element %r' % child.tag)
        if child.tag == 'link':
            link = {}
            for g in child:
                if g.tag in link or len(g):
                    raise Undecodable('bad link child %r' % g.tag)
                link[g.tag] = g.text or ''
            out['link'] = link
        else:
            if len(child):
                raise Undecodable('element %r has children' % child.tag)
            out[child.tag] = child.text or ''
    return out


_XML_OK = re.compile('^[\t\n\x20-\ud7ff\ue000-\ufffd\U00010000-\U0010ffff]*$')


def xml_representable(s):
    """characters legal in XML 1.0 documents and preserved by a conforming parser
    (CR is legal but only survives as a character reference; judged separately)."""
    return bool(_XML_OK.match(s))


_URI_OK = re.compile(r"^(?:[A-Za-z0-9\-._~:/?#\[\]@!$&'()*+,;=]|%[0-9A-Fa-f]{2})*$")


def href_faithful(got, original):
    """the rendered href is a pure-ASCII RFC 3986 string whose percent-decoding is the original."""
    if not isinstance(got, str) or not _URI_OK.match(got):
        return False
    try:
        return unquote_to_bytes(got).decode('utf-8') == original
    except UnicodeDecodeError:
        return False
