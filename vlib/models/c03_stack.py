"""C03 reference interpreter: the documented middleware / hook / responder stack discipline.

Written from docs/api/middleware.rst, docs/api/hooks.rst and the property statement
(not from falcon/app.py).  Pure Python, imports nothing from falcon.

A *script* describes an application, a *case* one request against it:

script = {
  'independent': bool,
  'comps': [{'req': style, 'rsrc': style, 'resp': style, 'startup': bool, 'shutdown': bool}, ...]
            style in None | 'plain' | 'both' | 'async_only'
              plain      - the method carries the documented name (sync for WSGI, coroutine for ASGI)
              both       - sync process_X next to coroutine process_X_async ("*_async postfix", middleware.rst)
              async_only - only process_X_async exists (invisible to a WSGI app)
  'hooks_class':  [[kind, id], ...]   outermost decorator first; kind in 'before' | 'after'
  'hooks_method': [[kind, id], ...]   outermost decorator first (all inside the class-level ones); on on_get only
  'inherit':      [responder name, ...]  responders (of 'on_get' 'on_get_f' 'on_get_items') that the routed
                                      resource class INHERITS from a base class instead of defining itself
  'hooks_base':   [[kind, id], ...]   class-level hooks applied to that base class (outermost first)
  'forms':        {responder name: 'object' | 'wrapped'}  the responder is additionally wrapped (outermost) by a
                                      transparent decorator: a callable descriptor object / a plain function
  'hook_forms':   {str(hook id): form}  how the hook action is provided ("any callable", hooks.rst): 'function',
                                      'object' (instance with __call__), 'partial', 'method' (bound method) and, on
                                      ASGI where the action is a callable returning an awaitable, also
                                      'sync_returns_coro', 'future' (Task), 'gather', 'awaitable' (__await__ object);
                                      the ASGI-only forms fall back to 'function' on WSGI.  A hook is a hook.
  'hform', 'sform': the callable form of the registered error handler / of the sink (function, object, partial,
                                      method, falsy_object = a callable object whose truth value is False)
  'hostile_exc':  the application errors have __str__/__repr__ that raise
  'exc_shape':    how the raised "app error with handler" relates to the class the handler is registered for:
                                      'direct' (that class), 'subclass', 'second_base' (class X(Other, Registered)),
                                      'diamond'; the handler registered for a class in the MRO handles it
  'refused'['repeat']: the refused batch additionally repeats component <index> that is already registered
  comps[i]['falsy']: the component object's truth value is False
  'refused':      {'why': 'cors'|'nomethods'|'compat', 'order': 0|1, 'reprepare': bool}: right after construction an
                                      add_middleware() call is made that the framework refuses with an exception
                                      (payload: an extra, otherwise valid component numbered 90 plus an unacceptable
                                      one); the refused components are not part of the stack: they never appear in
                                      any trace, and later add_middleware() calls work as usual
  'mw_arg', 'cors': how the middleware argument is spelled (list/tuple/iter/bare component) and whether
                                      cors_enable is set - neither changes what is expected of the user's stack
  comps[i]['lform']: how the lifespan handlers are provided (method/static/classmethod/instance attribute/
                                      callable object) - a handler is a handler
            hooks.rst: a hook applied to a resource class applies to *all* responders of the class - inherited
            ones included.  So for a responder the order is: hooks_class (of the routed class), then - if the
            responder lives on the base class - hooks_base, then hooks_method (on_get), then the responder.
}
case = {
  'stack': 'wsgi' | 'asgi',
  'kind': 'route' | 'field' | 'suffix' | 'options' | 'nomethod' | 'falsy' | 'sink' | 'unrouted'
          | 'm:<METHOD>' | 'ms:<METHOD>'   (another HTTP / WebDAV / custom method, plain or suffixed route),
  'actions': {site: action},     site: 'M<i>.req' 'M<i>.rsrc' 'M<i>.resp' 'B<id>' 'A<id>' 'R' 'S'
  'hactions': [action, ...],     action of the k-th invocation of the custom error handler (cyclic)
}
action in 'ret' | 'complete' | 'http_error' | 'http_status' | 'app_handled' | 'app_unhandled'
       | 'reroute:<kind>' (request methods only, GET kinds only: assigns req.path = the path of that kind)
handler action in 'ret' | 'http_error' | 'http_status'

Trace events (tuples), identical in shape to what the generated application objects record:
  ('req',  i, variant)
  ('rsrc', i, variant, resource_tag, params_items)
  ('resp', i, variant, resource_tag, req_succeeded)
  ('before', id, resource_tag) ('after', id, resource_tag)
  ('R', responder_name, kwargs_items) ('S', kwargs_items)
  ('H', site_that_raised)
"""

RAISING = ('http_error', 'http_status', 'app_handled', 'app_unhandled')

# Methods a resource may implement (docs/api/routing.rst: RFC 7231 + PATCH, the WebDAV set, and
# any method named in FALCON_CUSTOM_HTTP_METHODS); written down here from the RFCs, not read from falcon.
HTTP_EXTRA = ('DELETE', 'PATCH', 'POST', 'HEAD', 'TRACE', 'CONNECT')          # PUT is left unimplemented (405)
WEBDAV = ('CHECKIN', 'CHECKOUT', 'COPY', 'LOCK', 'MKCOL', 'MOVE', 'PROPFIND', 'PROPPATCH', 'REPORT',
          'UNCHECKIN', 'UNLOCK', 'UPDATE', 'VERSION-CONTROL')
CUSTOM = ('FOO', 'BAR')
SUFFIXED_EXTRA = ('REPORT', 'DELETE', 'FOO')                                  # also implemented as on_<m>_items


def responder_name(method, suffix=None):
    return 'on_' + method.lower() + ('_' + suffix if suffix else '')


def all_responders():
    names = ['on_get', 'on_get_f', 'on_get_items']
    names += [responder_name(m) for m in HTTP_EXTRA + WEBDAV + CUSTOM]
    names += [responder_name(m, 'items') for m in SUFFIXED_EXTRA]
    return names


def method_class(method):
    return 'webdav' if method in WEBDAV else 'custom' if method in CUSTOM else 'http'


# request kind -> (route matched?, resource tag, route fields, responder class)
_KINDS = {
    'route':    (True, 'res', (), 'on_get'),
    'field':    (True, 'res', (('x', '7'),), 'on_get_f'),
    'suffix':   (True, 'res', (), 'on_get_items'),
    'options':  (True, 'res', (), 'auto_options'),
    'nomethod': (True, 'res', (), '405'),
    'falsy':    (True, 'falsy', (), 'on_get'),
    'sink':     (False, None, (('tail', 'abc'),), 'sink'),
    'unrouted': (False, None, (), '404'),
}


def kind_info(kind):
    """'m:<METHOD>' = that method on the plain route, 'ms:<METHOD>' = on the suffixed route."""
    if kind.startswith('m:'):
        return (True, 'res', (), responder_name(kind[2:]))
    if kind.startswith('ms:'):
        return (True, 'res', (), responder_name(kind[3:], 'items'))
    return _KINDS[kind]


GET_KINDS = ('route', 'field', 'suffix', 'falsy', 'sink', 'unrouted')       # same method, different paths


def kind_request(kind):
    """-> (HTTP method, path)"""
    if kind.startswith('m:'):
        return kind[2:], '/r'
    if kind.startswith('ms:'):
        return kind[3:], '/i'
    return {'route': ('GET', '/r'), 'field': ('GET', '/f/7'), 'suffix': ('GET', '/i'), 'options': ('OPTIONS', '/r'),
            'nomethod': ('PUT', '/r'), 'falsy': ('GET', '/z'), 'sink': ('GET', '/s/abc'),
            'unrouted': ('GET', '/nope')}[kind]


STATUS_HANDLER_RET = 290


def variant(stack, style):
    """Which implementation a stack must call for a method declared with `style`."""
    if style is None:
        return None
    if stack == 'wsgi':
        return {'plain': 'sync', 'both': 'sync', 'async_only': None}[style]
    return {'plain': 'async', 'both': 'async_suffix', 'async_only': 'async_suffix'}[style]


def effective(script, stack):
    """[(index, {'req': variant|None, 'rsrc': ..., 'resp': ...})] for components that take part in
    request processing on this stack (a component need not implement all methods; a missing one is a noop)."""
    out = []
    for i, c in enumerate(script['comps']):
        v = {m: variant(stack, c.get(m)) for m in ('req', 'rsrc', 'resp')}
        out.append((i, v))
    return out


def site_codes(script):
    """Deterministic numbering of raise sites -> distinct status codes (shared with the app compiler)."""
    sites = []
    for i in range(len(script['comps'])):
        sites += ['M%d.req' % i, 'M%d.rsrc' % i, 'M%d.resp' % i]
    for kind, hid in (list(script.get('hooks_class', ())) + list(script.get('hooks_base', ())) +
                      list(script.get('hooks_method', ()))):
        sites.append(('B%d' if kind == 'before' else 'A%d') % hid)
    sites += ['R', 'S']
    return {s: n for n, s in enumerate(sites)}


SYNC_HOOK_FORMS = ('function', 'object', 'partial', 'method', 'falsy_object')
ASYNC_ONLY_HOOK_FORMS = ('sync_returns_coro', 'future', 'gather', 'awaitable')


def hook_form(script, stack, hid):
    f = (script.get('hook_forms') or {}).get(str(hid)) or 'function'
    if stack == 'wsgi' and f in ASYNC_ONLY_HOOK_FORMS:
        return 'function'
    return f


def responder_hooks(script, responder):
    """Hook stack (outermost first) in front of a responder of the routed resource class."""
    hooks = list(script.get('hooks_class', ()))
    if responder in script.get('inherit', ()):
        hooks += list(script.get('hooks_base', ()))
    if responder == 'on_get':
        hooks += list(script.get('hooks_method', ()))
    return hooks


def error_status(codes, site):
    return 400 + codes[site]


def status_status(codes, site):
    return 210 + codes[site]


class _Interp:
    def __init__(self, script, case):
        self.script, self.case = script, case
        self.codes = site_codes(script)
        self.trace = []
        self.status = 200
        self.raised = False          # anything raised so far
        self.complete = False
        self.hcount = 0
        self.classes = set()         # branch classes for coverage counters

    # one call site: returns 'ret' | 'complete' | 'raise'
    def call(self, site, event, may_complete=True):
        self.trace.append(event)
        a = self.case['actions'].get(site, 'ret')
        if a == 'ret':
            return 'ret'
        if a == 'complete':
            return 'complete'
        if a.startswith('reroute:'):
            # middleware.rst: "a request can be effectively re-routed by setting [req.path] to a new value from
            # within process_request()" - routing happens after the request methods and uses what they left
            self.kind = a.split(':', 1)[1]
            self.classes.add('reroute.%s->%s' % (self.case['kind'], self.kind))
            return 'ret'
        self.raised = True
        self.handle(site, a)
        return 'raise'

    def handle(self, site, a):
        """The exception goes to its handler: default handlers for HTTPError/HTTPStatus/Exception
        update the response; the registered handler for the app error is a call site of its own and
        may itself raise HTTPError/HTTPStatus, which the framework then uses to update the response."""
        if a == 'http_error':
            self.status = error_status(self.codes, site)
        elif a == 'http_status':
            self.status = status_status(self.codes, site)
        elif a == 'app_unhandled':
            self.status = 500
            if self.script.get('hostile_exc'):
                self.classes.add('hostile.unhandled')
        elif a == 'app_handled':
            self.trace.append(('H', site))
            self.classes.add('hform.' + (self.script.get('hform') or 'function'))
            self.classes.add('excshape.' + (self.script.get('exc_shape') or 'direct'))
            if self.script.get('hostile_exc'):
                self.classes.add('hostile.handled')
            ha = self.case['hactions'][self.hcount % len(self.case['hactions'])] if self.case.get('hactions') else 'ret'
            self.hcount += 1
            if ha == 'ret':
                self.status = STATUS_HANDLER_RET
            elif ha == 'http_error':
                self.status = 460 + (self.hcount - 1) % 10
            elif ha == 'http_status':
                self.status = 270 + (self.hcount - 1) % 10
            self.classes.add('handler.' + ha)

    def default_raise(self, status):
        self.raised = True
        self.status = status

    def run(self):
        script, case = self.script, self.case
        stack = case['stack']
        comps = effective(script, stack)
        independent = script['independent']
        self.kind = case['kind']
        resource = None
        queued = []          # dependent mode: response methods whose own and earlier request methods did not raise

        # 1. request methods, top-down, until one completes or raises
        for i, v in comps:
            if v['req'] and not self.complete and not self.raised:
                r = self.call('M%d.req' % i, ('req', i, v['req']))
                if r == 'complete':
                    self.complete = True
                    self.classes.add('shortcircuit.req')
                elif r == 'raise':
                    self.classes.add('raise.req')
            if not independent and v['resp'] and not self.raised:
                queued.insert(0, (i, v))
        req_phase_raised = self.raised

        # 2. routing, only if nothing completed or raised; by the path the request methods left in req.path
        matched, rtag, fields, responder = kind_info(self.kind)
        kind = self.kind
        routed = not self.complete and not self.raised
        if routed and matched:
            resource = rtag

        # 3. resource methods only after a successful route match
        if routed and matched:
            for i, v in comps:
                if v['rsrc'] and not self.complete and not self.raised:
                    r = self.call('M%d.rsrc' % i, ('rsrc', i, v['rsrc'], rtag, tuple(fields)))
                    if r == 'complete':
                        self.complete = True
                        self.classes.add('shortcircuit.rsrc')
                    elif r == 'raise':
                        self.classes.add('raise.rsrc')

        # 4. the responder (with its hooks) only if nothing completed or raised
        if routed and not self.complete and not self.raised:
            self.classes.add('responder.' + responder)
            if responder.startswith('on_'):
                hooks = responder_hooks(script, responder)
                form = (script.get('forms') or {}).get(responder)
                if form:
                    # the responder is wrapped by a third-party style decorator (callable descriptor object or
                    # plain function wrapper); it is still the responder, hooks apply as usual
                    self.classes.add('form.' + form)
                    if script.get('hooks_class'):
                        self.classes.add('form.%s.classhook' % form)
                    if responder in script.get('inherit', ()) and script.get('hooks_class'):
                        self.classes.add('form.%s.classhook.inherited' % form)
                if kind.startswith('m'):
                    mc = method_class(kind.split(':')[1])
                    self.classes.add('method.' + mc)
                    if script.get('hooks_class'):
                        self.classes.add('classhook.' + mc + ('.suffixed' if kind.startswith('ms:') else ''))
                if responder in script.get('inherit', ()):
                    for kind, _ in script.get('hooks_class', ()):
                        self.classes.add('inherit.class_' + kind)
                    if script.get('hooks_base'):
                        self.classes.add('inherit.base_hook')
                    ck = [k for k, _ in script.get('hooks_class', ())]
                    if ck and ck[-1] == 'after':
                        self.classes.add('inherit.class_after_innermost')
                elif script.get('hooks_class'):
                    self.classes.add('own.class_hook')
                self.responder_stack(hooks, 0, responder, rtag, dict(fields))
            elif responder == 'sink':
                self.classes.add('sform.' + (script.get('sform') or 'function'))
                self.call('S', ('S', tuple(fields)))
            elif responder == '404':
                self.default_raise(404)
            elif responder == '405':
                self.default_raise(405)
            elif responder == 'auto_options':
                pass

        # 5. response methods bottom-up, exactly once each
        if independent:
            todo = [(i, v) for i, v in reversed(comps) if v['resp']]
        else:
            todo = queued
            if req_phase_raised:
                self.classes.add('dependent.req_raise')
                if len(todo) < len([1 for _, v in comps if v['resp']]):
                    self.classes.add('dependent.resp_dropped')
        n_resp = 0
        for i, v in todo:
            ok = not self.raised
            r = self.call('M%d.resp' % i, ('resp', i, v['resp'], resource, ok))
            n_resp += 1
            if r == 'raise':
                self.classes.add('raise.resp')
                if n_resp < len(todo):
                    self.classes.add('raise.resp.then_more')
                if n_resp == 2 and not independent:
                    self.classes.add('dependent.second_resp_fault')
                if n_resp == 2:
                    self.classes.add('second_resp_fault')
        return self

    def responder_stack(self, hooks, k, responder, rtag, kwargs):
        """before hooks outermost-first, then the responder, then after hooks innermost-first;
        an exception anywhere skips the rest.  Returns False when something raised."""
        if k == len(hooks):
            return self.call('R', ('R', responder, tuple(sorted(kwargs.items())))) != 'raise'
        kind, hid = hooks[k]
        if kind == 'before':
            self.classes.add('hookform.%s.before' % hook_form(self.script, self.case['stack'], hid))
            if self.call('B%d' % hid, ('before', hid, rtag)) == 'raise':
                self.classes.add('raise.before')
                return False
            return self.responder_stack(hooks, k + 1, responder, rtag, kwargs)
        if not self.responder_stack(hooks, k + 1, responder, rtag, kwargs):
            self.classes.add('after.skipped')
            return False
        self.classes.add('hookform.%s.after' % hook_form(self.script, self.case['stack'], hid))
        if self.call('A%d' % hid, ('after', hid, rtag)) == 'raise':
            self.classes.add('raise.after')
            return False
        return True


def interpret(script, case):
    """-> (expected trace, expected final status, branch classes)"""
    it = _Interp(script, case).run()
    return it.trace, it.status, it.classes


# ---------------------------------------------------------------- lifespan

def interpret_lifespan(script, lactions, late=None):
    """lactions: {'M<i>.startup'|'M<i>.shutdown': 'ret'|'raise'}.
    late: None, or {'n': k, 'when': 'between'} / {'n': k, 'when': 'startup', 'by': i}: the last k components are
    registered with App.add_middleware() only after the lifespan scope was opened - between startup and
    shutdown, or from inside component i's process_startup.  App.add_middleware: "invoked, in order, as if
    they had been appended to the original middleware list".
    -> (expected handler trace, expected sequence of event types sent to the server)
    Startup handlers in registration order; shutdown handlers in reverse; the first failure is
    reported (lifespan.*.failed) and stops the sequence.  A server does not ask a failed
    application to shut down, so after startup.failed nothing more happens."""
    trace, sent = [], []
    comps = script['comps']
    n = len(comps)
    present = n - (late['n'] if late else 0)       # components registered so far
    i = 0
    while i < present:
        c = comps[i]
        if c.get('startup'):
            trace.append(('startup', i))
            if late and late['when'] == 'startup' and late['by'] == i:
                present = n                          # appended: they follow in the same order
            if (lactions.get('M%d.startup' % i) or '').startswith('raise'):
                sent.append('lifespan.startup.failed')
                return trace, sent
        i += 1
    sent.append('lifespan.startup.complete')
    if late and late['when'] == 'between':
        present = n                                  # too late for startup, in time for shutdown
    for i in reversed(range(present)):
        if comps[i].get('shutdown'):
            trace.append(('shutdown', i))
            if (lactions.get('M%d.shutdown' % i) or '').startswith('raise'):
                sent.append('lifespan.shutdown.failed')
                return trace, sent
    sent.append('lifespan.shutdown.complete')
    return trace, sent
