"""Reference model and parsers for C15 (response headers as a case-insensitive map, cookies).

Written from the property statement, RFC 6265 (Set-Cookie / Cookie, user-agent algorithm of
section 5.2/5.3), RFC 7231 (HTTP-date), RFC 8288 (Link), RFC 6266 + RFC 8187 (Content-Disposition,
ext-value) and the public docs of falcon.Response - not from falcon's code.  No falcon import.
"""

import re

from vlib.models import uri as U

DAYS = ['Mon', 'Tue', 'Wed', 'Thu', 'Fri', 'Sat', 'Sun']
MONTHS = ['Jan', 'Feb', 'Mar', 'Apr', 'May', 'Jun', 'Jul', 'Aug', 'Sep', 'Oct', 'Nov', 'Dec']

TCHAR = frozenset("!#$%&'*+-.^_`|~0123456789ABCDEFGHIJKLMNOPQRSTUVWXYZabcdefghijklmnopqrstuvwxyz")
# RFC 8187 attr-char
ATTR_CHAR = frozenset("!#$&+-.^_`|~0123456789ABCDEFGHIJKLMNOPQRSTUVWXYZabcdefghijklmnopqrstuvwxyz")

_DATE = re.compile(r'^(Mon|Tue|Wed|Thu|Fri|Sat|Sun), (\d{2}) (Jan|Feb|Mar|Apr|May|Jun|Jul|Aug|Sep|Oct|Nov|Dec) '
                   r'(\d{4}) (\d{2}):(\d{2}):(\d{2}) GMT$')


# ---------------------------------------------------------------- dates

def utc_tuple(dt):
    """(Y, M, D, h, m, s) of the instant in UTC; a naive datetime is taken as it is."""
    if dt.tzinfo is not None:
        dt = (dt - dt.utcoffset()).replace(tzinfo=None)
    return (dt.year, dt.month, dt.day, dt.hour, dt.minute, dt.second)


def _weekday(y, m, d):
    # Sakamoto; 0 = Monday
    t = [0, 3, 2, 5, 0, 3, 5, 1, 4, 6, 2, 4]
    if m < 3:
        y -= 1
    return ((y + y // 4 - y // 100 + y // 400 + t[m - 1] + d) + 6) % 7


def http_date(dt):
    """IMF-fixdate (RFC 7231 7.1.1.1), the same form RFC 6265 calls rfc1123-date."""
    y, mo, d, h, mi, s = utc_tuple(dt)
    return '%s, %02d %s %04d %02d:%02d:%02d GMT' % (DAYS[_weekday(y, mo, d)], d, MONTHS[mo - 1], y, h, mi, s)


def parse_http_date(s):
    """-> (Y, M, D, h, m, s) or None; the weekday must be the right one."""
    m = _DATE.match(s or '')
    if not m:
        return None
    d, mo, y = int(m.group(2)), MONTHS.index(m.group(3)) + 1, int(m.group(4))
    h, mi, sec = int(m.group(5)), int(m.group(6)), int(m.group(7))
    if not (1 <= d <= 31 and h < 24 and mi < 60 and sec < 61):
        return None
    if DAYS[_weekday(y, mo, d)] != m.group(1):
        return None
    return (y, mo, d, h, mi, sec)


# ---------------------------------------------------------------- the header map

class HeaderModel:
    """dict on lower-cased names + list of raw cookie lines + ordered cookie jar."""

    def __init__(self):
        self.plain = {}          # lower name -> value (str)
        self.raw_cookies = []    # values given to append_header('Set-Cookie', v)
        self.jar = {}            # cookie name (case-sensitive) -> dict(kind, value, kw, sticky)

    @staticmethod
    def key(name):
        return name.lower()

    def is_cookie(self, name):
        return name.lower() == 'set-cookie'

    def get(self, name, default=None):
        return self.plain.get(name.lower(), default)

    def set(self, name, value):
        self.plain[name.lower()] = str(value)

    def delete(self, name):
        self.plain.pop(name.lower(), None)


def appended_ok(old, new, got):
    """append on an existing header: old value, a comma, optional whitespace, new value."""
    if got is None or not got.startswith(old + ','):
        return False
    rest = got[len(old) + 1:]
    if not rest.endswith(new):
        return False
    return rest[:len(rest) - len(new)].strip(' \t') == ''


# ---------------------------------------------------------------- Set-Cookie (RFC 6265 5.2)

def parse_set_cookie(line):
    """User-agent reading of one Set-Cookie line -> (name, value, [(attr-name-lower, value|None)]) or None."""
    parts = line.split(';')
    nv = parts[0]
    if '=' not in nv:
        return None
    name, value = nv.split('=', 1)
    name, value = name.strip(' \t'), value.strip(' \t')
    if not name:
        return None
    attrs = []
    for p in parts[1:]:
        p = p.strip(' \t')
        if not p:
            continue
        if '=' in p:
            k, v = p.split('=', 1)
            attrs.append((k.strip(' \t').lower(), v.strip(' \t')))
        else:
            attrs.append((p.lower(), None))
    return name, value, attrs


def expected_cookie_attrs(kw, secure_default):
    """Attributes a cookie written by set_cookie(**kw) must carry: exactly the requested ones.

    value None = flag attribute; ('date', tuple) = an HTTP date of that instant; ('ci', s) = compare
    case-insensitively.
    """
    exp = {}
    if kw.get('expires') is not None:
        exp['expires'] = ('date', utc_tuple(kw['expires']))
    if kw.get('max_age') is not None:
        exp['max-age'] = str(int(kw['max_age']))
    if kw.get('domain'):
        exp['domain'] = kw['domain']
    if kw.get('path'):
        exp['path'] = kw['path']
    secure = kw.get('secure')
    if secure is None:
        secure = secure_default
    if secure:
        exp['secure'] = None
    if kw.get('http_only', True):
        exp['httponly'] = None
    if kw.get('same_site'):
        exp['samesite'] = ('ci', kw['same_site'])
    if kw.get('partitioned'):
        exp['partitioned'] = None
    return exp


PAST = ('past',)


def attr_matches(want, got):
    if want is None:
        return got is None
    if want is PAST:
        return got is not None and parse_http_date(got) is not None
    if isinstance(want, tuple) and want[0] == 'date':
        return got is not None and parse_http_date(got) == want[1]
    if isinstance(want, tuple) and want[0] == 'ci':
        return got is not None and got.lower() == want[1].lower()
    return got == want


def diff_attrs(expected, attrs):
    """-> list of discrepancies between an expected attribute dict and parsed attribute pairs."""
    out = []
    seen = {}
    for k, v in attrs:
        if k in seen:
            out.append(('duplicate', k))
        seen[k] = v
    for k, want in expected.items():
        if k not in seen:
            out.append(('missing', k))
        elif not attr_matches(want, seen[k]):
            out.append(('wrong', k, seen[k]))
    for k in seen:
        if k not in expected:
            out.append(('unexpected', k, seen[k]))
    return out


def ua_store(lines, now_tuple):
    """RFC 6265 5.3 in miniature: process Set-Cookie lines in order -> {(name, domain, path): value}."""
    store = {}
    for line in lines:
        p = parse_set_cookie(line)
        if p is None:
            continue
        name, value, attrs = p
        d = {}
        for k, v in attrs:
            d[k] = v          # the last attribute of a name wins
        expired = False
        ma = d.get('max-age')
        if ma is not None and re.match(r'^-?\d+$', ma):
            expired = int(ma) <= 0
        elif d.get('expires') is not None:
            t = parse_http_date(d['expires'])
            if t is not None:
                expired = t <= now_tuple
        key = (name, (d.get('domain') or '').lower().lstrip('.'), d.get('path') or '')
        if expired:
            store.pop(key, None)
        else:
            store[key] = value
    return store


# ---------------------------------------------------------------- generic parameter parsing

def _parse_params(s, i, allow_bare=True):
    """'; name[=token|quoted-string]' * from s[i:] -> (list of (name, value|None, was_quoted), problem)."""
    n = len(s)
    params = []
    while i < n:
        while i < n and s[i] in ' \t':
            i += 1
        if i >= n:
            break
        if s[i] != ';':
            return params, 'expected ";" at %d in %r' % (i, s)
        i += 1
        while i < n and s[i] in ' \t':
            i += 1
        j = i
        while j < n and s[j] in TCHAR:
            j += 1
        if j == i:
            return params, 'empty parameter name at %d in %r' % (i, s)
        name = s[i:j]
        i = j
        if i < n and s[i] == '=':
            i += 1
            if i < n and s[i] == '"':
                i += 1
                buf = []
                closed = False
                while i < n:
                    c = s[i]
                    if c == '\\' and i + 1 < n:
                        buf.append(s[i + 1])
                        i += 2
                        continue
                    if c == '"':
                        closed = True
                        i += 1
                        break
                    buf.append(c)
                    i += 1
                if not closed:
                    return params, 'unterminated quoted-string in %r' % s
                params.append((name, ''.join(buf), True))
            else:
                j = i
                # token, or (ext-value) attr-chars with % and '
                while j < n and (s[j] in TCHAR or s[j] in "%'"):
                    j += 1
                if j == i:
                    return params, 'empty parameter value at %d in %r' % (i, s)
                params.append((name, s[i:j], False))
                i = j
        else:
            if not allow_bare:
                return params, 'parameter %r without a value in %r' % (name, s)
            params.append((name, None, False))
    return params, None


def parse_ext_value(v):
    """RFC 8187 ext-value -> (charset, language, text, problem)."""
    parts = v.split("'")
    if len(parts) != 3:
        return None, None, None, 'ext-value does not have two single quotes: %r' % v
    charset, lang, enc = parts
    i, n = 0, len(enc)
    while i < n:
        c = enc[i]
        if c == '%':
            if n - i < 3 or enc[i + 1] not in U.HEXS or enc[i + 2] not in U.HEXS:
                return charset, lang, None, 'malformed pct-encoded in ext-value %r' % v
            i += 3
        elif c in ATTR_CHAR:
            i += 1
        else:
            return charset, lang, None, 'character %r not allowed in ext-value %r' % (c, v)
    return charset, lang, U.ref_decode(enc, False), None


def parse_link_value(s):
    """One RFC 8288 link-value -> (target, params, problem)."""
    s = s.strip(' \t')
    if not s.startswith('<'):
        return None, [], 'link-value does not start with "<": %r' % s
    j = s.find('>')
    if j < 0:
        return None, [], 'no ">" in %r' % s
    target = s[1:j]
    params, problem = _parse_params(s, j + 1)
    return target, params, problem


def parse_content_disposition(s):
    """-> (type, params, problem)."""
    i, n = 0, len(s)
    while i < n and s[i] in TCHAR:
        i += 1
    if i == 0:
        return None, [], 'no disposition type in %r' % s
    params, problem = _parse_params(s, i, allow_bare=False)
    return s[:i], params, problem


# ---------------------------------------------------------------- URI-bearing values

def preescaped(s, value=False):
    """The caller handed in something that already is a URI made only of allowed characters and
    well-formed escapes (at least one): the docs treat that as 'already encoded'."""
    return '%' in s and U.fully_escaped(s, value)


def uri_problem(original, emitted, value=False):
    """None when `emitted` is pure ASCII, made of URI characters / escapes only, and decodes to `original`."""
    if not isinstance(emitted, str):
        return 'not a str: %r' % (emitted,)
    if not emitted.isascii():
        return 'not ASCII'
    if preescaped(original, value):
        return None
    if not U.wellformed_output(emitted, value, upper_only=False):
        return 'characters outside the URI alphabet'
    if U.ref_decode(emitted, False) != original:
        return 'does not decode to the original'
    return None


def reserved_escaped(emitted):
    """RFC 3986 2.2: a reserved character and its percent-encoded form are not equivalent, so a
    URI-bearing header must leave the delimiters of the URI it was given alone.  Returns a problem
    text when `emitted` contains an escape of a reserved ASCII character."""
    i, n = 0, len(emitted)
    while i < n:
        if emitted[i] == '%' and n - i >= 3 and emitted[i + 1] in U.HEXS and emitted[i + 2] in U.HEXS:
            b = int(emitted[i + 1:i + 3], 16)
            if b < 0x80 and chr(b) in U.RESERVED:
                return 'reserved character %r was percent-encoded (a different URI, RFC 3986 2.2)' % chr(b)
            i += 3
        else:
            i += 1
    return None
