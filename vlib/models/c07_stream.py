"""Reference model for C07 (request body streams): what the property statement allows, operation by operation.

Written from the statement of C07, PEP 3333 (wsgi.input), the ASGI HTTP spec (http.request: `body`
optional, default b''; `more_body` optional, default False; http.disconnect) and the public
docs of req.bounded_stream / req.stream - not from falcon's code.  No falcon import.

The judgement is deliberately at the level of the statement:
  * every returned byte string must continue the expected body where the previous one stopped
    (flat cursor over wire[:Content-Length], vlib/models/cursor.py);
  * a sized read returns at most `size` bytes;
  * an empty return / StopIteration / the end of an iteration reports end-of-stream, which is only
    allowed once the whole expected body was handed out; an unsized read reads to end-of-stream;
  * a read MAY return fewer bytes than asked for as long as it makes progress (both stacks document that).
"""

from vlib.models.cursor import Cursor


def asgi_wire(events):
    """Bytes an ASGI server delivered for the request body: the `body` of every http.request event up
    to and including the first one whose more_body is false/absent, or up to an http.disconnect.
    Returns (wire, how_it_ended) with how_it_ended in 'final' | 'disconnect' | 'open'."""
    out = []
    for ev in events:
        if ev.get('type') == 'http.disconnect':
            return b''.join(out), 'disconnect'
        out.append(ev.get('body', b''))
        if not ev.get('more_body', False):
            return b''.join(out), 'final'
    return b''.join(out), 'open'


class BodyModel:
    """Cursor over the expected body + the bookkeeping the monitors need."""

    def __init__(self, wire, limit):
        self.wire = bytes(wire)
        self.limit = limit                      # declared Content-Length the stream has to honour (None: unbounded)
        self.cur = Cursor(self.wire, limit)     # expected body = wire[:limit]
        self.returned = 0                       # bytes handed to the application
        self.discarded = False                  # an exhaust()/close() threw the rest away

    @property
    def total(self):
        return len(self.cur.data)

    def rest(self):
        return self.cur.data[self.cur.pos:]

    def at_end(self):
        return self.cur.at_end()

    def limit_reached(self):
        """The declared length is known, was really sent, and has been consumed completely."""
        return self.limit is not None and len(self.wire) >= self.limit and self.cur.pos >= self.limit

    def discard_rest(self):
        self.cur.pos = len(self.cur.data)
        self.discarded = True

    def take(self, got, size=None, to_end=False, partial_ok=False, empty_ok=False):
        """Judge one byte string handed to the application.

        size: the size argument of a sized read (>= 0), else None.
        to_end: the operation is defined as reading to end-of-stream (read()/read(-1)/readall/full iteration).
        partial_ok: the server itself returned short reads, so a to_end read may stop early (but must progress).
        empty_ok: an empty result of this operation does not report end-of-stream (readlines(hint), k chunks).
        Returns a list of (kind, fatal, detail); fatal means the cursor cannot follow the stream any further.
        """
        out = []
        if not isinstance(got, (bytes, bytearray)):
            return [('returned-not-bytes', True, repr(got)[:80])]
        got = bytes(got)
        rest = self.rest()
        n = len(got)
        if got != rest[:n] or n > len(rest):
            beyond = self.wire[self.cur.pos:self.cur.pos + n] == got
            out.append(('over-read-beyond-content-length' if beyond else 'returned-bytes-not-next-in-body', True,
                        'expected next %r' % rest[:max(n, 8)]))
            return out
        self.cur.pos += n
        self.returned += n
        if size is not None and size >= 0 and n > size:
            out.append(('sized-read-exceeds-size', False, 'size %d returned %d' % (size, n)))
        if n < len(rest):
            if to_end and not (partial_ok and n > 0):
                out.append(('read-to-end-incomplete', True, '%d of %d remaining bytes' % (n, len(rest))))
            elif n == 0 and (size is None or size != 0) and not empty_ok:
                out.append(('end-of-stream-before-whole-body', True, '%d bytes never delivered' % len(rest)))
        return out

    def end_reported(self):
        """StopIteration / end of iteration / exhausted: only allowed at the end of the expected body."""
        if not self.at_end():
            return [('end-of-stream-before-whole-body', True, '%d bytes never delivered' % len(self.rest()))]
        return []
