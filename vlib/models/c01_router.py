"""Reference router for C01: a plain depth-first walk over a URI-template tree.

Written from the property statement and the routing documentation, not from
falcon/routing/compiled.py.  It never decides whether a template is acceptable
(the check observes that from the real router); it is only told which templates
were accepted, in which order.

Semantics
  * a template is '/' + segments joined by '/'; the tree is keyed by the exact
    text of a template segment; re-adding the same template replaces the route;
  * segment kinds: literal (no field expression), simple (exactly one field
    expression spanning the whole segment), multi-field/complex (anything else);
  * lookup: at each level try literal children, then complex children, then the
    simple child (insertion order inside one class); a child whose subtree does
    not produce a route is abandoned together with every value it bound;
  * a complex segment is matched as a whole with literal spans taken verbatim
    and every field matching one or more characters (greedy, leftmost);
  * a converter returning None vetoes the child;
  * a multi-segment converter (``path``) takes every remaining segment;
  * a route matches only when all request segments are consumed.
"""

import ast
import math
import re
import uuid
from datetime import datetime

LIT, CX, SIMPLE = 0, 1, 2
KIND_NAME = {LIT: 'lit', CX: 'cx', SIMPLE: 'simple'}

FIELD = re.compile(r'\{([^}:]*)(?::([^}(]*)(?:\(([^}]*)\))?)?\}')


class Unparseable(Exception):
    pass


# ---------------------------------------------------------------- converters (from the docs)

def _minmax(v, lo, hi):
    if lo is not None and v < lo:
        return None
    if hi is not None and v > hi:
        return None
    return v


def conv_int(num_digits=None, min=None, max=None, _base=10):
    def f(s):
        if num_digits is not None and len(s) != num_digits:
            return None
        if s != s.strip():
            return None
        try:
            v = int(s, _base)
        except ValueError:
            return None
        return _minmax(v, min, max)
    return f


def conv_float(min=None, max=None, finite=True):
    if finite is None:
        finite = True

    def f(s):
        if s != s.strip():
            return None
        try:
            v = float(s)
        except ValueError:
            return None
        if finite and not math.isfinite(v):
            return None
        return _minmax(v, min, max)
    return f


def conv_uuid():
    def f(s):
        try:
            return uuid.UUID(s)
        except ValueError:
            return None
    return f


def conv_dt(format_string='%Y-%m-%dT%H:%M:%S%z'):
    def f(s):
        try:
            return datetime.strptime(s, format_string)
        except ValueError:
            return None
    return f


def conv_path():
    def f(segs):
        return '/'.join(segs)
    return f


# two harness converters (the check registers classes with the same behaviour in the real router)
def conv_veto():
    def f(s):
        return None if s.startswith('n') else 'V:' + s
    return f


def conv_rest():
    def f(segs):
        return None if 'no' in segs else tuple(segs)
    return f


def conv_hexint(num_digits=None, min=None, max=None):
    return conv_int(num_digits, min, max, _base=16)


def conv_veto_alt():
    def f(s):
        return None if s.startswith('o') else 'W:' + s
    return f


def make_conv_tag(prefix, veto_first):
    def conv_tag(upper=False):
        def f(s):
            if s.startswith(veto_first):
                return None
            return prefix + (s.upper() if upper else s)
        return f
    return conv_tag


# A converter table belongs to ONE router: the built-ins plus what was registered on that router.
CONVERTERS = {          # name -> (factory, consumes the remaining segments): the check's standard profile
    'int': (conv_int, False), 'float': (conv_float, False), 'uuid': (conv_uuid, False),
    'dt': (conv_dt, False), 'path': (conv_path, True), 'veto': (conv_veto, False), 'rest': (conv_rest, True),
    # two harness converters whose classes share one __name__ but behave differently
    'tagA': (make_conv_tag('A:', 'a'), False), 'tagB': (make_conv_tag('B:', 'b'), False),
    # harness converter that may run user code (e.g. register a route) while a lookup is in flight
    'plug': (lambda: (lambda s: None if s.startswith('n') else 'P:' + s), False),
    # harness converter whose constructor can be made to fail once (compile-time fault); when it works:
    # harness converter with a REQUIRED constructor argument: accepts multiples of `factor`
    'mult': (lambda factor: (lambda s: (int(s) if re.fullmatch(r'-?[0-9]{1,17}', s) and int(s) % factor == 0 else None)), False),
    'flaky': (lambda tag='F': (lambda s: None if s.startswith('n') else tag + ':' + s), False),
}
# the check's alternative profile: 'int' and 'veto' replaced on that router, 'hex' added
CONVERTERS_ALT = dict(CONVERTERS, int=(conv_hexint, False), veto=(conv_veto_alt, False), hex=(conv_hexint, False))


def parse_args(argstr):
    if argstr is None:
        return (), {}
    try:
        call = ast.parse('f(%s)' % argstr, mode='eval').body
        args = tuple(ast.literal_eval(a) for a in call.args)
        kwargs = {k.arg: ast.literal_eval(k.value) for k in call.keywords}
    except Exception as ex:  # noqa
        raise Unparseable('converter arguments %r: %r' % (argstr, ex))
    return args, kwargs


# ---------------------------------------------------------------- segments and tree

class Seg:
    __slots__ = ('raw', 'kind', 'parts', 'fields', 'regex', 'multi')

    def __init__(self, raw, table=None):
        table = CONVERTERS if table is None else table
        self.raw = raw
        self.parts = []          # ('lit', text) | ('field', name, convname, argstr)
        pos = 0
        for m in FIELD.finditer(raw):
            if m.start() > pos:
                self.parts.append(('lit', raw[pos:m.start()]))
            self.parts.append(('field', m.group(1), m.group(2) or None, m.group(3)))
            pos = m.end()
        if pos < len(raw):
            self.parts.append(('lit', raw[pos:]))
        nfields = sum(1 for p in self.parts if p[0] == 'field')
        self.fields = []
        self.regex = None
        self.multi = False
        if nfields == 0:
            self.kind = LIT
            return
        self.kind = SIMPLE if len(self.parts) == 1 else CX
        rx = []
        for p in self.parts:
            if p[0] == 'lit':
                rx.append(re.escape(p[1]))
                continue
            _, name, cname, argstr = p
            conv = None
            if cname is not None:
                if cname not in table:
                    raise Unparseable('converter %r is not registered on this router' % cname)
                factory, multi = table[cname]
                a, kw = parse_args(argstr)
                try:
                    conv = factory(*a, **kw)
                except Exception as ex:  # noqa
                    raise Unparseable('converter %s(%r): %r' % (cname, argstr, ex))
                if multi:
                    self.multi = True
                if any(k in ('min', 'max') and v == 0 for k, v in kw.items()):
                    cname += '@0'       # coverage label only: the converter has a bound of zero
            self.fields.append((name, conv, cname))
            rx.append('(?P<%s>.+)' % name)
        if self.kind == CX:
            try:
                self.regex = re.compile(''.join(rx))
            except re.error as ex:
                raise Unparseable('segment %r: %r' % (raw, ex))


class Node:
    __slots__ = ('seg', 'children', 'route')

    def __init__(self, seg):
        self.seg = seg
        self.children = []
        self.route = None        # (resource, template)


def split_template(template):
    return template[1:].split('/') if template.startswith('/') else template.split('/')


class Trace:
    """What the walk did on the last lookup (for coverage classes only)."""
    __slots__ = ('abandoned', 'vetoes', 'swallow', 'leak', 'via')

    def __init__(self):
        self.abandoned = []      # kinds of children entered and then abandoned
        self.vetoes = []         # converter names that vetoed
        self.swallow = 0         # segments taken by a multi-segment converter
        self.leak = False        # an abandoned child had bound at least one value
        self.via = []            # (abandoned kind, kind of the sibling that finally matched)


class Model:
    def __init__(self, table=None):
        self.table = dict(CONVERTERS if table is None else table)
        self.roots = []
        self.templates = []      # accepted, in order
        self.last_resource = None
        self.trace = Trace()

    # -- building
    def add(self, template, resource):
        segs = [Seg(s, self.table) for s in split_template(template)]      # may raise Unparseable (before any change)
        nodes = self.roots
        node = None
        for seg in segs:
            for n in nodes:
                if n.seg.raw == seg.raw:
                    node = n
                    break
            else:
                node = Node(seg)
                nodes.append(node)
                nodes.sort(key=lambda n: n.seg.kind)             # stable: insertion order inside a class
            nodes = node.children
        overridden = node.route is not None
        node.route = (resource, template)
        self.templates.append(template)
        return overridden

    def has_prefix(self, raw_segs):
        nodes = self.roots
        for raw in raw_segs:
            for n in nodes:
                if n.seg.raw == raw:
                    nodes = n.children
                    break
            else:
                return False
        return True

    # -- lookup
    def find(self, path):
        """-> (resource, template, params) or None."""
        self._segs = path[1:].split('/') if path.startswith('/') else path.split('/')
        self.trace = Trace()
        r = self._walk(self.roots, 0, {})
        self.last_resource = None if r is None else r[0]
        return r

    def _walk(self, nodes, i, params):
        segs = self._segs
        n = len(segs)
        if i >= n:
            return None
        seg = segs[i]
        tr = self.trace
        left = []                    # kinds abandoned at this level
        for node in nodes:
            s = node.seg
            k = s.kind
            if k == LIT:
                if seg != s.raw:
                    continue
                new = params
            elif k == CX:
                m = s.regex.fullmatch(seg)
                if m is None:
                    continue
                new = dict(params)
                ok = True
                for name, conv, cname in s.fields:
                    v = m.group(name)
                    if conv is not None:
                        v = conv(v)
                        if v is None:
                            tr.vetoes.append(cname)
                            ok = False
                            break
                    new[name] = v
                if not ok:
                    left.append('veto')
                    continue
            else:
                name, conv, cname = s.fields[0]
                if s.multi:
                    v = conv(segs[i:])
                    if v is None:
                        tr.vetoes.append(cname)
                        left.append('veto')
                        continue
                    if node.route is not None:
                        new = dict(params)
                        new[name] = v
                        tr.swallow = n - i
                        for a in left:
                            tr.via.append((a, 'multi'))
                        return node.route[0], node.route[1], new
                    continue
                if conv is None:
                    v = seg
                else:
                    v = conv(seg)
                    if v is None:
                        tr.vetoes.append(cname)
                        left.append('veto')
                        continue
                new = dict(params)
                new[name] = v
            r = None
            if i == n - 1:
                if node.route is not None:
                    r = (node.route[0], node.route[1], new)
            else:
                r = self._walk(node.children, i + 1, new)
            if r is not None:
                for a in left:
                    tr.via.append((a, KIND_NAME[k]))
                return r
            kn = KIND_NAME[k]
            left.append(kn)
            tr.abandoned.append(kn)
            if new is not params:
                tr.leak = True
        return None
