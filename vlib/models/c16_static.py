"""Reference model for C16 (static routes): written from the property statement, the public
docs of App.add_static_route and RFC 3986 / RFC 7233 / RFC 9110 - not from falcon/routing/static.py.

It answers, for one request against a list of configured static routes and a known tree:
  * which route (if any) is responsible (documented: prefix match on whole segments, LIFO);
  * what kind of spelling the remainder of the path is (escaping, refused, plain, other);
  * which file inside the directory the remainder denotes lexically (POSIX, no symlinks);
  * what a Range header asks for, given the file size (RFC 7233 section 2.1 / 4);
  * whether If-Modified-Since makes the request "not modified" (RFC 9110 13.1.3).
"""

import calendar
import re

HEXD = b'0123456789abcdefABCDEF'


# ------------------------------------------------------------------ request target -> path

def pct_decode(raw):
    """RFC 3986 percent-decoding of a byte string (malformed escapes stay literal)."""
    out = bytearray()
    i, n = 0, len(raw)
    while i < n:
        c = raw[i]
        if c == 0x25 and i + 2 < n and raw[i + 1] in HEXD and raw[i + 2] in HEXD:
            out.append(int(raw[i + 1:i + 3], 16))
            i += 3
        else:
            out.append(c)
            i += 1
    return bytes(out)


def decoded_path(raw_path):
    """What the application sees as the path: decoded octets read as UTF-8 (U+FFFD for junk)."""
    if isinstance(raw_path, str):
        raw_path = raw_path.encode('utf-8')
    return pct_decode(raw_path).decode('utf-8', 'replace')


# ------------------------------------------------------------------ routes

class Route:
    def __init__(self, name, prefix, directory, fallback=None, downloadable=False):
        self.name = name
        self.prefix = prefix if prefix.endswith('/') else prefix + '/'
        self.directory = directory          # real absolute path of the served directory
        self.fallback = fallback            # real absolute path of the fallback file or None
        self.downloadable = downloadable

    def matches(self, path):
        if path.startswith(self.prefix):
            return True
        # documented: with a fallback file the bare prefix (no trailing slash) is answered too
        return self.fallback is not None and path == self.prefix[:-1]

    def rest(self, path):
        return path[len(self.prefix):]


def select(routes_in_registration_order, path):
    """Static routes are matched in LIFO order (docs of add_static_route)."""
    for r in reversed(routes_in_registration_order):
        if r.matches(path):
            return r
    return None


# ------------------------------------------------------------------ spelling classes

RESERVED = set('~?<>:*|\'"')
PLAIN_SEG = re.compile(r'^[A-Za-z0-9_-]+(\.[A-Za-z0-9]+)?$')


def resolve(rest):
    """Lexical POSIX resolution of `rest` below a root.

    Returns (escapes, segments): escapes is True when at any point the walk climbs above
    the root or the remainder is absolute; segments is the normalised relative path
    (list, empty == the root itself).
    """
    if rest.startswith('/'):
        return True, []
    stack = []
    for seg in rest.split('/'):
        if seg == '' or seg == '.':
            continue
        if seg == '..':
            if not stack:
                return True, []
            stack.pop()
        else:
            stack.append(seg)
    return False, stack


PATH_MAX = 4096     # POSIX: no path longer than this can name a file; the statement fixes no smaller limit


def refused_reason(rest):
    """Spellings the statement lists as never served (-> 404): doubled/leading separators,
    backslashes, control characters (C0 and C1), reserved characters, over-long remainders
    (longer than any path the file system accepts, however they would normalise)."""
    if len(rest) > PATH_MAX:
        return 'over-long'
    if rest.startswith('/') or '//' in rest:
        return 'doubled-separator'
    if '\\' in rest:
        return 'backslash'
    for ch in rest:
        o = ord(ch)
        if o < 0x20 or 0x80 <= o <= 0x9f:
            return 'control-char'
        if ch in RESERVED:
            return 'reserved-char'
    return None


def is_plain(rest):
    """A spelling nobody could object to: short, only plain segments."""
    if not rest or len(rest) > 100:
        return False
    return all(PLAIN_SEG.match(s) for s in rest.split('/'))


def classify(rest):
    """-> (cls, segments) with cls in escape | refused:<why> | root | plain | other."""
    esc, segs = resolve(rest)
    if esc:
        return 'escape', None
    why = refused_reason(rest)
    if why:
        return 'refused:' + why, None
    if not segs:
        return 'root', segs
    if is_plain(rest):
        return 'plain', segs
    return 'other', segs


# ------------------------------------------------------------------ Range (RFC 7233)

_STRICT_RANGE = re.compile(r'^bytes=(?:([0-9]+)-([0-9]*)|-([0-9]+))$')


def parse_range(value):
    """-> ('none',) | ('first', a, b_or_None) | ('suffix', n) | ('ignorable',) | ('lenient',)

    'first'/'suffix': a single RFC-valid byte range in the canonical unit spelling - the
    statement fixes the outcome.  'ignorable': another range unit - serve the whole file.
    'lenient': anything else (malformed, several ranges, last < first, '-0', odd unit case):
    the statement does not fix the outcome, only self-consistency is demanded.
    """
    if value is None:
        return ('none',)
    m = _STRICT_RANGE.match(value)
    if m and len(value) < 60:
        if m.group(3) is not None:
            n = int(m.group(3))
            return ('suffix', n) if n > 0 else ('lenient',)
        a = int(m.group(1))
        if m.group(2) == '':
            return ('first', a, None)
        b = int(m.group(2))
        return ('first', a, b) if b >= a else ('lenient',)
    unit, sep, _ = value.partition('=')
    if sep and re.match(r"^[!#$%&'*+\-.^_`|~0-9A-Za-z]+$", unit) and unit.lower() != 'bytes':
        return ('ignorable',)
    return ('lenient',)


def range_outcome(spec, size):
    """For a 'first'/'suffix' spec and a file size -> ('partial', a, b) | ('unsat',) | ('empty',).

    'empty': zero-length representation - a 206 cannot be expressed; RFC 7233 4.4 lets the
    server answer 200 with the (empty) representation or 416.
    """
    if size == 0:
        return ('empty',)
    if spec[0] == 'suffix':
        n = spec[1]
        a = size - n if n < size else 0
        return ('partial', a, size - 1)
    a, b = spec[1], spec[2]
    if a >= size:
        return ('unsat',)
    if b is None or b > size - 1:
        b = size - 1
    return ('partial', a, b)


_CONTENT_RANGE = re.compile(r'^bytes ([0-9]+)-([0-9]+)/([0-9]+)$')
_CONTENT_RANGE_UNSAT = re.compile(r'^bytes \*/([0-9]+)$')


def parse_content_range(v):
    if v is None:
        return None
    m = _CONTENT_RANGE.match(v)
    if m:
        return ('range', int(m.group(1)), int(m.group(2)), int(m.group(3)))
    m = _CONTENT_RANGE_UNSAT.match(v)
    if m:
        return ('unsat', int(m.group(1)))
    return ('bad', v)


# ------------------------------------------------------------------ HTTP-date (IMF-fixdate only)

_DAYS = ['Mon', 'Tue', 'Wed', 'Thu', 'Fri', 'Sat', 'Sun']
_MONTHS = ['Jan', 'Feb', 'Mar', 'Apr', 'May', 'Jun', 'Jul', 'Aug', 'Sep', 'Oct', 'Nov', 'Dec']
_IMF = re.compile(r'^(Mon|Tue|Wed|Thu|Fri|Sat|Sun), ([0-9]{2}) (Jan|Feb|Mar|Apr|May|Jun|Jul|Aug|Sep|Oct|Nov|Dec) '
                  r'([0-9]{4}) ([0-9]{2}):([0-9]{2}):([0-9]{2}) GMT$')


def imf_fixdate(epoch):
    y, mo, d, h, mi, s, wd, _, _ = __import__('time').gmtime(epoch)
    return '%s, %02d %s %04d %02d:%02d:%02d GMT' % (_DAYS[wd], d, _MONTHS[mo - 1], y, h, mi, s)


def parse_imf_fixdate(v):
    """-> epoch seconds for a fully consistent IMF-fixdate, else None (outcome not fixed)."""
    if v is None:
        return None
    m = _IMF.match(v)
    if not m:
        return None
    d, y, h, mi, s = int(m.group(2)), int(m.group(4)), int(m.group(5)), int(m.group(6)), int(m.group(7))
    mo = _MONTHS.index(m.group(3)) + 1
    if not (1 <= d <= calendar.monthrange(y, mo)[1] and h < 24 and mi < 60 and s < 60 and y >= 1971):
        return None
    epoch = calendar.timegm((y, mo, d, h, mi, s))
    if imf_fixdate(epoch) != v:        # wrong week day
        return None
    return epoch


def not_modified(mtime, ims_epoch):
    """HTTP dates have one-second resolution: compare the whole-second modification time."""
    return int(mtime // 1) <= ims_epoch


# ------------------------------------------------------------------ tolerant readings of a date (RFC 9110 5.6.7)

_LAX_IMF = re.compile(r'^[A-Za-z]{3},? +([0-9]{1,2}) +([A-Za-z]{3}) +([0-9]{4}) +([0-9]{2}):([0-9]{2}):([0-9]{2})(?: +(\S+))?$')
_LAX_850 = re.compile(r'^[A-Za-z]{6,9},? +([0-9]{1,2})-([A-Za-z]{3})-([0-9]{2}) +([0-9]{2}):([0-9]{2}):([0-9]{2})(?: +(\S+))?$')
_LAX_ASC = re.compile(r'^[A-Za-z]{3} +([A-Za-z]{3}) +([0-9]{1,2}) +([0-9]{2}):([0-9]{2}):([0-9]{2}) +([0-9]{4})$')
_NUM_ZONE = re.compile(r'^([+-])([0-9]{2}):?([0-9]{2})$')


def _zone_offset(label, zone_offsets):
    """Seconds east of UTC a zone token stands for, or None when nobody can tell."""
    if label is None:
        return None                      # HTTP-dates always name their zone
    up = label.upper()
    if up in ('GMT', 'UTC', 'UT', 'Z'):
        return 0
    m = _NUM_ZONE.match(label)
    if m:
        off = int(m.group(2)) * 3600 + int(m.group(3)) * 60
        return off if m.group(1) == '+' else -off
    return zone_offsets.get(up)


def ims_readings(value, zone_offsets, now_year):
    """Every instant (epoch seconds) a robust recipient may take `value` to state; empty when the
    value cannot be read as a date at all.  A 304 is only ever justified by one of these readings
    (RFC 9110 13.1.3: a field value that is not a valid HTTP-date MUST be ignored).

    * IMF-fixdate layout, names in any case, week day not cross-checked; the zone token must be one
      whose offset is known (GMT/UTC, numeric, or an abbreviation in `zone_offsets`): the instant is
      the stated wall-clock time in that zone - never that wall-clock time re-labelled as UTC;
    * RFC 850 layout: the two-digit year is read by the 50-year rule of RFC 9110 5.6.7 and, when the
      stated week day only fits the other century, also as that century;
    * asctime layout (always UTC).
    """
    if value is None:
        return set()
    v = value.strip(' \t')
    months = [m.lower() for m in _MONTHS]
    out = set()

    def instant(y, mon, d, h, mi, s, off):
        mon = mon.lower()
        if mon not in months or off is None:
            return None
        mo = months.index(mon) + 1
        if not (1 <= y <= 9999 and 1 <= d <= calendar.monthrange(y, mo)[1] and h < 24 and mi < 60 and s < 61):
            return None
        return calendar.timegm((y, mo, d, h, mi, min(s, 59))) - off

    m = _LAX_IMF.match(v)
    if m:
        r = instant(int(m.group(3)), m.group(2), int(m.group(1)), int(m.group(4)), int(m.group(5)), int(m.group(6)),
                    _zone_offset(m.group(7), zone_offsets))
        if r is not None:
            out.add(r)
    m = _LAX_850.match(v)
    if m:
        yy = int(m.group(3))
        y = 2000 + yy
        if y > now_year + 50:
            y -= 100
        off = _zone_offset(m.group(7), zone_offsets)
        for cand in (y, y - 100, y + 100):
            r = instant(cand, m.group(2), int(m.group(1)), int(m.group(4)), int(m.group(5)), int(m.group(6)), off)
            if r is None:
                continue
            wd_ok = _DAYS_FULL[calendar.weekday(cand, months.index(m.group(2).lower()) + 1, int(m.group(1)))] == \
                v.split(',')[0].strip().lower()
            if cand == y or (wd_ok and abs(cand - y) == 100):
                out.add(r)
    m = _LAX_ASC.match(v)
    if m:
        r = instant(int(m.group(6)), m.group(1), int(m.group(2)), int(m.group(3)), int(m.group(4)), int(m.group(5)), 0)
        if r is not None:
            out.add(r)
    return out


_DAYS_FULL = ['monday', 'tuesday', 'wednesday', 'thursday', 'friday', 'saturday', 'sunday']
