/* Canary extension: proves the sanitizer runtime reports inside this interpreter. */
#define PY_SSIZE_T_CLEAN
#include <Python.h>
#include <stdlib.h>
#include <limits.h>

static volatile int sink;

static PyObject *heap(PyObject *self, PyObject *args) {
    char *p = (char *)malloc(8);
    volatile int i = 8;
    p[i] = 1;                 /* one byte past the allocation */
    sink = p[i];
    free(p);
    Py_RETURN_NONE;
}

static PyObject *sgn(PyObject *self, PyObject *args) {
    volatile int a = INT_MAX;
    volatile int b = 1;
    sink = a + b;             /* signed overflow */
    Py_RETURN_NONE;
}

static PyMethodDef methods[] = {
    {"heap", heap, METH_NOARGS, ""},
    {"signed", sgn, METH_NOARGS, ""},
    {NULL, NULL, 0, NULL}};

static struct PyModuleDef mod = {PyModuleDef_HEAD_INIT, "vcanary", NULL, -1, methods};

PyMODINIT_FUNC PyInit_vcanary(void) { return PyModule_Create(&mod); }
