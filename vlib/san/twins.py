"""Build / locate the Cython twins of falcon/cyutil for twin-mode sub-runs (DESIGN.md 1.2).

mode 'asbuilt': copies of the extension modules already sitting in $FALCON_REPO/falcon/cyutil.
mode 'asan'   : ASan+UBSan rebuilds from the generated C next to them, after a canary
                extension proved that the sanitizer runtime reports in this interpreter.
"""

import glob
import os
import shutil
import subprocess
import sys
import sysconfig

from vlib import bootstrap

SUFFIX = sysconfig.get_config_var('EXT_SUFFIX') or '.cpython-312-x86_64-linux-gnu.so'
NAMES = ('uri', 'reader', 'misc')
HERE = os.path.dirname(os.path.abspath(__file__))
PY = '/venv/bin/python'


def _cyutil():
    return os.path.join(bootstrap.REPO, 'falcon', 'cyutil')


def _clang():
    for c in ('clang-14', 'clang'):
        p = shutil.which(c)
        if p:
            return p
    return None


def asan_runtime():
    cl = _clang()
    if not cl:
        return None
    out = subprocess.run([cl, '-print-file-name=libclang_rt.asan-x86_64.so'], capture_output=True, text=True).stdout.strip()
    return out if out and os.path.exists(out) else None


def env_for(mode, tdir):
    env = {'VERIF_TWIN_DIR': tdir}
    if mode == 'asan':
        env['LD_PRELOAD'] = asan_runtime()
        env['ASAN_OPTIONS'] = 'detect_leaks=0:halt_on_error=1:abort_on_error=0:exitcode=99:allocator_may_return_null=1'
        env['UBSAN_OPTIONS'] = 'print_stacktrace=1:halt_on_error=1:exitcode=99'
    return env


def _build(cl, src, out, inc):
    cmd = [cl, '-O1', '-g', '-fno-omit-frame-pointer', '-fsanitize=address,undefined',
           '-fno-sanitize-recover=undefined', '-fPIC', '-shared', '-w', '-I', inc, src, '-o', out]
    r = subprocess.run(cmd, capture_output=True, text=True, timeout=900)
    return r.returncode == 0, r.stderr[-500:]


def _canary(cl, scratch, inc):
    """The sanitizer must report on a deliberate heap overflow / signed overflow."""
    cdir = os.path.join(scratch, 'canary')
    os.makedirs(cdir, exist_ok=True)
    so = os.path.join(cdir, 'vcanary' + SUFFIX)
    ok, err = _build(cl, os.path.join(HERE, 'canary.c'), so, inc)
    if not ok:
        return False, 'canary build failed: ' + err
    env = dict(os.environ)
    env.update(env_for('asan', cdir))
    results = []
    for which, needle in (('heap', 'AddressSanitizer'), ('signed', 'runtime error')):
        r = subprocess.run([PY, '-c', 'import sys; sys.path.insert(0, %r); import vcanary; vcanary.%s()' % (cdir, which)],
                           env=env, capture_output=True, text=True, timeout=120)
        results.append(needle in r.stderr and r.returncode != 0)
    if not all(results):
        return False, 'sanitizer did not report on the canary: %r' % (results,)
    return True, ''


def prepare(mode, scratch):
    """Return (twin_dir, reason-if-None)."""
    cy = _cyutil()
    tdir = os.path.join(scratch, 'twin-' + mode)
    os.makedirs(tdir, exist_ok=True)
    if mode == 'asbuilt':
        n = 0
        for name in NAMES:
            for f in glob.glob(os.path.join(cy, name + '.*.so')):
                shutil.copy(f, tdir)
                n += 1
        if n == 0:
            return None, 'no built twin under falcon/cyutil (pure mode only)'
        return tdir, ''
    if mode == 'asan':
        cl = _clang()
        if not cl or not asan_runtime():
            return None, 'clang / asan runtime not available'
        inc = sysconfig.get_paths()['include']
        if not os.path.exists(os.path.join(inc, 'Python.h')):
            inc = subprocess.run([PY, '-c', 'import sysconfig;print(sysconfig.get_paths()["include"])'],
                                 capture_output=True, text=True).stdout.strip()
        ok, why = _canary(cl, scratch, inc)
        if not ok:
            return None, why
        procs = []
        built = 0
        for name in NAMES:
            src = os.path.join(cy, name + '.c')
            if not os.path.exists(src):
                continue
            out = os.path.join(tdir, name + SUFFIX)
            cmd = [cl, '-O1', '-g', '-fno-omit-frame-pointer', '-fsanitize=address,undefined',
                   '-fno-sanitize-recover=undefined', '-fPIC', '-shared', '-w', '-I', inc, src, '-o', out]
            procs.append((name, out, subprocess.Popen(cmd, stdout=subprocess.DEVNULL, stderr=subprocess.DEVNULL)))
        for name, out, p in procs:
            try:
                p.wait(timeout=900)
            except subprocess.TimeoutExpired:
                p.kill()
            if p.returncode == 0 and os.path.exists(out):
                built += 1
        if built == 0:
            return None, 'no generated C for the twins (falcon/cyutil/*.c absent) or build failed'
        return tdir, ''
    return None, 'unknown mode'
