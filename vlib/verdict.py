"""Counters, coverage floors, three-valued verdicts, evidence and replay files."""

import hashlib
import json
import os
import random
import time
from collections import Counter

VERIF = os.path.dirname(os.path.dirname(os.path.abspath(__file__)))
MAX_VIOLATIONS = 5          # per shard; first one decides, the rest help triage
MAX_DISTINCT = 3_000_000     # cap on remembered hashes per shard


def h64(obj):
    if not isinstance(obj, (bytes, bytearray)):
        obj = repr(obj).encode('utf-8', 'backslashreplace')
    return hashlib.blake2b(obj, digest_size=8).hexdigest()


def jsonable(o, depth=0):
    if depth > 12:
        return repr(o)
    if o is None or isinstance(o, (bool, int, float, str)):
        return o
    if isinstance(o, (bytes, bytearray)):
        return 'b:' + bytes(o).decode('latin-1').encode('unicode_escape').decode('ascii')
    if isinstance(o, dict):
        return {str(k) if not isinstance(k, str) else k: jsonable(v, depth + 1) for k, v in o.items()}
    if isinstance(o, (list, tuple, set, frozenset)):
        return [jsonable(v, depth + 1) for v in o]
    return repr(o)


class StopCheck(Exception):
    """Raised inside a check to stop early after enough violations."""


class Rec:
    def __init__(self, prop, tier, seed, shard=0, nshards=1, budget_s=20.0, known_keys=()):
        self.prop, self.tier, self.seed = prop, tier, seed
        self.shard, self.nshards = shard, nshards
        self.rng = random.Random((seed * 1000003 + shard * 7919 + 17) & 0xFFFFFFFF)
        self.t0 = time.monotonic()
        self.budget_s = budget_s
        self.counters = Counter()
        self.evaluations = 0
        self.distinct = set()
        self.buckets = {}
        self.samples = []
        self.violations = []
        self.known = {}
        self.known_keys = set(known_keys)
        self.floors = {}
        self.notes = []
        self.exhaustive = None
        self.rule = ''
        self.assumptions = []
        self.inconclusive = []

    # ---- budget
    def elapsed(self):
        return time.monotonic() - self.t0

    def time_left(self):
        return self.budget_s - self.elapsed()

    def budget_ok(self, frac=1.0):
        return self.elapsed() < self.budget_s * frac

    # ---- observation
    def count(self, key, n=1):
        self.counters[key] += n

    def case(self, nontrivial=None):
        self.evaluations += 1
        if nontrivial is not None and len(self.distinct) < MAX_DISTINCT:
            self.distinct.add(h64(nontrivial))

    def seen(self, bucket, key):
        s = self.buckets.setdefault(bucket, set())
        if len(s) < 500_000:
            s.add(h64(key))

    def sample(self, obj, cap=6):
        if len(self.samples) < cap:
            self.samples.append(jsonable(obj))

    def floor(self, counter, minimum=1):
        self.floors[counter] = max(minimum, self.floors.get(counter, 0))

    def note(self, s):
        if len(self.notes) < 50:
            self.notes.append(s)

    def mark_inconclusive(self, reason):
        self.inconclusive.append(reason)

    # ---- verdicts
    def violation(self, kind, witness, known_key=None):
        """Report a disagreement between the real code and the oracle.

        kind: short mechanism label of the monitor that fired.
        known_key: key of a known_findings.json entry the check's *narrow
        classifier* attributes this witness to (or None).
        """
        w = jsonable(witness)
        if known_key is not None and known_key in self.known_keys:
            k = self.known.setdefault(known_key, {'n': 0, 'witness': w, 'kind': kind})
            k['n'] += 1
            return
        self.counters['violations'] += 1
        if len(self.violations) < MAX_VIOLATIONS:
            self.violations.append({'kind': kind, 'witness': w, 'hashseed': os.environ.get('PYTHONHASHSEED', '0')})
        if self.counters['violations'] >= 50:
            raise StopCheck()

    def dump(self):
        return {
            'prop': self.prop, 'shard': self.shard, 'counters': dict(self.counters),
            'evaluations': self.evaluations, 'distinct': sorted(self.distinct),
            'buckets': {k: sorted(v) for k, v in self.buckets.items()},
            'samples': self.samples, 'violations': self.violations, 'known': self.known,
            'floors': self.floors, 'notes': self.notes, 'exhaustive': self.exhaustive,
            'rule': self.rule, 'assumptions': self.assumptions,
            'inconclusive': self.inconclusive, 'wall_s': self.elapsed(),
        }


def load_known(prop):
    p = os.path.join(VERIF, 'known_findings.json')
    try:
        data = json.load(open(p))
    except FileNotFoundError:
        return {}
    out = {}
    for e in data.get('findings', []):
        if e.get('property') == prop and e.get('status') == 'open':
            out[e['key']] = e
    return out


def merge(dumps):
    m = {
        'counters': Counter(), 'evaluations': 0, 'distinct': set(), 'buckets': {},
        'samples': [], 'violations': [], 'known': {}, 'floors': {}, 'notes': [],
        'exhaustive': None, 'rule': '', 'assumptions': [], 'inconclusive': [], 'wall_s': 0.0,
    }
    for d in dumps:
        m['counters'].update(d['counters'])
        m['evaluations'] += d['evaluations']
        m['distinct'].update(d['distinct'])
        for k, v in d['buckets'].items():
            m['buckets'].setdefault(k, set()).update(v)
        for s in d['samples']:
            if len(m['samples']) < 8:
                m['samples'].append(s)
        for v in d['violations']:
            v = dict(v)
            v['shard'] = d['shard']
            m['violations'].append(v)
        for k, v in d['known'].items():
            e = m['known'].setdefault(k, {'n': 0, 'witness': v['witness'], 'kind': v['kind']})
            e['n'] += v['n']
        for k, v in d['floors'].items():
            m['floors'][k] = max(v, m['floors'].get(k, 0))
        m['notes'].extend(d['notes'])
        if d['exhaustive'] is not None:
            m['exhaustive'] = d['exhaustive'] if m['exhaustive'] is None else (m['exhaustive'] and d['exhaustive'])
        m['rule'] = m['rule'] or d['rule']
        for a in d['assumptions']:
            if a not in m['assumptions']:
                m['assumptions'].append(a)
        m['inconclusive'].extend(d['inconclusive'])
        m['wall_s'] = max(m['wall_s'], d['wall_s'])
    return m


def finalize(prop, tier, seed, level, m, wall_s, extra_inconclusive=()):
    """Write evidence, print verdict lines, return exit code (0 held, 1 violated, 2 inconclusive)."""
    known_entries = load_known(prop)
    inconclusive = list(m['inconclusive']) + list(extra_inconclusive)
    unmet = {k: (m['counters'].get(k, 0), v) for k, v in m['floors'].items() if m['counters'].get(k, 0) < v}
    for k, (got, need) in sorted(unmet.items()):
        inconclusive.append('floor %s: observed %d < %d' % (k, got, need))
    if m['evaluations'] < 1 or len(m['distinct']) < 2:
        inconclusive.append('too few cases (evaluations=%d distinct_nontrivial=%d)' % (m['evaluations'], len(m['distinct'])))

    replay_paths = []
    if m['violations']:
        rdir = os.path.join(os.environ.get('VERIF_EVIDENCE_DIR') or os.path.join(VERIF, 'evidence'), 'replay')
        os.makedirs(rdir, exist_ok=True)
        for v in m['violations'][:5]:
            body = {'property': prop, 'tier': tier, 'seed': seed, 'shard': v.get('shard', 0),
                    'kind': v['kind'], 'witness': v['witness'], 'hashseed': v.get('hashseed', '0')}
            path = os.path.join(rdir, '%s-%s.json' % (prop, h64(json.dumps(body, sort_keys=True))))
            with open(path, 'w') as f:
                json.dump(body, f, indent=1, sort_keys=True)
            replay_paths.append((v['kind'], path))

    observed = {k: v for k, v in sorted(m['counters'].items())}
    for b, s in sorted(m['buckets'].items()):
        observed['distinct:' + b] = len(s)
    ev = {
        'property_id': prop, 'tier': tier, 'seed': seed, 'level': level,
        'coverage': {
            'evaluations': m['evaluations'],
            'distinct_nontrivial': len(m['distinct']),
            'rule': m['rule'],
            'samples': m['samples'] or ['(none recorded)'],
            'observed': observed,
            'floors': m['floors'],
            'exhaustive': bool(m['exhaustive']),
            'known_findings_observed': {k: v['n'] for k, v in m['known'].items()},
            'notes': m['notes'][:40],
        },
        'assumptions': m['assumptions'],
        'wall_s': round(wall_s, 2),
        'violations': len(m['violations']),
        'verdict': 'violated' if m['violations'] else ('inconclusive' if inconclusive else 'held'),
        'inconclusive_reasons': inconclusive,
    }
    evdir = os.environ.get('VERIF_EVIDENCE_DIR') or os.path.join(VERIF, 'evidence')
    os.makedirs(evdir, exist_ok=True)
    with open(os.path.join(evdir, prop + '.json'), 'w') as f:
        json.dump(ev, f, indent=1, sort_keys=True)
        f.write('\n')

    for k, v in sorted(m['known'].items()):
        e = known_entries.get(k, {})
        print('KNOWN-FINDING: property=%s %s: %s (observed %d times this run)' % (prop, k, e.get('what', v['kind']), v['n']))
    for k, e in sorted(known_entries.items()):
        if k not in m['known']:
            print('NOTE property=%s listed finding %s was not observed in this run' % (prop, k))
    if m['violations']:
        for kind, path in replay_paths:
            print('VIOLATION property=%s replay=%s kind=%s' % (prop, path, kind))
        print('  first witness: %s' % json.dumps(m['violations'][0]['witness'], sort_keys=True)[:1500])
        return 1
    if inconclusive:
        for r in inconclusive[:10]:
            print('INCONCLUSIVE property=%s reason=%s' % (prop, r))
        return 2
    print('HELD property=%s tier=%s seed=%d evaluations=%d distinct_nontrivial=%d wall_s=%.1f' % (
        prop, tier, seed, m['evaluations'], len(m['distinct']), wall_s))
    return 0
