"""Minimal ASGI WebSocket server driver + independent session automaton (not falcon.testing).

The driver plays the server side of the ASGI WebSocket protocol (asgi.readthedocs.io,
specs/www.html, "WebSocket"): it hands the application ``websocket.connect``, then the scripted
client events, and judges every event the application passes to ``send`` with a small session
automaton

    CONNECTING --accept--> OPEN --send*--> --close--> CLOSED
    CONNECTING --close--> DENIED (HTTP 403)

Semantics that matter for the verdicts:

* ``receive()`` dequeues a scripted event only at the moment it returns it (no await between
  dequeue and return), so a cancelled pending ``receive()`` never consumes a message and
  "the disconnect was handed to the application" is exact;
* when the script is exhausted the client is silent: ``receive()`` parks on a future; on the stepped
  loop (vlib.sched.aio) an application that waits there with nothing else runnable is reported
  as outcome ``'blocked'`` - no sleeping, no timeouts;
* after the application closed the connection ``receive()`` answers ``websocket.disconnect``;
* a ``{'type': 'pause'}`` marker in the client script makes the client silent at that point: pending
  timers of the application (``asyncio.wait_for(ws.receive_*(), t)`` on the virtual clock) expire first, the
  pause ends when the application is otherwise blocked for good - so a timed receive at a pause always
  times out (its ``receive()`` is cancelled while parked) and an untimed one always gets the next event;
* fault injection: the k-th ``send`` call (0-based, counting every attempt) raises; connection-lost
  kinds stay raised for every later attempt (the socket does not come back).
"""

import asyncio

from vlib.sched import aio

CONNECTING, OPEN, CLOSED, DENIED = 'CONNECTING', 'OPEN', 'CLOSED', 'DENIED'
PAUSE = 'pause'     # script marker (never handed to the application): the client stays silent here until the
                    # application has nothing left to do but wait without a deadline

# kinds of send failures.  *_lost kinds tell the application that the connection is gone.
LOST_KINDS = ('oserror', 'oserror_cause', 'ws_ok')
FAIL_KINDS = LOST_KINDS + ('runtime',)


class ServerSendError(Exception):
    """Stand-in for a server/library specific exception type (not an OSError)."""


def spec_tuple(spec_version):
    if not spec_version:
        return (2, 0)          # ASGI: spec_version is optional, default "2.0"
    return tuple(int(p) for p in spec_version.split('.'))


def make_ws_scope(raw_path='/', query='', headers=(), spec_version='2.4', subprotocols=(), scheme='ws',
                  server=('falconframework.org', 80), client=('127.0.0.1', 51234), root_path='',
                  http_version='1.1', asgi_key=True):
    """WebSocket connection scope the way uvicorn fills it."""
    from urllib.parse import unquote_to_bytes
    if isinstance(raw_path, str):
        raw_path = raw_path.encode('utf-8')
    if isinstance(query, str):
        query = query.encode('latin-1', 'replace')
    scope = {
        'type': 'websocket',
        'asgi': {'version': '3.0'},
        'http_version': http_version,
        'scheme': scheme,
        'path': unquote_to_bytes(raw_path).decode('utf-8', 'replace'),
        'raw_path': raw_path,
        'query_string': query,
        'root_path': root_path,
        'headers': [(k.lower().encode('latin-1'), v.encode('latin-1')) for k, v in headers],
        'client': client,
        'server': server,
        'subprotocols': list(subprotocols),
    }
    if spec_version is not None:
        scope['asgi']['spec_version'] = spec_version
    if not asgi_key:
        del scope['asgi']
    return scope


class WsSession:
    """One scripted WebSocket connection: fake server + protocol monitor + attempt log."""

    def __init__(self, client_events, spec_version='2.4', fail_at=None, fail_kind='oserror',
                 reject_close_codes=(), strict_subprotocols=None, rx_yield=False,
                 first_event=None, stepper=None):
        self.st = stepper or aio.shared()
        self.spec = spec_tuple(spec_version)
        self.script = [dict(e) for e in client_events]
        self.first_event = dict(first_event) if first_event is not None else {'type': 'websocket.connect'}
        self.fail_at, self.fail_kind = fail_at, fail_kind
        self.reject_close_codes = frozenset(reject_close_codes)
        self.strict_subprotocols = None if strict_subprotocols is None else list(strict_subprotocols)
        self.rx_yield = rx_yield
        # observation
        self.state = CONNECTING
        self.attempts = []          # [index, event, outcome]  outcome: 'sent' | 'raised:<kind>'
        self.sent = []              # events that were accepted by the server
        self.problems = []          # (tag, text) findings of the session automaton
        self.connect_handed = False
        self.disconnect_handed = False
        self.disconnect_code = None
        self.delivered = 0          # scripted client events handed to the application
        self.rx_calls = 0
        self.rx_after_disconnect = 0
        self.rx_parked = 0          # receive() calls that had to wait (silent or pausing client)
        self.pauses_released = 0
        self.lost = False           # a send attempt was answered with a connection-lost error
        self.lost_on = None         # type of the event whose attempt failed first
        self.close_event = None
        self.accept_event = None
        self.outcome = None
        self.exc = None
        self.pending_tasks = 0
        self.loop_errors = []
        self._waiters = []

    # ---- facts for online monitors
    def snapshot(self):
        return {'handed': self.disconnect_handed, 'code': self.disconnect_code, 'lost': self.lost,
                'state': self.state, 'n': len(self.attempts)}

    # ---- server -> application
    async def receive(self):
        self.rx_calls += 1
        if self.rx_yield:
            await asyncio.sleep(0)            # cancellation here consumes nothing
        while True:
            # from here to the return statement there is no await unless we park
            if not self.connect_handed:
                self.connect_handed = True
                if self.first_event.get('type') == 'websocket.disconnect':
                    self.disconnect_handed = True
                    self.disconnect_code = self.first_event.get('code', 1005)
                return dict(self.first_event)
            if self.disconnect_handed:
                self.rx_after_disconnect += 1
                ev = {'type': 'websocket.disconnect'}
                if self.disconnect_code is not None:
                    ev['code'] = self.disconnect_code
                return ev
            if self.state in (CLOSED, DENIED):
                # the server closed on behalf of the application: the app is told so
                self.disconnect_handed = True
                self.disconnect_code = (self.close_event or {}).get('code', 1000) if self.state == CLOSED else 1006
                return {'type': 'websocket.disconnect', 'code': self.disconnect_code}
            ev = self.script[self.delivered] if self.delivered < len(self.script) else None
            if ev is not None and ev.get('type') != PAUSE:
                self.delivered += 1
                if ev.get('type') == 'websocket.disconnect':
                    self.disconnect_handed = True
                    self.disconnect_code = ev.get('code')
                return dict(ev)
            # script exhausted, or the client pauses here: nothing to hand over yet
            self.rx_parked += 1
            fut = self.st.loop.create_future()
            self._waiters.append(fut)
            try:
                await fut                       # silent client: parked
            finally:
                if fut in self._waiters:
                    self._waiters.remove(fut)

    def release_pause(self):
        """The client speaks again (called by run() when the application can do nothing but wait)."""
        if self.delivered < len(self.script) and self.script[self.delivered].get('type') == PAUSE:
            self.delivered += 1
            self.pauses_released += 1
            self._wake()
            return True
        return False

    def _wake(self):
        for f in list(self._waiters):
            if not f.done():
                f.set_result(None)

    # ---- application -> server
    def _judge(self, ev):
        """Session automaton on an attempted event; returns list of (tag, text)."""
        out = []
        if not isinstance(ev, dict) or not isinstance(ev.get('type'), str):
            return [('shape', 'event is not a dict with a str type: %r' % (ev,))]
        t = ev['type']
        if not self.connect_handed:
            out.append(('before-connect', '%s before the first event was received' % t))
        if self.disconnect_handed:
            out.append(('after-disconnect', '%s after websocket.disconnect was handed to the application' % t))
        if self.lost:
            out.append(('after-lost', '%s attempted after send() reported the connection lost' % t))
        if t == 'websocket.accept':
            if self.state != CONNECTING:
                out.append(('accept-state', 'websocket.accept in state %s' % self.state))
            extra = set(ev) - {'type', 'subprotocol', 'headers'}
            if extra:
                out.append(('accept-keys', 'unknown keys in websocket.accept: %r' % sorted(extra)))
            sp = ev.get('subprotocol')
            if sp is not None and not isinstance(sp, str):
                out.append(('accept-subprotocol', 'subprotocol is not a str: %r' % (sp,)))
            if 'headers' in ev:
                if self.spec < (2, 1):
                    out.append(('accept-headers-spec', 'accept headers sent to a spec %s server' % (self.spec,)))
                try:
                    hs = list(ev['headers'])
                except TypeError:
                    hs = None
                    out.append(('accept-headers', 'headers is not iterable'))
                for item in hs or ():
                    try:
                        k, v = item
                    except Exception:  # noqa
                        out.append(('accept-headers', 'header item is not a pair: %r' % (item,)))
                        continue
                    if type(k) is not bytes or type(v) is not bytes:
                        out.append(('accept-headers', 'header pair is not (bytes, bytes): %r' % (item,)))
                        continue
                    if k != k.lower():
                        out.append(('accept-headers', 'header name not lower-cased: %r' % k))
                    if k.lower() == b'sec-websocket-protocol':
                        out.append(('accept-headers', 'sec-websocket-protocol passed as a header'))
        elif t == 'websocket.send':
            if self.state != OPEN:
                out.append(('send-state', 'websocket.send in state %s' % self.state))
            extra = set(ev) - {'type', 'bytes', 'text'}
            if extra:
                out.append(('send-keys', 'unknown keys in websocket.send: %r' % sorted(extra)))
            tx, bs = ev.get('text'), ev.get('bytes')
            if (tx is None) == (bs is None):
                out.append(('send-payload', 'exactly one of text/bytes must be non-None: %r' % (ev,)))
            if tx is not None and not isinstance(tx, str):
                out.append(('send-payload', 'text is %s' % type(tx).__name__))
            if bs is not None and type(bs) is not bytes:
                out.append(('send-payload', 'bytes is %s' % type(bs).__name__))
        elif t == 'websocket.close':
            if self.state not in (CONNECTING, OPEN):
                out.append(('close-state', 'websocket.close in state %s' % self.state))
            extra = set(ev) - {'type', 'code', 'reason'}
            if extra:
                out.append(('close-keys', 'unknown keys in websocket.close: %r' % sorted(extra)))
            if 'code' in ev and (not isinstance(ev['code'], int) or isinstance(ev['code'], bool)):
                out.append(('close-code', 'close code is not an int: %r' % (ev['code'],)))
            if 'reason' in ev:
                if self.spec < (2, 3):
                    out.append(('close-reason-spec', 'close reason sent to a spec %s server' % (self.spec,)))
                if ev['reason'] is not None and not isinstance(ev['reason'], str):
                    out.append(('close-reason', 'reason is not a str: %r' % (ev['reason'],)))
        else:
            out.append(('type', 'unexpected event type %r' % t))
        return out

    def _failure(self, k, ev):
        """Decide whether this attempt fails; returns (kind, exception) or None."""
        kind = None
        if self.lost:
            kind = self.lost
        elif self.fail_at is not None and k == self.fail_at:
            kind = self.fail_kind
        if kind == 'oserror':
            return kind, OSError('simulated: connection closed (attempt %d)' % k)
        if kind == 'oserror_cause':
            ex = OSError('simulated ClientDisconnected (attempt %d)' % k)
            ex.__cause__ = ServerSendError('received 1001 (going away); then sent 1001 (going away)')
            return kind, ex
        if kind == 'ws_ok':
            return kind, ServerSendError('code = 1000 (OK), no reason')
        if kind == 'runtime':
            return kind, RuntimeError('simulated transient server error (attempt %d)' % k)
        t = ev.get('type') if isinstance(ev, dict) else None
        if t == 'websocket.close' and ev.get('code', 1000) in self.reject_close_codes:
            # autobahn (Daphne) wording
            return 'invalid_close_code', ServerSendError(
                'invalid close code %r (must be 1000 or from [3000, 4999])' % (ev.get('code'),))
        if t == 'websocket.accept' and self.strict_subprotocols is not None:
            sp = ev.get('subprotocol')
            if sp is not None and sp not in self.strict_subprotocols:
                return 'subprotocol', ServerSendError(
                    'protocol accepted must be from the list client sent in its handshake')
        return None

    async def send(self, ev):
        k = len(self.attempts)
        self.problems.extend(self._judge(ev))
        rec = [k, ev, 'sent']
        self.attempts.append(rec)
        fail = self._failure(k, ev)
        if fail is not None:
            kind, ex = fail
            rec[2] = 'raised:' + kind
            if kind in LOST_KINDS and not self.lost:
                self.lost = kind
                self.lost_on = ev.get('type') if isinstance(ev, dict) else None
            raise ex
        self.sent.append(ev)
        t = ev.get('type') if isinstance(ev, dict) else None
        if t == 'websocket.accept' and self.state == CONNECTING:
            self.state = OPEN
            self.accept_event = ev
        elif t == 'websocket.close' and self.state in (CONNECTING, OPEN):
            self.state = CLOSED if self.state == OPEN else DENIED
            self.close_event = ev
            self._wake()

    # ---- run
    def run(self, app, scope, max_steps=20000):
        st = self.st
        n_err = len(st.loop_errors)
        asyncio.set_event_loop(st.loop)
        task = st.loop.create_task(app(scope, self.receive, self.send))
        while True:
            # timers (virtual time) fire only when nothing is runnable; a scripted client pause ends only
            # when, in addition, no timer is pending: the application can do nothing but wait for the client
            outcome = st.drive(task, max_steps)
            if outcome == 'blocked' and self.release_pause():
                continue
            break
        if outcome in ('blocked', 'steps'):
            task.cancel()
            for _ in range(50):
                st.step()
                if task.done():
                    break
        elif task.cancelled():
            outcome, self.exc = 'raised', asyncio.CancelledError()
        elif task.exception() is not None:
            outcome, self.exc = 'raised', task.exception()
        self.outcome = outcome
        pend = st.pending_tasks()
        self.pending_tasks = len(pend)
        self.pending_names = [getattr(t.get_coro(), '__qualname__', '?') for t in pend]
        for t in pend:
            t.cancel()
        if pend:
            for _ in range(6):
                st.step()
                if not st.pending_tasks():
                    break
        self.loop_errors = st.loop_errors[n_err:]
        del st.loop_errors[n_err:]
        return self

    def still_connected(self):
        """From what the application was told: nothing says the client went away."""
        return not self.disconnect_handed and not self.lost

    def unclosed_at_end(self):
        return self.state in (CONNECTING, OPEN) and self.still_connected()
