"""Minimal ASGI HTTP / lifespan server drivers + independent event monitors (not falcon.testing)."""

import asyncio
from urllib.parse import unquote_to_bytes

from vlib.sched import aio


def make_scope(method='GET', raw_path='/', query='', headers=(), scheme='http',
               server=('falconframework.org', 80), client=('127.0.0.1', 51234), root_path='',
               http_version='1.1', spec_version='2.1', typ='http', subprotocols=None):
    """abstract request -> scope the way uvicorn/h11 fill it (DESIGN.md C06)."""
    if isinstance(raw_path, str):
        raw_path = raw_path.encode('utf-8')
    if isinstance(query, str):
        query = query.encode('latin-1', 'replace') if not query.isascii() else query.encode('ascii')
    scope = {
        'type': typ,
        'asgi': {'version': '3.0', 'spec_version': spec_version},
        'http_version': http_version,
        'scheme': scheme,
        'path': unquote_to_bytes(raw_path).decode('utf-8', 'replace'),
        'raw_path': raw_path,
        'query_string': query,
        'root_path': root_path,
        'headers': [(k.lower().encode('latin-1'), v.encode('latin-1')) for k, v in headers],
        'client': client,
        'server': server,
    }
    if typ == 'http':
        scope['method'] = method
    else:
        scope['subprotocols'] = list(subprotocols or [])
    if spec_version is None:
        del scope['asgi']['spec_version']
    return scope


def body_events(body, chunks=None):
    """Split body into http.request events. chunks: list of sizes (sum may differ)."""
    if chunks is None:
        return [{'type': 'http.request', 'body': body, 'more_body': False}]
    evs = []
    pos = 0
    for n in chunks:
        evs.append({'type': 'http.request', 'body': body[pos:pos + n], 'more_body': True})
        pos += n
    if pos < len(body):
        evs.append({'type': 'http.request', 'body': body[pos:], 'more_body': True})
    if not evs:
        evs.append({'type': 'http.request', 'body': b'', 'more_body': True})
    evs[-1]['more_body'] = False
    return evs


class AsgiResult:
    def __init__(self):
        self.events = []          # everything the app sent
        self.status = None
        self.headers = []         # list of (bytes, bytes) as sent
        self.body = b''
        self.body_events = 0
        self.problems = []
        self.outcome = None       # done | raised | blocked | steps
        self.exc = None
        self.receive_calls = 0
        self.receive_after_script = 0   # receive() awaited after the last scripted event was delivered
        self.delivered = 0
        self.complete = False     # final body event seen
        self.send_failed_at = None
        self.loop_errors = []
        self.pending_tasks = 0
        self.sent_snapshots = []  # value of every event at the moment send() was called
        self.events_mutated_after_send = 0

    def header_values(self, name):
        n = name.lower().encode('latin-1')
        out = []
        for k, v in self.headers:
            if isinstance(k, bytes) and k.lower() == n:
                out.append(v.decode('latin-1') if isinstance(v, bytes) else v)
        return out

    def header(self, name, default=None):
        v = self.header_values(name)
        return v[0] if v else default

    def triple(self):
        hs = sorted((k.decode('latin-1').lower(), v.decode('latin-1')) for k, v in self.headers
                    if isinstance(k, bytes) and isinstance(v, bytes))
        return (self.status, hs, self.body)


def _snapshot(ev):
    """Value of an event at one moment (containers copied; bytes/str/int are immutable)."""
    if isinstance(ev, dict):
        return {k: _snapshot(v) for k, v in ev.items()}
    if isinstance(ev, (list, tuple)):
        return [_snapshot(v) for v in ev]
    if isinstance(ev, (bytearray, memoryview)):
        return bytes(ev)
    return ev


class HttpMonitor:
    """ASGI HTTP response-side automaton: start, body*, (last has falsy more_body), nothing after."""

    def __init__(self, res):
        self.res = res
        self.state = 'init'

    def on_send(self, ev):
        res = self.res
        if not isinstance(ev, dict) or 'type' not in ev:
            res.problems.append('event is not a dict with a type: %r' % (ev,))
            return
        t = ev['type']
        if self.state == 'done':
            res.problems.append('event %r after the final body event' % t)
            return
        if t == 'http.response.start':
            if self.state != 'init':
                res.problems.append('second http.response.start')
                return
            self.state = 'started'
            st = ev.get('status')
            if type(st) is not int or not (100 <= st <= 999):
                res.problems.append('status is not an int in range: %r' % (st,))
            else:
                res.status = st
            hs = ev.get('headers', [])
            try:
                hs = list(hs)
            except TypeError:
                res.problems.append('headers not iterable')
                hs = []
            for item in hs:
                try:
                    k, v = item
                except Exception:  # noqa
                    res.problems.append('header item is not a pair: %r' % (item,))
                    continue
                if type(k) is not bytes or type(v) is not bytes:
                    res.problems.append('header pair is not (bytes, bytes): %r' % (item,))
                    continue
                if k != k.lower():
                    res.problems.append('header name not lower-case: %r' % k)
                if not k or any(c < 33 or c > 126 or c in b'()<>@,;:\\"/[]?={}' for c in k):
                    res.problems.append('header name is not a token: %r' % k)
                if any((c < 32 and c != 9) or c == 127 for c in v):
                    res.problems.append('control character in header value: %r' % (item,))
            res.headers = [tuple(h) for h in hs if isinstance(h, (tuple, list)) and len(h) == 2]
        elif t == 'http.response.body':
            if self.state != 'started':
                res.problems.append('http.response.body before http.response.start')
                return
            b = ev.get('body', b'')
            if type(b) is not bytes:
                res.problems.append('body is %s, not bytes' % type(b).__name__)
                b = b''
            mb = ev.get('more_body', False)
            if type(mb) is not bool:
                res.problems.append('more_body is not a bool: %r' % (mb,))
            res.body += b
            res.body_events += 1
            if not mb:
                self.state = 'done'
                res.complete = True
        else:
            res.problems.append('unexpected event type %r' % t)


class TooManyEvents(Exception):
    """Raised by the driver's send() when an app keeps sending (runaway stream)."""


def run_asgi_http(app, scope, events=None, fail_send_at=None, fail_exc=OSError, stepper=None,
                  max_steps=200000, max_events=100000, disconnect_after_sends=None):
    """Drive one HTTP request. events: receive script (http.request / http.disconnect dicts).

    When the script is exhausted receive() parks until the response is complete, then
    answers http.disconnect (ASGI spec); if the app is parked there with nothing else
    runnable and the response incomplete, the outcome is 'blocked'.
    fail_send_at=k: the k-th send() call (0-based, counting every event) raises fail_exc.
    max_events: send() raises TooManyEvents (and a problem is recorded) beyond that many events.
    disconnect_after_sends=k: the client goes away once k events were sent (k=0: right after the
    request script): receive() then answers http.disconnect (a receive() parked at that moment is
    woken); send() keeps accepting (and recording) events, as the spec makes it a no-op.
    """
    st = stepper or aio.shared()
    res = AsgiResult()
    mon = HttpMonitor(res)
    script = list(events if events is not None else [{'type': 'http.request', 'body': b'', 'more_body': False}])
    state = {'i': 0, 'sends': 0, 'closed': None, 'disconnected': False}
    res.client_disconnected_at = None

    def _client_gone():
        if disconnect_after_sends is not None and not state['disconnected'] and \
                len(res.events) >= disconnect_after_sends:
            state['disconnected'] = True
            res.client_disconnected_at = len(res.events)
            if state['closed'] is not None and not state['closed'].done():
                state['closed'].set_result(None)

    async def receive():
        res.receive_calls += 1
        if state['i'] < len(script):
            ev = script[state['i']]
            state['i'] += 1
            res.delivered += 1
            if ev.get('type') == 'http.disconnect':
                state['disconnected'] = True
            return dict(ev)
        _client_gone()
        if state['disconnected']:
            return {'type': 'http.disconnect'}
        if res.complete:
            return {'type': 'http.disconnect'}
        res.receive_after_script += 1
        if state['closed'] is None:
            state['closed'] = st.loop.create_future()
        await state['closed']
        return {'type': 'http.disconnect'}

    async def send(ev):
        k = state['sends']
        state['sends'] += 1
        if fail_send_at is not None and k >= fail_send_at:
            if res.send_failed_at is None:
                res.send_failed_at = k
            raise fail_exc('simulated send failure at event %d' % k)
        if len(res.events) >= max_events:
            msg = 'more than %d events sent' % max_events
            if msg not in res.problems:
                res.problems.append(msg)
            raise TooManyEvents(msg)
        res.events.append(ev)                  # the very object the app handed over (a server may keep it queued)
        res.sent_snapshots.append(_snapshot(ev))
        mon.on_send(ev)
        _client_gone()
        if res.complete and state['closed'] is not None and not state['closed'].done():
            state['closed'].set_result(None)

    n_err = len(st.loop_errors)
    outcome, val = st.run(app(scope, receive, send), max_steps=max_steps)
    res.outcome = outcome
    if outcome == 'raised':
        res.exc = val
    # let stray tasks (disconnect watchers, ...) finish
    for _ in range(5):
        if not st.pending_tasks():
            break
        st.step()
    pend = st.pending_tasks()
    res.pending_tasks = len(pend)
    for t in pend:
        t.cancel()
    if pend:
        for _ in range(5):
            st.step()
    res.loop_errors = st.loop_errors[n_err:]
    del st.loop_errors[n_err:]
    # a server is free to consume an event after send() returned (queues, buffered writers): what it then
    # reads must still be what was sent
    for i, (ev, snap) in enumerate(zip(res.events, res.sent_snapshots)):
        now = _snapshot(ev)
        if now != snap:
            res.events_mutated_after_send += 1
            if res.events_mutated_after_send <= 3:
                res.problems.append('event %d was changed by the app after send() returned: sent %.200r, now %.200r'
                                    % (i, snap, now))
    if outcome == 'done' and fail_send_at is None:
        if mon.state == 'init':
            res.problems.append('app returned without sending http.response.start')
        elif mon.state == 'started':
            res.problems.append('app returned without a final body event')
    return res


def run_lifespan(app, fail_startup=False, stepper=None, spec_version='2.0', state_dict=None,
                 server_like=False, log=None, while_running=None):
    """Send lifespan.startup then lifespan.shutdown; returns list of events the app sent + outcome.

    while_running: optional callable invoked once, synchronously, in the period in which a server
    would be serving connections (startup was answered with lifespan.startup.complete and the app
    waits for the next lifespan event), i.e. just before lifespan.shutdown is delivered.

    server_like=True: behave like a real server after a failed startup - the receive channel stays
    open but lifespan.shutdown is never delivered once the app has sent lifespan.startup.failed
    (an app that awaits receive() again is parked: outcome 'blocked'), and shutdown is only
    delivered after startup was answered.  log: optional list that gets ('receive', type) /
    ('send', type) entries in the order they happened (to interleave with an application trace).
    """
    st = stepper or aio.shared()
    sent = []
    script = [{'type': 'lifespan.startup'}, {'type': 'lifespan.shutdown'}]
    idx = {'i': 0}
    park = {}

    def _types():
        return [e.get('type', '') for e in sent if isinstance(e, dict)]

    async def receive():
        # a server sends shutdown only after startup was answered
        if idx['i'] == 1 and not any(e.get('type', '').startswith('lifespan.startup.') for e in sent):
            pass
        if server_like and idx['i'] == 1 and 'lifespan.startup.complete' not in _types():
            # startup failed (or never answered): a server does not ask for a shutdown
            if log is not None:
                log.append(('receive', 'parked'))
            park['f'] = st.loop.create_future()
            await park['f']
        if idx['i'] < len(script):
            if while_running is not None and idx['i'] == 1 and not park.get('served') \
                    and 'lifespan.startup.complete' in _types():
                park['served'] = True
                if log is not None:
                    log.append(('serving',))
                while_running()
            if log is not None:
                log.append(('receive', script[idx['i']]['type']))
            ev = script[idx['i']]
            idx['i'] += 1
            return ev
        park['f'] = st.loop.create_future()
        await park['f']

    async def send(ev):
        sent.append(ev)
        if log is not None:
            log.append(('send', ev.get('type') if isinstance(ev, dict) else repr(ev)))

    scope = {'type': 'lifespan', 'asgi': {'version': '3.0', 'spec_version': spec_version}}
    if state_dict is not None:
        scope['state'] = state_dict
    outcome, val = st.run(app(scope, receive, send))
    return sent, outcome, val
