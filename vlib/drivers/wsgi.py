"""Minimal PEP 3333 server driver + independent PEP 3333 monitor (not falcon.testing)."""

import io
import re
import sys
from urllib.parse import unquote_to_bytes

TOKEN = re.compile(r"^[!#$%&'*+\-.^_`|~0-9A-Za-z]+$")
STATUS = re.compile(r'^\d{3} \S[^\r\n]*$')


class FakeInput:
    """wsgi.input over body + trailing bytes (a pipelined next request).

    Records every call; `limit` is the declared Content-Length (bytes at offset >= limit
    do not belong to this request).  short=k makes read(n) return at most k bytes per call.
    """

    def __init__(self, data, limit=None, trailing=b'', short=None):
        self.data = data + trailing
        self.limit = len(data) if limit is None else limit
        self.pos = 0
        self.short = short
        self.calls = []
        self.over_requests = []     # (op, size, remaining) requests reaching beyond limit
        self.served_beyond = 0      # bytes at offset >= limit handed out
        self.closed = False

    def _serve(self, op, size, end):
        remaining = max(self.limit - self.pos, 0)
        if size is None or size < 0 or size > remaining:
            self.over_requests.append((op, size, remaining))
        out = self.data[self.pos:end]
        self.pos += len(out)
        if self.pos > self.limit:
            self.served_beyond += min(len(out), self.pos - self.limit)
        self.calls.append((op, size, len(out)))
        return out

    def read(self, size=-1):
        if size is None or size < 0:
            end = len(self.data)
        else:
            n = size if self.short is None else min(size, self.short)
            end = min(self.pos + n, len(self.data))
        return self._serve('read', size, end)

    def readline(self, size=-1):
        i = self.data.find(b'\n', self.pos)
        end = len(self.data) if i < 0 else i + 1
        if size is not None and size >= 0:
            end = min(end, self.pos + size)
        return self._serve('readline', size, end)

    def readlines(self, hint=-1):
        lines = []
        total = 0
        while True:
            line = self.readline()
            if not line:
                break
            lines.append(line)
            total += len(line)
            if hint is not None and 0 < hint <= total:
                break
        return lines

    def __iter__(self):
        return self

    def __next__(self):
        line = self.readline()
        if not line:
            raise StopIteration
        return line


class FileWrapper:
    """What wsgiref.util.FileWrapper does."""

    def __init__(self, filelike, blksize=8192):
        self.filelike = filelike
        self.blksize = blksize
        if hasattr(filelike, 'close'):
            self.close = filelike.close

    def __iter__(self):
        return self

    def __next__(self):
        data = self.filelike.read(self.blksize)
        if data:
            return data
        raise StopIteration


class WsgiResult:
    def __init__(self):
        self.start_calls = []
        self.status_line = None
        self.status = None
        self.headers = []
        self.chunks = []
        self.body = b''
        self.problems = []
        self.exc = None
        self.closed_iterable = 0
        self.write_failed_at = None

    def header_values(self, name):
        name = name.lower()
        return [v for k, v in self.headers if isinstance(k, str) and k.lower() == name]

    def header(self, name, default=None):
        v = self.header_values(name)
        return v[0] if v else default

    def triple(self):
        hs = sorted((k.lower(), v) for k, v in self.headers)
        return (self.status, hs, self.body)


def make_environ(method='GET', raw_path='/', query='', headers=(), body=b'', scheme='http',
                 server=('falconframework.org', 80), client=('127.0.0.1', 51234), root_path='',
                 http_version='1.1', content_length='auto', trailing=b'', short=None,
                 file_wrapper=False, wsgi_input=None):
    """abstract request -> environ the way wsgiref/gunicorn fill it (DESIGN.md C06)."""
    if isinstance(raw_path, str):
        raw_path = raw_path.encode('utf-8')
    env = {
        'REQUEST_METHOD': method,
        'SCRIPT_NAME': root_path,
        'PATH_INFO': unquote_to_bytes(raw_path).decode('latin-1'),
        'QUERY_STRING': query,
        'SERVER_NAME': server[0],
        'SERVER_PORT': str(server[1]),
        'SERVER_PROTOCOL': 'HTTP/' + http_version,
        'REMOTE_ADDR': client[0],
        'REMOTE_PORT': str(client[1]),
        'RAW_URI': raw_path.decode('latin-1') + ('?' + query if query else ''),
        'wsgi.version': (1, 0),
        'wsgi.url_scheme': scheme,
        'wsgi.errors': io.StringIO(),
        'wsgi.multithread': False,
        'wsgi.multiprocess': False,
        'wsgi.run_once': False,
    }
    cl = None
    for k, v in headers:
        lk = k.lower()
        if lk == 'content-type':
            env['CONTENT_TYPE'] = v
        elif lk == 'content-length':
            env['CONTENT_LENGTH'] = v
            cl = v
        else:
            key = 'HTTP_' + k.upper().replace('-', '_')
            if key in env:
                env[key] = env[key] + ('; ' if lk == 'cookie' else ',') + v
            else:
                env[key] = v
    if content_length == 'auto':
        if body and cl is None:
            env['CONTENT_LENGTH'] = str(len(body))
    elif content_length is not None:
        env['CONTENT_LENGTH'] = str(content_length)
    limit = None
    try:
        limit = int(env.get('CONTENT_LENGTH', ''))
    except ValueError:
        limit = 0
    if wsgi_input is None:
        wsgi_input = FakeInput(body, limit=limit if limit is not None else 0, trailing=trailing, short=short)
    env['wsgi.input'] = wsgi_input
    if file_wrapper:
        env['wsgi.file_wrapper'] = FileWrapper
    return env


def _check_headers(res, headers):
    if not isinstance(headers, list):
        res.problems.append('headers is %s, not a list' % type(headers).__name__)
        try:
            headers = list(headers)
        except TypeError:
            return
    for item in headers:
        if not (isinstance(item, tuple) and len(item) == 2):
            res.problems.append('header item is not a 2-tuple: %r' % (item,))
            continue
        k, v = item
        if type(k) is not str or type(v) is not str:
            res.problems.append('header pair is not native str: %r' % (item,))
            continue
        if not TOKEN.match(k):
            res.problems.append('header name is not a token: %r' % k)
        try:
            v.encode('latin-1')
        except UnicodeEncodeError:
            res.problems.append('header value not latin-1: %r' % (item,))
        if any((ord(c) < 32 and c != '\t') or ord(c) == 127 for c in v):
            res.problems.append('control character in header value: %r' % (item,))
        if v != v.strip(' \t') and False:
            res.problems.append('surrounding whitespace in header value: %r' % (item,))


def run_wsgi(app, environ, fail_write_at=None, max_chunks=100000):
    """Call the app the way a PEP 3333 server does; returns WsgiResult with monitor problems.

    fail_write_at=k: the server's k-th write (0-based chunk index) fails (client went away);
    as PEP 3333 requires the server then calls close() on the iterable and stops.
    """
    res = WsgiResult()
    iterating = [False]

    def start_response(status, headers, exc_info=None):
        res.start_calls.append((status, headers, exc_info))
        if len(res.start_calls) > 1 and exc_info is None:
            res.problems.append('start_response called %d times without exc_info' % len(res.start_calls))
        if iterating[0] and res.chunks:
            res.problems.append('start_response called after body iteration produced output')
        if type(status) is not str:
            res.problems.append('status is not a native str: %r' % (status,))
        elif not STATUS.match(status):
            res.problems.append('malformed status line: %r' % (status,))
        else:
            res.status_line = status
            res.status = int(status[:3])
        _check_headers(res, headers)
        try:
            res.headers = list(headers)
        except TypeError:
            res.headers = []

        def write(data):
            res.problems.append('legacy write() callable used')
        return write

    try:
        iterable = app(environ, start_response)
    except Exception as ex:  # noqa
        res.exc = ex
        return res
    if not res.start_calls:
        # PEP 3333 allows delaying start_response until the first iteration
        pass
    try:
        try:
            iterating[0] = True
            it = iter(iterable)
            i = 0
            while True:
                try:
                    chunk = next(it)
                except StopIteration:
                    break
                if not res.start_calls:
                    res.problems.append('body chunk yielded before start_response')
                if type(chunk) is not bytes:
                    res.problems.append('yielded item is %s, not bytes' % type(chunk).__name__)
                    chunk = bytes(chunk) if isinstance(chunk, (bytearray, memoryview)) else b''
                if fail_write_at is not None and i == fail_write_at:
                    res.write_failed_at = i
                    break
                res.chunks.append(chunk)
                i += 1
                if i > max_chunks:
                    res.problems.append('more than %d chunks' % max_chunks)
                    break
        except Exception as ex:  # noqa
            res.exc = ex
    finally:
        close = getattr(iterable, 'close', None)
        if close is not None:
            try:
                close()
                res.closed_iterable += 1
            except Exception as ex:  # noqa
                res.problems.append('iterable.close() raised %r' % (ex,))
    for status, headers, _ in res.start_calls[-1:]:
        try:
            now = list(headers)
        except TypeError:
            now = None
        if now is not None and now != res.headers:
            res.problems.append('header list was changed by the app after start_response(): %.200r -> %.200r'
                                % (res.headers, now))
    if len(res.start_calls) == 0:
        res.problems.append('start_response never called')
    res.body = b''.join(res.chunks)
    return res
