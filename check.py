#!/venv/bin/python
"""check.py <Cnn> [--tier quick|thorough] [--seed N] [--replay FILE]

Parent mode: spawns shard children (fresh interpreters, PYTHONHASHSEED=0 for seed 0, derived from the run seed otherwise), merges what
their monitors observed, writes evidence/<id>.json, prints the verdict lines.
Exit 0 held / 1 violated (VIOLATION line) / 2 inconclusive.
"""

import argparse
import importlib
import json
import os
import shutil
import subprocess
import sys
import tempfile
import time

HERE = os.path.dirname(os.path.abspath(__file__))
sys.path.insert(0, HERE)
PY = '/venv/bin/python'


def child_env(extra=None):
    env = dict(os.environ)
    env['PYTHONHASHSEED'] = '0'
    env['PYTHONDONTWRITEBYTECODE'] = '1'
    env['FALCON_VERIF_HOOKS'] = '1'
    env.pop('PYTHONPATH', None)
    if extra:
        env.update(extra)
    return env


def load(prop):
    return importlib.import_module('checks.' + prop.lower())


def run_child(args):
    from vlib import bootstrap, verdict
    mod_name = 'checks.' + args.prop.lower()
    twin_dir = os.environ.get('VERIF_TWIN_DIR') or None
    bootstrap.install(twin_dir=twin_dir)
    mod = importlib.import_module(mod_name)
    shard, nshards = (int(x) for x in args.shard.split('/'))
    budget = getattr(mod, 'BUDGET', {}).get(args.tier, 20 if args.tier == 'quick' else 180)
    budget = float(os.environ.get('VERIF_BUDGET_S', budget))
    rec = verdict.Rec(args.prop, args.tier, args.seed, shard, nshards, budget_s=budget,
                      known_keys=verdict.load_known(args.prop).keys())
    rec.mode = os.environ.get('VERIF_MODE', 'pure')
    import faulthandler
    faulthandler.dump_traceback_later(budget * 6 + 240, exit=True)   # stuck case: show where, then die
    try:
        if args.replay:
            w = json.load(open(args.replay))
            if not hasattr(mod, 'replay'):
                print('replay not supported by', mod_name)
                sys.exit(3)
            mod.replay(rec, w)
        else:
            mod.run(rec)
    except verdict.StopCheck:
        pass
    bad = bootstrap.assert_source_mode()
    if bad:
        rec.mark_inconclusive('not running working-tree sources: ' + '; '.join(bad[:3]))
    with open(args.out, 'w') as f:
        json.dump(rec.dump(), f)


def main():
    ap = argparse.ArgumentParser()
    ap.add_argument('prop')
    ap.add_argument('--tier', default=os.environ.get('VERIF_TIER', 'quick'), choices=['quick', 'thorough'])
    ap.add_argument('--seed', type=int, default=int(os.environ.get('VERIF_SEED', '0') or 0))
    ap.add_argument('--replay')
    ap.add_argument('--shard')
    ap.add_argument('--out')
    args = ap.parse_args()
    args.prop = args.prop.upper()

    if args.shard:
        return run_child(args)

    from vlib import verdict
    t0 = time.monotonic()
    mod = load(args.prop)          # parent imports the check module only for its constants
    level = getattr(mod, 'LEVEL', 'exploration')
    nshards = getattr(mod, 'SHARDS', {}).get(args.tier, 4 if args.tier == 'quick' else 16)
    budget = getattr(mod, 'BUDGET', {}).get(args.tier, 20 if args.tier == 'quick' else 180)
    budget = float(os.environ.get('VERIF_BUDGET_S', budget))
    modes = getattr(mod, 'MODES', {}).get(args.tier, ['pure'])
    if args.replay:
        nshards, modes = 1, ['pure']
    scratch = tempfile.mkdtemp(prefix='verif-%s-' % args.prop)
    extra_inconclusive = []
    dumps = []
    try:
        plan = []
        for mode in modes:
            env_extra = {'VERIF_MODE': mode}
            if mode != 'pure':
                from vlib.san import twins
                tdir, why = twins.prepare(mode, scratch)
                if tdir is None:
                    print('NOTE property=%s mode %s unavailable: %s' % (args.prop, mode, why))
                    continue
                env_extra.update(twins.env_for(mode, tdir))
            for i in range(nshards):
                e = dict(env_extra)
                if args.replay:
                    try:
                        e['PYTHONHASHSEED'] = str(json.load(open(args.replay)).get('hashseed', '0'))
                    except Exception:  # noqa
                        pass
                elif args.seed:
                    # workload diversity: every run seed other than 0 also selects a str-hash seed (set / dict-of-str
                    # iteration orders differ from run to run); one value for all shards of a run, so that index-based
                    # work partitioning stays consistent; recorded in every witness and restored by --replay
                    e['PYTHONHASHSEED'] = str((args.seed * 2654435761) % 4294967295)
                plan.append((mode, i, e))
        pending = list(plan)
        running = []
        retried = {}
        maxpar = int(os.environ.get('VERIF_JOBS', os.cpu_count() or 4))
        per_child_limit = budget * 6 + 300

        def finish(mode, i, p, out, log, rc):
            log.close()
            logtxt = open(log.name, errors='replace').read()
            if rc != 0 or not os.path.exists(out):
                tail = logtxt[-3000:]
                san = ('ERROR: AddressSanitizer' in logtxt) or ('runtime error:' in logtxt)
                if san and mode != 'pure':
                    dumps.append({'prop': args.prop, 'shard': i, 'counters': {'violations': 1}, 'evaluations': 0,
                                  'distinct': [], 'buckets': {}, 'samples': [],
                                  'violations': [{'kind': 'sanitizer-report', 'witness': {'mode': mode, 'log_tail': tail}}],
                                  'known': {}, 'floors': {}, 'notes': [], 'exhaustive': None, 'rule': '',
                                  'assumptions': [], 'inconclusive': [], 'wall_s': 0.0})
                else:
                    extra_inconclusive.append('shard %s/%d ended with %r: %s' % (mode, i, rc, tail[-600:].replace('\n', ' | ')))
                return
            if logtxt.strip() and os.environ.get('VERIF_VERBOSE'):
                print(logtxt)
            d = json.load(open(out))
            d['shard'] = i
            dumps.append(d)

        while pending or running:
            while pending and len(running) < maxpar:
                mode, i, env_extra = pending.pop(0)
                out = os.path.join(scratch, 'shard-%s-%d.json' % (mode, i))
                cmd = [PY, os.path.join(HERE, 'check.py'), args.prop, '--tier', args.tier, '--seed', str(args.seed),
                       '--shard', '%d/%d' % (i, nshards), '--out', out]
                if args.replay:
                    cmd += ['--replay', args.replay]
                log = open(os.path.join(scratch, 'shard-%s-%d.log' % (mode, i)), 'w')
                p = subprocess.Popen(cmd, env=child_env(env_extra), stdout=log, stderr=subprocess.STDOUT, cwd=HERE)
                running.append((mode, i, p, out, log, time.monotonic()))
            still = []
            for mode, i, p, out, log, ts in running:
                rc = p.poll()
                if rc is None and time.monotonic() - ts > per_child_limit:
                    p.kill()
                    p.wait()
                    rc = 'watchdog'
                if rc is None:
                    still.append((mode, i, p, out, log, ts))
                elif mode == 'pure' and isinstance(rc, int) and rc < 0 and not os.path.exists(out) \
                        and retried.get((mode, i), 0) < 2:
                    # the child interpreter itself was killed by a signal (e.g. SIGSEGV inside CPython while the
                    # sys.monitoring scheduler switches threads): that says nothing about the code under test,
                    # which is pure Python in this mode - run the same deterministic shard again (at most twice)
                    retried[(mode, i)] = retried.get((mode, i), 0) + 1
                    log.close()
                    print('NOTE property=%s shard %s/%d: child interpreter died with signal %d, shard re-run (%d)'
                          % (args.prop, mode, i, -rc, retried[(mode, i)]))
                    pending.append((mode, i, next(e for m2, i2, e in plan if m2 == mode and i2 == i)))
                else:
                    finish(mode, i, p, out, log, rc)
            running = still
            if running:
                time.sleep(0.05)
        m = verdict.merge(dumps) if dumps else verdict.merge([])
        rc = verdict.finalize(args.prop, args.tier, args.seed, level, m, time.monotonic() - t0, extra_inconclusive)
    finally:
        shutil.rmtree(scratch, ignore_errors=True)
    sys.exit(rc)


if __name__ == '__main__':
    main()
