"""C14 - buffered readers behave like one flat byte buffer.  DESIGN.md section 4, C14.

Real code: falcon.util.reader.BufferedReader (pure), falcon.cyutil.reader.BufferedReader (twin modes),
falcon.asgi.reader.BufferedReader.  Oracle: vlib.models.cursor.Cursor, compared operation by operation.
Source-side monitors: sizes requested from the sync source never exceed the remaining budget, and
never more than max_stream_len bytes are taken.  State invariants are asserted after every operation.
"""

import io
import itertools
import signal
import time

from falcon.asgi.reader import BufferedReader as AsyncReader
from falcon.errors import DelimiterError
from falcon.util.reader import BufferedReader as PureSyncReader

from vlib.models.cursor import Cursor, ModelDelimiterError

LEVEL = 'exploration'
SHARDS = {'quick': 4, 'thorough': 16}
BUDGET = {'quick': 18, 'thorough': 170}
MODES = {'quick': ['pure'], 'thorough': ['pure', 'asbuilt', 'asan']}


# ------------------------------------------------------------------ sources

class SyncSource:
    def __init__(self, data, pattern, maxlen):
        self.data = data
        self.pos = 0
        self.pattern = pattern      # None or tuple of max sizes per call (cycled)
        self.k = 0
        self.maxlen = maxlen
        self.problems = []

    def read(self, size):
        budget = self.maxlen - self.pos
        if size is None or size < 0 or size > budget:
            self.problems.append(('over-request', size, budget))
        if size is None or size < 0:
            size = len(self.data)
        n = size
        if self.pattern:
            n = min(n, self.pattern[self.k % len(self.pattern)])
            self.k += 1
        out = self.data[self.pos:self.pos + n]
        self.pos += len(out)
        if self.pos > self.maxlen:
            self.problems.append(('over-read', self.pos, self.maxlen))
        return out


async def agen(data, chunking):
    pos = 0
    for n in chunking:
        yield data[pos:pos + n]
        pos += n
    if pos < len(data):
        yield data[pos:]


class AsyncSink:
    """A sink that is falsy while empty (defines __len__): readers must test `destination is not None`."""

    def __init__(self):
        self.buf = io.BytesIO()
        self.n = 0

    def __len__(self):
        return self.n

    async def write(self, data):
        self.n += len(data)
        self.buf.write(data)


class SyncSink(list):
    """A list-backed writable sink: falsy while nothing has been written."""

    def write(self, data):
        self.append(bytes(data))

    def getvalue(self):
        return b''.join(self)


def run_coro(coro):
    try:
        coro.send(None)
    except StopIteration as e:
        return e.value
    coro.close()
    raise RuntimeError('coroutine suspended (reader awaited something other than its source)')


# ------------------------------------------------------------------ applying operations

class Runaway(BaseException):
    pass


def _on_alarm(signum, frame):
    raise Runaway()


def guarded(rec, fn, witness_fn):
    """Run one case under a CPU-time guard (ITIMER_VIRTUAL: the process's own user CPU time, so that an overloaded
    machine cannot turn a slow case into a verdict). A case that normally takes about a millisecond and burns 3 s,
    and run again 30 s, of CPU without finishing is reported as a runaway (infinite loop)."""
    for limit in (3, 30):
        signal.signal(signal.SIGVTALRM, _on_alarm)
        signal.setitimer(signal.ITIMER_VIRTUAL, limit)
        try:
            return fn()
        except Runaway:
            rec.count('guard.alarm_%ds_cpu' % limit)
            continue
        finally:
            signal.setitimer(signal.ITIMER_VIRTUAL, 0)
    rec.violation('runaway-no-termination', witness_fn())
    return False


def _wrap(fn):
    try:
        return ('ok', fn())
    except (DelimiterError, ModelDelimiterError):
        return ('DelimiterError',)
    except Exception as ex:  # noqa
        return ('exc', type(ex).__name__ + ': ' + str(ex)[:200])


DFLT = 'dflt'      # "call without the optional size argument" (the documented default)


def _undefault(op):
    return tuple((-1 if a == DFLT else a) if isinstance(a, str) else a for a in op)


def _call(fn, *a):
    """Call fn with the trailing DFLT argument(s) left out."""
    a = list(a)
    while a and isinstance(a[-1], str) and a[-1] == DFLT:
        a.pop()
    return fn(*a)


def apply_model(cur, op, cs):
    op = _undefault(op)
    k = op[0]
    if k == 'read':
        return _wrap(lambda: cur.read(op[1]))
    if k == 'readall':
        return _wrap(lambda: cur.read(-1))
    if k == 'peek':
        return _wrap(lambda: cur.peek(op[1], cs))
    if k == 'read_until':
        return _wrap(lambda: cur.read_until(op[1], op[2], op[3]))
    if k in ('pipe', 'iter'):
        return _wrap(lambda: cur.read(-1))
    if k == 'exhaust':
        return _wrap(lambda: (cur.read(-1), None)[1])
    if k == 'pipe_until':
        return _wrap(lambda: cur.read_until(op[1], -1, op[2]))
    if k == 'readline':
        return _wrap(lambda: cur.readline(op[1]))
    if k == 'readlines':
        return _wrap(lambda: cur.readlines(op[1]))
    if k == 'stale_child':
        # a delimit() child finished by ONE read, the parent moves on by n bytes, the finished child is
        # touched again: it must stay at its end and take nothing from the parent
        def f():
            child = cur.child(op[1])
            a = child.read(-1)
            cur.finish_child(child)
            moved = cur.read(op[2])
            return (a, moved, b'', b'')
        return _wrap(f)
    if k == 'delimit':
        child = cur.child(op[1])
        out = []
        for cop in op[2]:
            r = apply_model(child, cop, cs)
            out.append(r)
            if r[0] != 'ok':
                break
        cur.finish_child(child)
        return ('ok', out)
    raise ValueError(op)


def apply_sync(rd, op, cs):
    k = op[0]
    if k == 'read':
        return _wrap(lambda: _call(rd.read, op[1]))
    if k == 'peek':
        return _wrap(lambda: _call(rd.peek, op[1]))
    if k == 'read_until':
        return _wrap(lambda: rd.read_until(op[1], consume_delimiter=op[3]) if op[2] == DFLT else rd.read_until(op[1], op[2], op[3]))
    if k == 'pipe':
        def f():
            b = SyncSink()
            rd.pipe(b)
            return b.getvalue()
        return _wrap(f)
    if k == 'exhaust':
        return _wrap(lambda: rd.exhaust())
    if k == 'pipe_until':
        def f():
            b = SyncSink()
            rd.pipe_until(op[1], b, op[2])
            return b.getvalue()
        return _wrap(f)
    if k == 'readline':
        return _wrap(lambda: _call(rd.readline, op[1]))
    if k == 'readlines':
        return _wrap(lambda: _call(rd.readlines, op[1]))
    if k == 'stale_child':
        def f():
            child = rd.delimit(op[1])
            a = child.read(-1)
            moved = rd.read(op[2])
            return (a, moved, child.read(-1), child.read(1))
        return _wrap(f)
    if k == 'delimit':
        def f():
            child = rd.delimit(op[1])
            out = []
            for cop in op[2]:
                r = apply_sync(child, cop, cs)
                out.append(r)
                if r[0] != 'ok':
                    break
            child.exhaust()
            return out
        return _wrap(f)
    raise ValueError(op)


def apply_async(rd, op, cs, mon=None):
    k = op[0]
    if k == 'read':
        return _wrap(lambda: run_coro(_call(rd.read, op[1])))
    if k == 'readall':
        return _wrap(lambda: run_coro(rd.readall()))
    if k == 'peek':
        return _wrap(lambda: run_coro(_call(rd.peek, op[1])))
    if k == 'read_until':
        return _wrap(lambda: run_coro(rd.read_until(op[1], consume_delimiter=op[3]) if op[2] == DFLT
                                      else rd.read_until(op[1], op[2], op[3])))
    if k == 'pipe':
        def f():
            s = AsyncSink()
            run_coro(rd.pipe(s))
            return s.buf.getvalue()
        return _wrap(f)
    if k == 'iter':
        def f():
            async def go():
                out = []
                async for chunk in rd:
                    out.append(chunk)
                return b''.join(out)
            return run_coro(go())
        return _wrap(f)
    if k == 'exhaust':
        return _wrap(lambda: run_coro(rd.exhaust()))
    if k == 'pipe_until':
        def f():
            s = AsyncSink()
            run_coro(rd.pipe_until(op[1], s, op[2]))
            return s.buf.getvalue()
        return _wrap(f)
    if k == 'stale_child':
        def f():
            child = rd.delimit(op[1])
            a = run_coro(child.read(-1))
            moved = run_coro(rd.read(op[2]))
            return (a, moved, run_coro(child.read(-1)), run_coro(child.read(1)))
        return _wrap(f)
    if k == 'delimit':
        def f():
            child = rd.delimit(op[1])
            out = []
            for cop in op[2]:
                r = apply_async(child, cop, cs)
                out.append(r)
                if r[0] != 'ok':
                    break
            run_coro(child.exhaust())
            return out
        return _wrap(f)
    raise ValueError(op)


def sync_invariants(rd):
    try:
        b, bl, bp, mr = rd._buffer, rd._buffer_len, rd._buffer_pos, rd._max_bytes_remaining
    except AttributeError:
        return None     # Cython twin: no visible state
    # NOTE: buffer_pos may legitimately overshoot buffer_len after a short read at EOF
    # (falcon/util/reader.py _read sets _buffer_pos = read_size unconditionally); the
    # results stay correct, so only the representation facts the code relies on are asserted.
    if bp < 0 or bl != len(b) or mr < 0:
        return 'buffer_pos=%d buffer_len=%d len(buffer)=%d max_remaining=%d' % (bp, bl, len(b), mr)
    return None


def async_invariants(rd):
    b, bl, bp = rd._buffer, rd._buffer_len, rd._buffer_pos
    if not (0 <= bp <= bl == len(b)):
        return 'buffer_pos=%d buffer_len=%d len(buffer)=%d' % (bp, bl, len(b))
    return None


# ------------------------------------------------------------------ one case

def case_sync(rec, cls, clsname, data, maxlen, cs, pattern, history):
    return guarded(rec, lambda: _case_sync(rec, cls, clsname, data, maxlen, cs, pattern, history),
                   lambda: {'reader': clsname, 'data': data, 'maxlen': maxlen, 'chunk_size': cs, 'pattern': pattern,
                            'history': list(history) + [('read', -1)]})


def _case_sync(rec, cls, clsname, data, maxlen, cs, pattern, history):
    src = SyncSource(data, pattern, maxlen)
    rd = cls(src.read, maxlen, cs)
    cur = Cursor(data, maxlen)
    hist = list(history) + [('read', -1)]
    for i, op in enumerate(hist):
        want = apply_model(cur, op, cs)
        got = apply_sync(rd, op, cs)
        rec.count('mon.sync.op.' + op[0])
        if got != want:
            rec.violation('sync-op-mismatch', {'reader': clsname, 'data': data, 'maxlen': maxlen, 'chunk_size': cs,
                                               'pattern': pattern, 'history': hist, 'step': i, 'op': op,
                                               'got': got, 'want': want})
            return False
        inv = sync_invariants(rd)
        if inv:
            rec.violation('sync-invariant', {'reader': clsname, 'data': data, 'maxlen': maxlen, 'chunk_size': cs,
                                             'pattern': pattern, 'history': hist, 'step': i, 'state': inv})
            return False
        if want[0] != 'ok':
            # a DelimiterError is not the end: what was read up to the cap is gone (nobody got it), the delimiter
            # check itself consumed nothing - the application may catch the error and read on
            rec.count('sync.history_ended_by_delimiter_error')
    if src.problems:
        rec.violation('sync-source-' + src.problems[0][0], {'reader': clsname, 'data': data, 'maxlen': maxlen,
                                                            'chunk_size': cs, 'pattern': pattern, 'history': hist,
                                                            'source_problems': src.problems[:3]})
        return False
    return True


def case_async(rec, data, cs, chunking, history):
    return guarded(rec, lambda: _case_async(rec, data, cs, chunking, history),
                   lambda: {'reader': 'async', 'data': data, 'chunk_size': cs, 'chunking': chunking,
                            'history': list(history)})


def _case_async(rec, data, cs, chunking, history):
    rd = AsyncReader(agen(data, chunking), chunk_size=cs)
    cur = Cursor(data)
    hist = list(history)
    if not hist or hist[-1][0] != 'iter':
        hist = hist + [('read', -1)]
    last_tell = 0
    for i, op in enumerate(hist):
        want = apply_model(cur, op, cs)
        got = apply_async(rd, op, cs)
        rec.count('mon.async.op.' + op[0])
        wit = {'reader': 'async', 'data': data, 'chunk_size': cs, 'chunking': chunking, 'history': hist,
               'step': i, 'op': op}
        if got != want:
            wit.update(got=got, want=want)
            rec.violation('async-op-mismatch', wit, known_key=_classify_async(wit))
            return False
        if want[0] != 'ok':
            rec.count('async.history_ended_by_delimiter_error')
        inv = async_invariants(rd)
        if inv:
            wit.update(state=inv)
            rec.violation('async-invariant', wit)
            return False
        t = rd.tell()
        rec.count('mon.async.tell')
        if t != cur.pos or t < last_tell:
            wit.update(tell=t, cursor=cur.pos, previous_tell=last_tell)
            rec.violation('async-tell-mismatch', wit, known_key=_classify_async(wit))
            return False
        last_tell = t
        eof = rd.eof
        if eof and not cur.at_end():
            wit.update(eof=eof, cursor=cur.pos, size=len(data))
            rec.violation('async-eof-early', wit)
            return False
        if (not eof) and cur.at_end() and op[0] in ('readall', 'pipe', 'exhaust', 'iter') or \
                ((not eof) and op[0] == 'read' and (op[1] is None or op[1] < 0)):
            wit.update(eof=eof, cursor=cur.pos, size=len(data))
            rec.violation('async-eof-late', wit)
            return False
    return True


def _classify_async(wit):
    return None


# ------------------------------------------------------------------ generators

def compositions(n, with_empty):
    """All ways to split n bytes into ordered chunk sizes (optionally with one empty chunk inserted)."""
    if n == 0:
        return [(), (0,)] if with_empty else [()]
    out = []
    for mask in range(1 << (n - 1)):
        parts, run = [], 1
        for b in range(n - 1):
            if mask >> b & 1:
                parts.append(run)
                run = 1
            else:
                run += 1
        parts.append(run)
        out.append(tuple(parts))
    if with_empty:
        extra = []
        for c in out[:4]:
            for i in range(len(c) + 1):
                extra.append(c[:i] + (0,) + c[i:])
        out.extend(extra)
    return out


def op_shapes(delims, cs, for_async):
    d0 = delims[0]
    ops = [('read', 1), ('read', 2), ('read', -1), ('read', 0), ('peek', 2), ('peek', -1),
           ('read', None), ('read', DFLT), ('peek', DFLT)]      # documented spellings of "no limit"
    for d in delims:
        if len(d) > cs:
            continue
        ops += [('read_until', d, -1, False), ('read_until', d, -1, True), ('read_until', d, 2, False),
                ('read_until', d, 1, True), ('pipe_until', d, False), ('pipe_until', d, True)]
        if d == d0:
            ops += [('read_until', d, DFLT, False)]
    if len(d0) <= cs:
        ops += [('delimit', d0, (('read', 1),)), ('delimit', d0, (('peek', 1), ('read', -1))),
                ('stale_child', d0, len(d0)), ('stale_child', d0, len(d0) + 1)]
    ops += [('exhaust',), ('pipe',)]
    if for_async:
        ops += [('readall',)]
    else:
        ops += [('readline', -1), ('readline', 2), ('readlines', -1), ('readline', DFLT), ('readlines', DFLT)]
    return ops


def random_case(rng, for_async):
    alpha = rng.choice([b'aXY', b'abXY\n', b'ab-\r\nXY', bytes(range(256))])
    cs = rng.choice([1, 2, 3, 4, 5, 7, 8, 16, 64, 8192]) if rng.random() < 0.9 else rng.randint(1, 200)
    dl = rng.randint(1, min(cs, 6))
    delim = bytes(rng.choice(alpha[-3:] if len(alpha) < 20 else b'XY-') for _ in range(dl))
    n = rng.choice([rng.randint(0, 12), rng.randint(0, 60), rng.randint(0, 600), rng.randint(0, 5000)])
    if cs == 8192 and rng.random() < 0.5:
        n = rng.randint(8000, 40000)
    parts = []
    total = 0
    while total < n:
        r = rng.random()
        if r < 0.15:
            piece = delim
        elif r < 0.3:
            piece = delim[:rng.randint(1, len(delim))]
        else:
            piece = bytes(rng.choice(alpha) for _ in range(rng.randint(1, 9)))
        parts.append(piece)
        total += len(piece)
    data = b''.join(parts)
    delims = [delim]
    if rng.random() < 0.4:
        d2 = bytes(rng.choice(alpha[-3:] if len(alpha) < 20 else b'XY-') for _ in range(rng.randint(1, min(cs, 4))))
        delims.append(d2)
    if b'\n' in alpha and not for_async:
        pass

    def rsize():
        return rng.choice([-1, 0, 1, 2, 3, cs - 1, cs, cs + 1, cs * 2, cs * 3 + 1, rng.randint(0, max(1, len(data))), None if False else -1])

    def rop(depth):
        r = rng.random()
        d = rng.choice(delims)
        if r < 0.25:
            s = rsize()
            return ('read', max(s, -1))
        if r < 0.35:
            return ('peek', rng.choice([-1, 1, 2, cs, cs + 1, rng.randint(1, cs)]))
        if r < 0.6:
            s = max(rsize(), -1)
            return ('read_until', d, s, rng.random() < 0.4)
        if r < 0.7:
            return ('pipe_until', d, rng.random() < 0.5)
        if r < 0.8 and depth < 2:
            if rng.random() < 0.25 and depth == 0:
                return ('stale_child', d, rng.choice([len(d), len(d) + 1, len(d) + cs, 0]))
            sub = tuple(rop(depth + 1) for _ in range(rng.randint(0, 3)))
            return ('delimit', d, sub)
        if r < 0.85:
            return ('readall',) if for_async else ('readline', max(rsize(), -1))
        if r < 0.9 and not for_async:
            return ('readlines', rng.choice([-1, 0, 3, 10]))
        if r < 0.93:
            return ('pipe',)
        if r < 0.95:
            return ('exhaust',)
        return ('read', rng.randint(1, 5))
    hist = [rop(0) for _ in range(rng.randint(1, 15))]
    if for_async:
        chunking = []
        left = len(data)
        while left > 0:
            c = rng.choice([0, 1, 1, 2, 3, cs, cs + 1, rng.randint(1, max(1, 3 * cs))])
            chunking.append(c)
            left -= c
        if rng.random() < 0.2:
            hist.append(('iter',))
        return data, cs, tuple(chunking), hist
    pattern = rng.choice([None, None, (1,), (2,), (1, 3), (cs,), (max(1, cs - 1),), (rng.randint(1, 2 * cs), rng.randint(1, 5))])
    maxlen = rng.choice([len(data), len(data), len(data) + rng.randint(1, 10), max(0, len(data) - rng.randint(1, 5))])
    return data, maxlen, cs, pattern, hist


def _has_delimit(history):
    return any(op[0] in ('delimit', 'stale_child') for op in history)


def nontrivial(history):
    return any(op[0] in ('read_until', 'pipe_until', 'delimit', 'stale_child', 'peek') for op in history) and len(history) >= 1


# ------------------------------------------------------------------ run

def sync_classes(rec):
    classes = [(PureSyncReader, 'pure')]
    if rec.mode != 'pure':
        try:
            from falcon.cyutil.reader import BufferedReader as CyReader
            classes.append((CyReader, 'cython-' + rec.mode))
        except ImportError as ex:
            rec.mark_inconclusive('twin mode %s but falcon.cyutil.reader not importable: %r' % (rec.mode, ex))
    return classes


PROBE = r'''
import sys, os
sys.path.insert(0, %r)
from vlib import bootstrap
bootstrap.install(twin_dir=os.environ.get('VERIF_TWIN_DIR'))
from falcon.cyutil.reader import BufferedReader
data = b'YYYYY'
pos = [0]
def read(n):
    out = data[pos[0]:pos[0] + n]; pos[0] += len(out); return out
rd = BufferedReader(read, 5, 7)
child = rd.delimit(b'YYYYY')               # the data starts with the delimiter: the child is empty
assert child.read(-1) == b''
g = child.delimit(b'YYYYY')                # its source ends long before the max_stream_len it was given
import io
g.pipe(io.BytesIO())                       # _read() moves _buffer_pos past the (empty) buffer
print(g.readline(14))                      # never returns on the built twin
print('terminated')
'''


def probe_twin_overshoot(rec):
    """Known finding of the *built* Cython reader (same slip as the one fixed in util/reader.py):
    run the witness in a subprocess, because the loop never returns to the interpreter."""
    import subprocess
    import sys
    from vlib import bootstrap
    wit = {'reader': 'cython-' + rec.mode, 'data': b'YYYYY', 'maxlen': 5, 'chunk_size': 7,
           'history': [('delimit', b'YYYYY', (('read', -1), ('delimit', b'YYYYY', (('pipe',), ('readline', 14)))))]}
    try:
        r = subprocess.run([sys.executable, '-c', PROBE % bootstrap.VERIF], capture_output=True, text=True, timeout=20)
        rec.count('probe.twin_overshoot.terminated')
        if 'terminated' not in r.stdout:
            rec.note('twin overshoot probe ended abnormally: ' + (r.stderr or r.stdout)[-300:])
    except subprocess.TimeoutExpired:
        rec.count('probe.twin_overshoot.hung')
        rec.violation('runaway-no-termination', wit, known_key='cy-twin-reader-overshoot-hang')


def run(rec):
    if rec.mode != 'pure' and rec.shard == 0:
        probe_twin_overshoot(rec)
    rec.rule = ('data strings over {a,X,Y} up to length L x delimiters {X,XY,XX} x chunk sizes x every source chunking '
                '(async: every composition incl. empty chunks; sync: short-read patterns, max_stream_len = len-1/len/len+3) '
                'x every operation history up to length H over ~20 op shapes (exhaustive, sharded by index), then random '
                'data to 40 KB / histories to 15 ops / nested delimit; each op compared with a flat cursor. '
                'non-trivial = history contains a delimiter/peek/delimit operation; distinct by (reader, data, config, history)')
    rec.assumptions = ['cursor model vlib/models/cursor.py', 'after a DelimiterError the history goes on: the bytes read up to the cap are gone, the failed delimiter check consumed nothing',
                       'parent reader is compared again only after a delimit() child was exhausted']
    quick = rec.tier == 'quick'
    L = 3 if (quick or rec.mode != 'pure') else 4
    H = 2
    classes = sync_classes(rec)
    delims = [b'X', b'XY', b'XX']
    idx = 0
    alphabet = [b'a', b'X', b'Y']
    for n in range(0, L + 1):
        for tup in itertools.product(alphabet, repeat=n):
            data = b''.join(tup)
            for cs in range(1, min(L, 4) + 1):
                shapes_s = op_shapes(delims, cs, False)
                shapes_a = op_shapes(delims, cs, True)
                # quick tier: pairs only for chunk sizes 1-2 and delimiters X, XY
                pd = delims[:2] if quick else delims
                pairs_on = (not quick) or cs <= 2
                ps, pa = op_shapes(pd, cs, False), op_shapes(pd, cs, True)
                singles_s = [()] + [(o,) for o in shapes_s]
                singles_a = [()] + [(o,) for o in shapes_a]
                pairs_s = list(itertools.product(ps, repeat=2)) if pairs_on else []
                pairs_a = list(itertools.product(pa, repeat=2)) if pairs_on else []
                # sync
                for pattern in (None, (1,), (2,), (1, 3)):
                    for maxlen in (n, n - 1, n + 3):
                        if maxlen < 0:
                            continue
                        if maxlen > n and rec.mode != 'pure':
                            continue    # the built twin spins forever there (known finding, probed separately)
                        if not quick and n >= 5 and (pattern == (1, 3) or maxlen == n + 3):
                            continue
                        hs = singles_s + pairs_s
                        if quick and (pattern in ((2,), (1, 3)) or maxlen == n + 3):
                            hs = singles_s
                        for h in hs:
                            idx += 1
                            if idx % rec.nshards != rec.shard:
                                continue
                            for cls, cname in classes:
                                if cname != 'pure' and _has_delimit(h):
                                    continue    # built twin can spin forever in a child reader (known finding)
                                case_sync(rec, cls, cname, data, maxlen, cs, pattern, h)
                                rec.case((cname, data, maxlen, cs, pattern, h) if nontrivial(h) else None)
                # async (pure python only; identical in twin modes, so run it in pure mode only)
                if rec.mode == 'pure':
                    comps = compositions(n, with_empty=True)
                    if not quick and n >= 5:
                        comps = comps[::3]
                    for chunking in comps:
                        for h in singles_a + pairs_a:
                            idx += 1
                            if idx % rec.nshards != rec.shard:
                                continue
                            case_async(rec, data, cs, chunking, h)
                            rec.case(('async', data, cs, chunking, h) if nontrivial(h) else None)
    # ---- family D3: 3-byte delimiters (a delimiter prefix of 2 bytes can sit at the end of the buffered data
    #      while a size cap lands inside it) - data long enough to hold leftover + delimiter + tail
    d3 = [b'XYX', b'XXY']
    lens = (4, 5) if quick else (4, 5, 6)
    for n in lens:
        for tup in itertools.product(alphabet, repeat=n):
            data = b''.join(tup)
            if b'XY' not in data and b'XX' not in data:
                continue
            for d in d3:
                if d[:2] not in data:
                    continue
                for cs in (3, 4, 5):
                    hs = []
                    for k in (0, 1, 2):
                        for size in (-1, 1, 2, 3, 4):
                            for consume in (False, True):
                                hs.append((('read', k), ('read_until', d, size, consume)) if k else
                                          (('read_until', d, size, consume),))
                        hs.append((('read', k), ('pipe_until', d, False), ('read', 1)) if k else (('pipe_until', d, True),))
                        hs.append((('read', k), ('delimit', d, (('read', 2), ('read', -1)))) if k else
                                  (('delimit', d, (('peek', 2), ('read', 1))),))
                    for h in hs:
                        idx += 1
                        if idx % rec.nshards != rec.shard:
                            continue
                        for pattern in (None, (1,), (3,)):
                            for cls, cname in classes:
                                if cname != 'pure' and _has_delimit(h):
                                    continue
                                case_sync(rec, cls, cname, data, n, cs, pattern, h)
                        rec.case(('d3s', data, d, cs, h))
                        rec.count('d3.histories')
                        if rec.mode == 'pure':
                            for chunking in compositions(n, with_empty=False):
                                case_async(rec, data, cs, chunking, h)
                            rec.case(('d3a', data, d, cs, h))
    # ---- family LG: sizes around the readers' internal join limit (chunk_size x 128 sync, x 1024 async): beyond it
    #      read()/read_until() switch to a different collection path; data long enough to cross it, a delimiter
    #      nowhere / just before / at / just after the limit, then further reads and tell()
    import falcon.asgi.reader as _ar
    import falcon.util.reader as _sr
    mj_sync = getattr(_sr, '_MAX_JOIN_CHUNKS', 128)
    mj_async = getattr(_ar, '_MAX_JOIN_CHUNKS', 1024)
    for cs in (1, 2):
        d = b'X' if cs == 1 else b'XY'
        for for_async, mjc in ((False, mj_sync), (True, mj_async)):
            if for_async and rec.mode != 'pure':
                continue
            mj = mjc * cs
            n = mj + 6
            for dpos in (None, mj - 3, mj - 2, mj - 1, mj, mj + 1):
                body = bytearray((b'ab' * n)[:n])
                if dpos is not None:
                    body[dpos:dpos + len(d)] = d
                data = bytes(body[:n])
                hs = []
                for k in (0, 1):
                    pre = (('read', k),) if k else ()
                    for size in (mj - 1, mj, mj + 1, mj + cs, n, n + 5, -1):
                        hs.append(pre + (('read', size), ('read', 2)))
                        for consume in (False, True):
                            hs.append(pre + (('read_until', d, size, consume), ('read', 2)))
                    hs.append(pre + (('pipe_until', d, False), ('read', 1)))
                    hs.append(pre + (('peek', -1), ('read_until', d, mj + 1, False)))
                for h in hs:
                    idx += 1
                    if idx % rec.nshards != rec.shard:
                        continue
                    if not for_async:
                        for pattern in (None, (1,), (3,), (mj,)):
                            for cls, cname in classes:
                                case_sync(rec, cls, cname, data, n, cs, pattern, h)
                        rec.case(('lgs', cs, dpos, h))
                        rec.count('lg.sync_histories')
                    else:
                        for c in (1, 7, mj - 1, mj, n):
                            chunking = tuple([c] * (n // c) + ([n % c] if n % c else []))
                            case_async(rec, data, cs, chunking, h)
                        rec.case(('lga', cs, dpos, h))
                        rec.count('lg.async_histories')
    rec.exhaustive = True
    if rec.shard == 0:
        rec.note('exhaustive: data len <= %d over {a,X,Y}, chunk sizes 1..%d, single-op histories (+final read) over all op shapes; '
                 'two-op histories %s' % (L, min(L, 4), 'for chunk sizes 1-2, delimiters X/XY, patterns None/(1,)' if quick else 'over all shapes'))
    # histories of length 3 (exhaustive for tiny data) - thorough only
    if not quick:
        for n in range(0, 4):
            for tup in itertools.product(alphabet, repeat=n):
                data = b''.join(tup)
                for cs in (1, 2, 3):
                    shapes_s = op_shapes(delims[:2], cs, False)[::2]
                    shapes_a = op_shapes(delims[:2], cs, True)[::2]
                    for h in itertools.product(shapes_s, repeat=3):
                        idx += 1
                        if idx % rec.nshards != rec.shard:
                            continue
                        for cls, cname in classes:
                            if cname != 'pure' and _has_delimit(h):
                                continue
                            case_sync(rec, cls, cname, data, n, cs, (1,) if idx % 2 else None, h)
                            rec.case((cname, data, n, cs, h))
                    if rec.mode == 'pure':
                        for chunking in compositions(n, with_empty=False):
                            for h in itertools.product(shapes_a, repeat=3):
                                idx += 1
                                if idx % rec.nshards != rec.shard:
                                    continue
                                case_async(rec, data, cs, chunking, h)
                                rec.case(('async', data, cs, chunking, h))
    # random phase
    rng = rec.rng
    k = 0
    t_rand = time.monotonic()
    rand_budget = max(rec.budget_s * 0.3, rec.time_left() * 0.9)   # guaranteed share, whatever the machine load
    while time.monotonic() - t_rand < rand_budget:
        for _ in range(20):
            data, maxlen, cs, pattern, hist = random_case(rng, False)
            if rec.mode != 'pure':
                maxlen = min(maxlen, len(data))
            for cls, cname in classes:
                if cname != 'pure' and _has_delimit(hist):
                    hist = [op for op in hist if op[0] != 'delimit']
                case_sync(rec, cls, cname, data, maxlen, cs, pattern, hist)
                rec.case((cname, data[:64], len(data), maxlen, cs, pattern, hist) if nontrivial(hist) else None)
            rec.count('random.sync')
            if rec.mode == 'pure':
                data, cs, chunking, hist = random_case(rng, True)
                case_async(rec, data, cs, chunking, hist)
                rec.case(('async', data[:64], len(data), cs, chunking[:20], hist) if nontrivial(hist) else None)
                rec.count('random.async')
            k += 1
            if k <= 3:
                rec.sample({'data': data[:40], 'len': len(data), 'chunk_size': cs, 'history': hist})
    rec.floor('mon.sync.op.read_until', 100)
    rec.floor('mon.sync.op.delimit', 20)
    rec.floor('mon.sync.op.stale_child', 20)
    rec.floor('mon.sync.op.pipe_until', 20)
    rec.floor('sync.history_ended_by_delimiter_error', 5)
    rec.floor('random.sync', 20)
    rec.floor('d3.histories', 100)
    rec.floor('lg.sync_histories', 100)
    if rec.mode == 'pure':
        rec.floor('mon.async.op.read_until', 100)
        rec.floor('mon.async.op.delimit', 20)
        rec.floor('mon.async.tell', 100)
        rec.floor('async.history_ended_by_delimiter_error', 5)
        rec.floor('random.async', 20)
        rec.floor('lg.async_histories', 100)


def _tuplify(o):
    if isinstance(o, list):
        return tuple(_tuplify(x) for x in o)
    if isinstance(o, str) and o.startswith('b:'):
        return o[2:].encode('ascii').decode('unicode_escape').encode('latin-1')
    return o


def replay(rec, w):
    wit = w['witness']
    data = _tuplify(wit['data'])
    hist = [_tuplify(op) for op in wit['history']]
    if hist and hist[-1] == ('read', -1):
        hist = hist[:-1]
    cs = wit['chunk_size']
    if wit.get('reader') == 'async':
        ok = case_async(rec, data, cs, _tuplify(wit['chunking']), hist)
    else:
        pat = wit.get('pattern')
        ok = case_sync(rec, PureSyncReader, 'pure', data, wit['maxlen'], cs, tuple(pat) if pat else None, hist)
    print('replay: case', 'passed' if ok else 'failed again')
    rec.case(('replay', 1))
    rec.case(('replay', 2))
