"""C03 - middleware, hooks and responder run in the documented stack order, once each.
DESIGN.md section 4, C03.

Monitor: every generated middleware method / hook / responder / sink / error handler /
lifespan handler appends to a per-request trace; the trace (with the resource and
req_succeeded arguments) and the final status are compared with the reference
interpreter vlib/models/c03_stack.py (written from docs/api/middleware.rst, hooks.rst and
the statement).  One declarative script is compiled into a falcon.App and a
falcon.asgi.App; fault placements are switched per request without rebuilding the app.
"""

import asyncio
import functools
import inspect
import itertools
import os
import sys
import types

# docs/api/routing.rst: custom HTTP methods are enabled with this variable (read when falcon is imported);
# check.py's parent imports this module first, so the shard children inherit it.
if 'falcon' not in sys.modules:
    os.environ.setdefault('FALCON_CUSTOM_HTTP_METHODS', 'FOO,BAR')
# falcon's own test-suite switch: with it set, falcon treats every non-coroutine-function hook/middleware method
# as a blocking sync function (and would not await what it returns); the property is judged in production mode.
os.environ.pop('FALCON_ASGI_WRAP_NON_COROUTINES', None)

import falcon  # noqa: E402
import falcon.asgi  # noqa: E402

from vlib.drivers import asgi as A  # noqa: E402
from vlib.drivers import wsgi as W  # noqa: E402
from vlib.models import c03_stack as M  # noqa: E402

CUSTOM_OK = all(m in os.environ.get('FALCON_CUSTOM_HTTP_METHODS', '').split(',') for m in M.CUSTOM)

LEVEL = 'fault_enumeration'
SHARDS = {'quick': 4, 'thorough': 16}
BUDGET = {'quick': 15, 'thorough': 150}

METHODS = ('req', 'rsrc', 'resp')
FALCON_NAME = {'req': 'process_request', 'rsrc': 'process_resource', 'resp': 'process_response'}
MW_ACTIONS = ('complete', 'http_error', 'http_status', 'app_handled', 'app_unhandled')
H_ACTIONS = ('ret', 'http_error', 'http_status')
STACKS = ('wsgi', 'asgi')



class AppErrH(Exception):
    """application error with a registered handler"""


class AppErrU(Exception):
    """application error without a registered handler (falls to the default Exception handling)"""


class _BadStr:
    def __str__(self):
        raise RuntimeError('__str__ of an exception argument raises')

    __repr__ = __str__


class AppErrHBad(AppErrH):
    """the same, but it cannot be rendered: __str__ and __repr__ raise"""

    def __str__(self):
        raise RuntimeError('__str__ raises')

    def __repr__(self):
        raise RuntimeError('__repr__ raises')


class AppErrUBad(AppErrU):
    def __str__(self):
        raise RuntimeError('__str__ raises')

    def __repr__(self):
        raise RuntimeError('__repr__ raises')


class _OtherErr(Exception):
    """an unrelated application error family (no handler registered for it)"""


class AppErrHSub(AppErrH):
    pass


class AppErrHSecond(_OtherErr, AppErrH):
    """reaches the class the handler is registered for through its SECOND base"""


class AppErrHDiamond(AppErrHSub, AppErrHSecond):
    pass


EXC_SHAPES = {'direct': AppErrH, 'subclass': AppErrHSub, 'second_base': AppErrHSecond, 'diamond': AppErrHDiamond}
EXC_SHAPE_NAMES = tuple(EXC_SHAPES)
_HOSTILE = {k: type(v.__name__ + 'Bad', (v,), {'__str__': AppErrHBad.__str__, '__repr__': AppErrHBad.__repr__})
            for k, v in EXC_SHAPES.items()}


class LifespanErrBadStr(RuntimeError):
    def __str__(self):
        raise ValueError('__str__ raises')


class LifespanErrBadRepr(RuntimeError):
    def __str__(self):
        raise ValueError('__str__ raises')

    def __repr__(self):
        raise ValueError('__repr__ raises')


RAISE_KINDS = ('raise', 'raise_badstr', 'raise_badrepr', 'raise_badargs')


def lifespan_error(kind, what):
    if kind == 'raise_badstr':
        return LifespanErrBadStr(what)
    if kind == 'raise_badrepr':
        return LifespanErrBadRepr(what)
    if kind == 'raise_badargs':
        return RuntimeError(_BadStr(), what)
    return RuntimeError(what)


KNOWN_REFUSED = 'refused-add-middleware-not-rolled-back'
KNOWN_FALSY_BARE = 'falsy-bare-middleware-ignored'
EXTRA = 90          # index of the otherwise valid component that travels with a refused add_middleware() call


class Ctx:
    """Per-app mutable context: the trace and the action table of the request in flight."""

    def __init__(self, script):
        self.script = script
        self.codes = M.site_codes(script)
        self.trace = []
        self.actions = {}
        self.hactions = ['ret']
        self.hcount = 0
        self.performed = []      # (site kind, action) actually executed by the real run
        self.res = None
        self.falsy = None

    def begin(self, case):
        self.trace = []
        self.actions = case['actions']
        self.hactions = case.get('hactions') or ['ret']
        self.hcount = 0
        self.performed = []

    def tag(self, resource):
        if resource is None:
            return None
        if resource is self.res:
            return 'res'
        if resource is self.falsy:
            return 'falsy'
        return 'other:%r' % (resource,)

    def act(self, site, kind, resp, req=None):
        a = self.actions.get(site, 'ret')
        if a.startswith('reroute:'):
            self.performed.append((kind, 'reroute'))
            req.path = M.kind_request(a.split(':', 1)[1])[1]
            return
        self.performed.append((kind, a))
        if a == 'ret':
            return
        if a == 'complete':
            resp.complete = True
            return
        if a == 'http_error':
            raise falcon.HTTPError(M.error_status(self.codes, site), title='E ' + site)
        if a == 'http_status':
            raise falcon.HTTPStatus(M.status_status(self.codes, site))
        hostile = self.script.get('hostile_exc')
        if a == 'app_handled':
            raise (_HOSTILE if hostile else EXC_SHAPES)[self.script.get('exc_shape') or 'direct'](site)
        if a == 'app_unhandled':
            raise (AppErrUBad if hostile else AppErrU)(site)
        raise AssertionError('unknown action %r' % (a,))

    def handler(self, resp, ex):
        self.trace.append(('H', ex.args[0]))
        ha = self.hactions[self.hcount % len(self.hactions)]
        self.hcount += 1
        self.performed.append(('handler', ha))
        resp.status = M.STATUS_HANDLER_RET
        if ha == 'http_error':
            raise falcon.HTTPError(460 + (self.hcount - 1) % 10)
        if ha == 'http_status':
            raise falcon.HTTPStatus(270 + (self.hcount - 1) % 10)


# ------------------------------------------------------------------ compiler: script -> app

def _mw_method(ctx, i, m, tag, is_async):
    site = 'M%d.%s' % (i, m)
    if m == 'req':
        def body(req, resp):
            ctx.trace.append(('req', i, tag))
            ctx.act(site, 'req', resp, req)
        if is_async:
            async def fn(self, req, resp):
                body(req, resp)
        else:
            def fn(self, req, resp):
                body(req, resp)
    elif m == 'rsrc':
        def body(req, resp, resource, params):
            ctx.trace.append(('rsrc', i, tag, ctx.tag(resource), tuple(sorted(params.items()))))
            ctx.act(site, 'rsrc', resp)
        if is_async:
            async def fn(self, req, resp, resource, params):
                body(req, resp, resource, params)
        else:
            def fn(self, req, resp, resource, params):
                body(req, resp, resource, params)
    else:
        def body(req, resp, resource, req_succeeded):
            ctx.trace.append(('resp', i, tag, ctx.tag(resource), req_succeeded))
            ctx.act(site, 'resp', resp)
        if is_async:
            async def fn(self, req, resp, resource, req_succeeded):
                body(req, resp, resource, req_succeeded)
        else:
            def fn(self, req, resp, resource, req_succeeded):
                body(req, resp, resource, req_succeeded)
    return fn


class _AsyncCallable:
    def __init__(self, impl):
        self._impl = impl

    async def __call__(self, scope, event):
        await self._impl(scope, event)


LFORMS = ('method', 'static', 'classmethod', 'instance', 'object', 'future', 'awaitable')


class ObjectDecorator:
    """A decorator implemented as a callable descriptor object (the way wrapt-style tracing/metrics
    decorators are written): transparent, forwards to the wrapped responder."""

    def __init__(self, fn):
        self._fn = fn
        functools.update_wrapper(self, fn)
        if inspect.iscoroutinefunction(fn):
            inspect.markcoroutinefunction(self)

    def __call__(self, *args, **kwargs):
        return self._fn(*args, **kwargs)

    def __get__(self, instance, owner=None):
        if instance is None:
            return self
        return types.MethodType(self, instance)


def function_decorator(fn):
    if inspect.iscoroutinefunction(fn):
        @functools.wraps(fn)
        async def wrapper(*args, **kwargs):
            return await fn(*args, **kwargs)
    else:
        @functools.wraps(fn)
        def wrapper(*args, **kwargs):
            return fn(*args, **kwargs)
    return wrapper


RFORMS = {'object': ObjectDecorator, 'wrapped': function_decorator}


def build_component(ctx, i, comp, stack, lctx=None):
    """Class for component i on the given stack, or None when it would expose nothing there."""
    ns = {}
    inst_attrs = {}
    extra_ns = {'__bool__': (lambda self: False)} if comp.get('falsy') else {}
    for m in METHODS:
        style = comp.get(m)
        if style is None:
            continue
        name = FALCON_NAME[m]
        if style == 'plain':
            ns[name] = _mw_method(ctx, i, m, 'sync' if stack == 'wsgi' else 'async', stack == 'asgi')
        elif style == 'both':
            ns[name] = _mw_method(ctx, i, m, 'sync', False)
            ns[name + '_async'] = _mw_method(ctx, i, m, 'async_suffix', True)
        elif style == 'async_only':
            ns[name + '_async'] = _mw_method(ctx, i, m, 'async_suffix', True)
    if stack == 'asgi' and lctx is not None:
        lform = comp.get('lform') or 'method'

        def provide(name, impl):
            """The same handler, provided the way comp['lform'] says (all of them are 'the component has a
            callable attribute of that name')."""
            if lform == 'method':
                async def meth(self, scope, event):
                    await impl(scope, event)
                ns[name] = meth
            elif lform == 'static':
                ns[name] = staticmethod(impl)
            elif lform == 'classmethod':
                async def cmeth(cls, scope, event):
                    await impl(scope, event)
                ns[name] = classmethod(cmeth)
            elif lform == 'instance':
                inst_attrs[name] = impl                       # plain coroutine function stored on the instance
            elif lform == 'object':
                inst_attrs[name] = _AsyncCallable(impl)       # callable object
            elif lform == 'future':                           # plain method handing back a Task
                ns[name] = lambda self, scope, event: asyncio.ensure_future(impl(scope, event))
            elif lform == 'awaitable':                        # plain method handing back an __await__ object
                ns[name] = lambda self, scope, event: _Awaitable(impl(scope, event))
            else:
                raise AssertionError(lform)

        if comp.get('startup'):
            async def startup(scope, event, _i=i):
                lctx['trace'].append(('startup', _i))
                lctx['log'].append(('call', 'startup', _i, event.get('type'), scope.get('type')))
                cb = lctx.get('in_startup', {}).get(_i)
                if cb is not None:
                    cb()
                a = lctx['actions'].get('M%d.startup' % _i) or ''
                if a.startswith('raise'):
                    raise lifespan_error(a, 'startup %d' % _i)
            provide('process_startup', startup)
        if comp.get('shutdown'):
            async def shutdown(scope, event, _i=i):
                lctx['trace'].append(('shutdown', _i))
                lctx['log'].append(('call', 'shutdown', _i, event.get('type'), scope.get('type')))
                a = lctx['actions'].get('M%d.shutdown' % _i) or ''
                if a.startswith('raise'):
                    raise lifespan_error(a, 'shutdown %d' % _i)
            provide('process_shutdown', shutdown)
        if ns or inst_attrs:
            obj = type('MW%d' % i, (), dict(ns, **extra_ns))()
            for k, v in inst_attrs.items():
                setattr(obj, k, v)
            return obj
    if not ns:
        return None
    return type('MW%d' % i, (), dict(ns, **extra_ns))()


def usable_on(script, stack):
    """A WSGI app rejects a component that exposes none of the three methods to it."""
    for c in script['comps']:
        vs = [M.variant(stack, c.get(m)) for m in METHODS]
        if not any(vs):
            if stack == 'wsgi':
                return False
            if not (c.get('startup') or c.get('shutdown')):
                return False
    return True


class _Awaitable:
    """An awaitable that is neither a coroutine object nor a Future."""

    def __init__(self, coro):
        self._coro = coro

    def __await__(self):
        return self._coro.__await__()


def shape_hook(impl, form, is_async):
    """Provide the hook action `impl` (a plain function doing the work) as the kind of callable `form` names.
    WSGI: a callable.  ASGI: a callable returning an awaitable (falcon.hooks.AsyncBeforeFn/AsyncAfterFn)."""
    if not is_async:
        if form == 'falsy_object':      # e.g. a handler that collects what it saw: a list subclass, empty for ever
            return type('FalsyCallable', (list,), {'__call__': lambda self, *a, **kw: impl(*a, **kw)})()
        if form == 'object':
            return type('HookObject', (), {'__call__': lambda self, *a, **kw: impl(*a, **kw)})()
        if form == 'partial':
            return functools.partial(impl)
        if form == 'method':
            return type('HookHolder', (), {'hook': lambda self, *a, **kw: impl(*a, **kw)})().hook
        return impl

    async def coro(*a, **kw):
        impl(*a, **kw)

    if form == 'function':
        return coro
    if form in ('object', 'falsy_object'):
        async def call(self, *a, **kw):
            impl(*a, **kw)
        return type('AsyncHookObject', (list,) if form == 'falsy_object' else (), {'__call__': call})()
    if form == 'partial':
        return functools.partial(coro)
    if form == 'method':
        async def hook(self, *a, **kw):
            impl(*a, **kw)
        return type('AsyncHookHolder', (), {'hook': hook})().hook
    if form == 'sync_returns_coro':
        return lambda *a, **kw: coro(*a, **kw)
    if form == 'future':
        return lambda *a, **kw: asyncio.ensure_future(coro(*a, **kw))
    if form == 'gather':
        return lambda *a, **kw: asyncio.gather(coro(*a, **kw))
    if form == 'awaitable':
        return lambda *a, **kw: _Awaitable(coro(*a, **kw))
    raise AssertionError(form)


def build_resource(ctx, script, stack):
    is_async = stack == 'asgi'

    def responder(name):
        if is_async:
            async def on_x(self, req, resp, **kw):
                ctx.trace.append(('R', name, tuple(sorted(kw.items()))))
                ctx.act('R', 'responder', resp)
        else:
            def on_x(self, req, resp, **kw):
                ctx.trace.append(('R', name, tuple(sorted(kw.items()))))
                ctx.act('R', 'responder', resp)
        on_x.__name__ = name
        return on_x

    def before_impl(req, resp, resource, params, hid):
        ctx.trace.append(('before', hid, ctx.tag(resource)))
        ctx.act('B%d' % hid, 'before', resp)

    def after_impl(req, resp, resource, hid):
        ctx.trace.append(('after', hid, ctx.tag(resource)))
        ctx.act('A%d' % hid, 'after', resp)

    def deco(kind, hid):
        action = shape_hook(before_impl if kind == 'before' else after_impl, M.hook_form(script, stack, hid), is_async)
        return falcon.before(action, hid) if kind == 'before' else falcon.after(action, hid)

    fns = {name: responder(name) for name in M.all_responders()}
    for kind, hid in reversed(list(script.get('hooks_method', ()))):      # innermost applied first
        fns['on_get'] = deco(kind, hid)(fns['on_get'])
    for name, form in (script.get('forms') or {}).items():
        fns[name] = RFORMS[form](fns[name])          # outermost decorator of that responder
    inherit = set(script.get('inherit', ()))
    # responders named in 'inherit' live on a base class (optionally with class-level hooks of its own);
    # the routed class defines the others itself and carries the class-level hooks
    base = type('BaseRes', (), {n: f for n, f in fns.items() if n in inherit})
    for kind, hid in reversed(list(script.get('hooks_base', ()))):
        base = deco(kind, hid)(base)
    cls = type('Res', (base,), {n: f for n, f in fns.items() if n not in inherit})
    for kind, hid in reversed(list(script.get('hooks_class', ()))):
        cls = deco(kind, hid)(cls)
    falsy_cls = type('FalsyRes', (cls,), {'__len__': lambda self: 0})      # e.g. an empty collection resource
    return cls(), falsy_cls()


def build_app(script, stack, lctx=None, defer_from=None):
    """defer_from=n: components with index >= n are built but NOT registered; ctx.add_pending() registers
    them later with App.add_middleware() (between requests, between lifespan events, ...)."""
    ctx = Ctx(script)
    mws = []
    for i, comp in enumerate(script['comps']):
        mw = build_component(ctx, i, comp, stack, lctx)
        if mw is not None:
            mws.append((i, mw))
    cls = falcon.App if stack == 'wsgi' else falcon.asgi.App
    n_ctor = script.get('ctor')
    single = bool(script.get('add_single'))

    index_of = {id(mw): i for i, mw in mws}
    ctx.falsy_bare = set()      # falsy components that were handed over as a single bare object

    def note_bare(mw):
        i = index_of.get(id(mw))
        if i is not None and script['comps'][i].get('falsy'):
            ctx.falsy_bare.add(i)

    def add(items):
        # "as if they had been appended to the original middleware list" (App.add_middleware)
        if single:
            for mw in items:
                note_bare(mw)
                app.add_middleware(mw)
        elif items:
            app.add_middleware(items)

    if defer_from is not None:
        now = [mw for i, mw in mws if i < defer_from]
        ctx.pending = [mw for i, mw in mws if i >= defer_from]
    else:
        now = [mw for _, mw in mws]
        ctx.pending = []
    if n_ctor is None or defer_from is not None and n_ctor >= defer_from:
        first, later = now, []
    else:
        first, later = [mw for i, mw in mws if i < n_ctor and mw in now], [mw for i, mw in mws if i >= n_ctor and mw in now]
    spell = script.get('mw_arg') or 'list'
    if spell == 'bare' and len(first) == 1 or (len(first) == 1 and single and spell == 'list'):
        arg = first[0]                      # a single bare component instead of an iterable
        note_bare(arg)
    elif spell == 'tuple':
        arg = tuple(first)
    elif spell == 'iter':
        arg = iter(first)
    else:
        arg = first or None
    kwargs = {'cors_enable': True} if script.get('cors') else {}
    app = cls(middleware=arg, independent_middleware=script['independent'], **kwargs)
    ref = script.get('refused')
    ctx.refusal = None
    if ref:
        # an add_middleware() call the framework refuses; the application catches the error and carries on
        extra = build_component(ctx, EXTRA, {'req': 'plain', 'rsrc': None, 'resp': 'plain', 'startup': True,
                                             'shutdown': True}, stack, lctx)
        if ref['why'] == 'cors':
            bad = falcon.CORSMiddleware()
        elif ref['why'] == 'nomethods':
            bad = type('NoMethods', (), {})()
        else:   # a component written for the other kind of app
            bad = build_component(Ctx(script), EXTRA + 1, {'req': 'plain', 'rsrc': None, 'resp': None},
                                  'asgi' if stack == 'wsgi' else 'wsgi')
        payload = [extra, bad] if not ref.get('order') else [bad, extra]
        if ref.get('repeat') is not None:
            # the refused batch also repeats a component that is already part of the stack (same instance)
            payload = [mw for i, mw in mws if i == ref['repeat'] and mw in first] + payload
        try:
            app.add_middleware(payload)
            ctx.refusal = 'accepted'
        except Exception as ex:  # noqa
            ctx.refusal = type(ex).__name__
        if ref.get('reprepare'):
            app.add_middleware(None)       # "there is the chance that middleware may be None": re-prepares only
    add(later)

    def add_pending():
        items, ctx.pending = ctx.pending, []
        add(items)
    ctx.add_pending = add_pending
    ctx.res, ctx.falsy = build_resource(ctx, script, stack)
    app.add_route('/r', ctx.res)
    app.add_route('/f/{x}', ctx.res, suffix='f')
    app.add_route('/i', ctx.res, suffix='items')
    app.add_route('/z', ctx.falsy)

    def sink_impl(req, resp, **kw):
        ctx.trace.append(('S', tuple(sorted(kw.items()))))
        ctx.act('S', 'sink', resp)

    def handler_impl(req, resp, ex, params):
        ctx.handler(resp, ex)

    is_async = stack == 'asgi'
    app.add_sink(shape_hook(sink_impl, script.get('sform') or 'function', is_async), r'/s/(?P<tail>\w+)')
    app.add_error_handler(AppErrH, shape_hook(handler_impl, script.get('hform') or 'function', is_async))
    return app, ctx


def refusal_reason_is_prepare_stage(script):
    return bool(script.get('refused')) and script['refused']['why'] in ('nomethods', 'compat')


def build_checked(rec, script, stack, **kw):
    """build_app, turning a failure into a report (classified when a recorded defect explains it)."""
    try:
        app, ctx = build_app(script, stack, **kw)
    except Exception as ex:  # noqa
        known = None
        if refusal_reason_is_prepare_stage(script) and type(ex).__name__ in ('TypeError', 'CompatibilityError'):
            # narrow: the refused call was refused by the interface check of prepare_middleware() (not by the
            # CORS check) and a LATER, valid add_middleware()/re-preparation fails with the same kind of error
            known = KNOWN_REFUSED
        rec.violation('build-raised', {'script': script, 'stack': stack, 'build': True, 'exc': repr(ex)},
                      known_key=known)
        return None
    if script.get('refused') and ctx.refusal == 'accepted':
        rec.violation('refused-add-accepted', {'script': script, 'stack': stack, 'build': True})
        return None
    return app, ctx


def drive(app, ctx, case):
    """-> (trace, status, escaped exception or None, outcome)"""
    ctx.begin(case)
    method, path = M.kind_request(case['kind'])
    if case['stack'] == 'wsgi':
        env = W.make_environ(method, path)
        res = W.run_wsgi(app, env)
        return list(ctx.trace), res.status, res.exc, 'done'
    scope = A.make_scope(method, path)
    res = A.run_asgi_http(app, scope)
    return list(ctx.trace), res.status, res.exc, res.outcome


# ------------------------------------------------------------------ the monitor

def classify_falsy_bare(script, case, got_n, status, ctx):
    """Narrow: a component whose truth value is False was handed over as a single bare object (constructor or
    add_middleware) and the ONLY difference is that this component takes no part at all."""
    idx = ctx.falsy_bare
    if not idx:
        return None
    reg = registered_script(script, case)
    for sub in nonempty_subsets(idx):       # (a bare component next to cors_enable does get registered)
        alt_script = dict(reg, comps=[BLANK if i in sub else c for i, c in enumerate(reg['comps'])])
        alt_case = dict(case, actions={k: v for k, v in case['actions'].items()
                                       if not any(k.startswith('M%d.' % i) for i in sub)})
        alt = M.interpret(alt_script, alt_case)
        if got_n == [_norm(e) for e in alt[0]] and status == alt[1]:
            return KNOWN_FALSY_BARE
    return None


def nonempty_subsets(idx):
    idx = sorted(idx)
    for r in range(len(idx), 0, -1):
        for sub in itertools.combinations(idx, r):
            yield set(sub)


BLANK = {'req': None, 'rsrc': None, 'resp': None, 'startup': False, 'shutdown': False}


def registered_script(script, case):
    """The script as the framework knows it while the trailing components are not registered yet
    (case['pre_add'] = index of the first unregistered component); site numbering is unchanged."""
    n = case.get('pre_add')
    if n is None:
        return script
    return dict(script, comps=[c if i < n else BLANK for i, c in enumerate(script['comps'])])


def check_case(rec, script, case, app, ctx, count=True):
    want_trace, want_status, classes = M.interpret(registered_script(script, case), case)
    try:
        trace, status, exc, outcome = drive(app, ctx, case)
    except Exception as ex:  # noqa  (driver or generated object failed: not a verdict on falcon by itself)
        rec.violation('driver-raised', {'script': script, 'case': case, 'exc': repr(ex)})
        return False
    stack = case['stack']
    if count:
        rec.count('mon.trace.' + stack)
        for kind, a in ctx.performed:
            rec.count('site.%s.%s.%s' % (stack, kind, a))
        for c in classes:
            rec.count('cls.%s.%s' % (stack, c))
        rec.count('kind.%s.%s' % (stack, case['kind']))
    ok = True
    if exc is not None or outcome != 'done':
        rec.violation('escaped', {'script': script, 'case': case, 'exc': repr(exc), 'outcome': outcome,
                                  'trace': trace})
        return False
    got_n = [_norm(e) for e in trace]
    want_n = [_norm(e) for e in want_trace]
    if got_n != want_n:
        known = classify_falsy_bare(script, case, got_n, status, ctx)
        rec.violation(_mismatch_kind(got_n, want_n), {'script': script, 'case': case, 'got': got_n, 'want': want_n,
                                                       'status': status, 'want_status': want_status},
                      known_key=known)
        ok = False
    elif status != want_status:
        rec.violation('status', {'script': script, 'case': case, 'trace': got_n, 'status': status,
                                 'want_status': want_status})
        ok = False
    return ok


def _norm(e):
    return [list(x) if isinstance(x, tuple) else x for x in e]


def _mismatch_kind(got, want):
    """Short mechanism label from the first point of divergence."""
    for k in range(max(len(got), len(want))):
        g = got[k] if k < len(got) else None
        w = want[k] if k < len(want) else None
        if g == w:
            continue
        if g is None:
            return 'missing-call:%s' % w[0]
        if w is None:
            return 'extra-call:%s' % g[0]
        if g[0] == w[0] and g[:2] == w[:2]:
            if g[0] == 'resp' and g[:4] == w[:4]:
                return 'req_succeeded-flag'
            return 'wrong-args:%s' % g[0]
        if g in want[k:]:
            return 'skipped-call:%s' % w[0]
        if w in got[k:]:
            return 'unexpected-call:%s' % g[0]
        return 'order:%s-vs-%s' % (g[0], w[0])
    return 'trace'


def script_key(script):
    return (script['independent'], tuple(tuple(sorted(c.items(), key=str)) for c in script['comps']),
            tuple(map(tuple, script.get('hooks_class', ()))), tuple(map(tuple, script.get('hooks_method', ()))),
            tuple(sorted(script.get('inherit', ()))), tuple(map(tuple, script.get('hooks_base', ()))),
            script.get('ctor'), script.get('add_single'), script.get('add_after_requests'),
            tuple(sorted((script.get('forms') or {}).items())), script.get('mw_arg'), script.get('cors'),
            tuple(sorted((script.get('hook_forms') or {}).items())), script.get('hform'), script.get('sform'),
            script.get('hostile_exc'), tuple(sorted((script.get('refused') or {}).items())),
            script.get('exc_shape'))


def case_key(skey, case):
    return (skey, case['stack'], case['kind'], tuple(sorted(case['actions'].items())),
            tuple(case.get('hactions') or ()), case.get('pre_add'))


def nontrivial(case):
    return any(a != 'ret' for a in case['actions'].values())


# ------------------------------------------------------------------ bounded-exhaustive part

def shapes(maxcomp):
    subsets = [s for s in itertools.product((None, 'plain'), repeat=3) if any(s)]
    for n in range(0, maxcomp + 1):
        for combo in itertools.product(subsets, repeat=n):
            yield [dict(zip(METHODS, s)) for s in combo]


def reachable_sites(script, kind):
    sites = []
    for i, c in enumerate(script['comps']):
        for m in METHODS:
            if c.get(m):
                sites.append('M%d.%s' % (i, m))
    has_responder = kind in ('route', 'falsy', 'field', 'suffix') or kind.startswith(('m:', 'ms:'))
    if has_responder:
        hooks = M.responder_hooks(script, M.kind_info(kind)[3])
    else:
        hooks = []
    if has_responder:
        sites += [('B%d' if k == 'before' else 'A%d') % h for k, h in hooks]
        sites.append('R')
    if kind == 'sink':
        sites.append('S')
    return sites


def site_actions(site, reduced):
    if site.startswith('B'):
        acts = ('http_error', 'http_status', 'app_handled', 'app_unhandled')   # 'complete' inside a before hook: undocumented
    else:
        acts = MW_ACTIONS
    if reduced:
        acts = tuple(a for a in acts if a in ('complete', 'http_error', 'app_handled'))
    return acts


H_PAIRS = (('http_error', 'ret'), ('ret', 'http_status'), ('ret', 'ret'), ('http_status', 'http_error'))


def placements(sites, max_faults, reduced_from=2, n_hpairs=4, need_mw=False):
    """All assignments of a non-'ret' action to up to max_faults sites (+ handler action when relevant).
    need_mw: multi-fault placements must involve at least one middleware method (placements confined to the
    hooks/responder do not depend on the middleware stack; the caller enumerates them with the small stacks)."""
    yield {}, ['ret']
    rot = 0
    for nf in range(1, max_faults + 1):
        reduced = nf >= reduced_from
        for combo in itertools.combinations(sites, nf):
            if need_mw and nf > 1 and not any(x.startswith('M') for x in combo):
                continue
            for acts in itertools.product(*[site_actions(s, reduced) for s in combo]):
                actions = dict(zip(combo, acts))
                nh = sum(1 for a in acts if a == 'app_handled')
                if nh == 0:
                    yield actions, ['ret']
                elif nf == 1:
                    for ha in H_ACTIONS:
                        yield actions, [ha]
                else:
                    # the handler can run several times: vary its behaviour per invocation
                    if n_hpairs == 0:       # rotate: one handler pattern per placement, all patterns in turn
                        rot += 1
                        yield actions, list(H_PAIRS[rot % len(H_PAIRS)])
                        continue
                    for has in H_PAIRS[:n_hpairs]:
                        yield actions, list(has)


# class-level after innermost on a class that inherits on_get / on_get_items and defines on_get_f itself
EXH_HOOKS = {'hooks_class': [['before', 0], ['after', 3]], 'hooks_method': [['after', 1], ['before', 2]],
             'inherit': ['on_get', 'on_get_items'] + M.all_responders()[3::2], 'hooks_base': [],
             # every third responder (own and inherited ones) carries a third-party style decorator
             'forms': dict([(nm, 'object') for nm in M.all_responders()[1::3]] +
                           [(nm, 'wrapped') for nm in M.all_responders()[5::6]])}
EXH_HOOK_FORMS = (
    {},                                                                       # plain (coroutine) functions
    {'0': 'future', '3': 'awaitable', '1': 'gather', '2': 'sync_returns_coro'},
    {'0': 'object', '3': 'falsy_object', '1': 'partial', '2': 'future'},
    {'0': 'falsy_object', '3': 'future', '1': 'object', '2': 'gather'},
    {'0': 'method', '3': 'partial', '1': 'sync_returns_coro', '2': 'awaitable'},
    {'0': 'gather', '3': 'method', '1': 'falsy_object', '2': 'partial'},
    {'0': 'sync_returns_coro', '3': 'gather', '1': 'future', '2': 'falsy_object'},
    {'0': 'partial', '3': 'sync_returns_coro', '1': 'awaitable', '2': 'method'},
)
HOOK_FORMS = M.SYNC_HOOK_FORMS + M.ASYNC_ONLY_HOOK_FORMS


# (original kind, kind whose path the request middleware assigns, also combined with every single fault?)
REROUTES = (('route', 'unrouted', True), ('unrouted', 'route', True), ('route', 'sink', False),
            ('route', 'field', False), ('sink', 'suffix', False), ('field', 'falsy', False),
            ('unrouted', 'sink', False), ('falsy', 'route', False))


def method_kinds():
    ms = M.HTTP_EXTRA + M.WEBDAV + (M.CUSTOM if CUSTOM_OK else ())
    return ['m:' + m for m in ms] + ['ms:' + m for m in M.SUFFIXED_EXTRA if m in ms]


def exhaustive_plan(tier):
    """[(max components, {kind: (max faults, number of faults from which the reduced action set is used)})]"""
    if tier == 'quick':
        plan = {'route': (2, 2), 'sink': (1, 2), 'unrouted': (1, 2), 'nomethod': (1, 2), 'options': (1, 2),
                'field': (1, 2), 'suffix': (0, 2), 'falsy': (1, 2)}
        # every other implemented method (HTTP, WebDAV, custom; plain and suffixed): fault-free (the thorough
        # tier adds every single fault)
        plan.update({k: (0, 2) for k in method_kinds()})
        return [(2, plan)]
    plan = {'route': (3, 3), 'sink': (2, 3), 'unrouted': (2, 3), 'nomethod': (2, 3), 'options': (2, 3),
            'field': (2, 3), 'suffix': (1, 2), 'falsy': (1, 2)}
    plan.update({k: (1, 2) for k in method_kinds()})
    return [(2, plan),
            (3, {'route': (2, 2), 'sink': (1, 2), 'unrouted': (1, 2), 'nomethod': (1, 2), 'field': (1, 2)})]


def exhaustive(rec):
    idx = 0
    for maxcomp, plan in exhaustive_plan(rec.tier):
        for si, comps in enumerate(shapes(maxcomp)):
            if maxcomp == 3 and len(comps) < 3:
                continue        # already covered by the 2-component plan
            for independent in (True, False):
                # the way the four hook actions are provided rotates over the stacks (independent of the shard)
                script = dict(EXH_HOOKS, independent=independent, comps=comps,
                              hook_forms=EXH_HOOK_FORMS[(si // 2 + independent) % len(EXH_HOOK_FORMS)],
                              hform=M.SYNC_HOOK_FORMS[(si + independent) % len(M.SYNC_HOOK_FORMS)],
                              sform=M.SYNC_HOOK_FORMS[(si + 2 + independent) % len(M.SYNC_HOOK_FORMS)],
                              hostile_exc=bool((si // 3 + independent) % 2),
                              exc_shape=EXC_SHAPE_NAMES[(si + 3 * independent) % len(EXC_SHAPE_NAMES)])
                idx += 1
                if idx % rec.nshards != rec.shard:
                    continue
                skey = script_key(script)
                rec.seen('scripts', skey)
                for stack in STACKS:
                    app, ctx = build_app(script, stack)
                    for kind, (mf, reduced_from) in plan.items():
                        sites = reachable_sites(script, kind)
                        for actions, hactions in placements(
                                sites, mf, reduced_from, 0 if (rec.tier == 'quick' or kind == 'route') else 4,
                                need_mw=(rec.tier == 'quick' and len(comps) == 2) or len(comps) == 3):
                            case = {'stack': stack, 'kind': kind, 'actions': actions, 'hactions': hactions}
                            check_case(rec, script, case, app, ctx)
                            rec.case(case_key(skey, case) if actions else None)
                            rec.count('exh.faults.%d' % len(actions))
                    if maxcomp == 2:
                        # request middleware re-routes the request (assigns req.path): alone, and combined with
                        # every single fault for the pairs that change the route class
                        req_sites = [x for x in reachable_sites(script, 'route') if x.endswith('.req')]
                        for orig, target, with_faults in REROUTES:
                            sites = reachable_sites(script, target)
                            for rs in req_sites:
                                others = [x for x in sites if x != rs]
                                for actions, hactions in placements(others, 1 if with_faults else 0, 1, 0):
                                    actions = dict(actions)
                                    actions[rs] = 'reroute:' + target
                                    case = {'stack': stack, 'kind': orig, 'actions': actions, 'hactions': hactions}
                                    check_case(rec, script, case, app, ctx)
                                    rec.case(case_key(skey, case))
                                    rec.count('exh.reroute')
                    if maxcomp == 2 and len(comps) == 1:
                        # the same one-component stack spelled differently, with and without the implicit
                        # CORS component: nothing changes for the user's component
                        sites = reachable_sites(script, 'route')
                        for spell, cors in (('bare', False), ('bare', True), ('tuple', True), ('iter', False),
                                            ('list', True)):
                            sc = dict(script, mw_arg=spell, cors=cors)
                            app2, ctx2 = build_app(sc, stack)
                            for kind in ('route', 'unrouted'):
                                for actions, hactions in placements(reachable_sites(sc, kind), 1, 2):
                                    case = {'stack': stack, 'kind': kind, 'actions': actions, 'hactions': hactions}
                                    check_case(rec, sc, case, app2, ctx2)
                                    rec.case(case_key(script_key(sc), case) if actions else None)
                                    rec.count('exh.spelling.%s%s' % (spell, '.cors' if cors else ''))
                    if maxcomp == 2 and len(comps) == 2:
                        # the app is reconfigured between requests: the 2nd component is registered with
                        # add_middleware() only after the app has served requests
                        app, ctx = build_app(script, stack, defer_from=1)
                        sites = [x for x in reachable_sites(script, 'route') if x.startswith('M')]
                        for pre in (1, None):
                            if pre is None:
                                ctx.add_pending()
                            for actions, hactions in placements(sites, 1, 2):
                                if pre is not None and any(k.startswith('M1.') for k in actions):
                                    continue
                                case = {'stack': stack, 'kind': 'route', 'actions': actions, 'hactions': hactions}
                                if pre is not None:
                                    case['pre_add'] = pre
                                check_case(rec, script, case, app, ctx)
                                rec.case(case_key(skey, case) if actions else None)
                                rec.count('exh.reconfigured.' + ('before_add' if pre is not None else 'after_add'))
        if rec.shard == 0:
            rec.note('exhaustive: all stacks of <= %d components x every non-empty subset of the 3 methods x both '
                     'independent_middleware values x both stacks x every fault placement per request kind '
                     '(max faults, reduced action set from) = %r (fixed hook stack: class before, after; method '
                     'after, before on on_get, the callable form of each hook action rotating over the stacks; on_get, '
                     'on_get_items and every second other responder inherited from an undecorated base class)'
                     % (maxcomp, plan))
    rec.exhaustive = True


# ------------------------------------------------------------------ configuration histories

def config_histories_exhaustive(rec):
    """(1) an add_middleware() call that the framework refuses (duplicate CORSMiddleware under cors_enable, a
    component without any method, a component written for the other kind of app), carrying an otherwise valid
    component, at every point of the registration history; (2) components whose truth value is False in every
    spelling of the middleware argument.  Requests and the lifespan protocol afterwards."""
    idx = 0
    c0 = {'req': 'plain', 'rsrc': None, 'resp': 'plain', 'startup': True, 'shutdown': True}
    c1 = {'req': 'plain', 'rsrc': 'plain', 'resp': 'plain', 'startup': True, 'shutdown': False}
    base = {'independent': True, 'hooks_class': [], 'hooks_method': []}
    jobs = []
    for why in ('cors', 'nomethods', 'compat'):
        for order in (0, 1):
            for ctor in (None, 0, 1):
                for reprepare in (False, True):
                    for single in (False, True):
                        for repeat in (None, 0) if ctor != 0 else (None,):
                            ref = {'why': why, 'order': order, 'reprepare': reprepare}
                            if repeat is not None:
                                ref['repeat'] = repeat
                            sc = dict(base, comps=[c0, c1], cors=(why == 'cors'), add_single=single, refused=ref)
                            if ctor is not None:
                                sc['ctor'] = ctor
                            jobs.append(('refused.repeat' if repeat is not None else 'refused.' + why, sc))
    for n in (1, 2):
        for mask in range(1, 2 ** n):
            comps = [dict((c0, c1)[k], falsy=bool(mask >> k & 1)) for k in range(n)]
            for spell in ('list', 'tuple', 'iter', 'bare'):
                for ctor in (None, 0, 1) if n == 2 else (None, 0):
                    for single in (False, True):
                        sc = dict(base, comps=comps, mw_arg=spell, add_single=single)
                        if ctor is not None:
                            sc['ctor'] = ctor
                        jobs.append(('falsy_component', sc))
    for label, sc in jobs:
        idx += 1
        if idx % rec.nshards != rec.shard:
            continue
        skey = script_key(sc)
        rec.seen('scripts', skey)
        for stack in STACKS:
            built = build_checked(rec, sc, stack)
            rec.count('cfg.' + label)
            if built is None:
                rec.count('cfg.build_failed.' + label)
                continue
            app, ctx = built
            for kind in ('route', 'unrouted'):
                for actions, hactions in placements(reachable_sites(sc, kind), 1, 2):
                    case = {'stack': stack, 'kind': kind, 'actions': actions, 'hactions': hactions}
                    check_case(rec, sc, case, app, ctx)
                    rec.case(case_key(skey, case) if actions else None)
        hs = ['M%d.startup' % i for i, c in enumerate(sc['comps']) if c['startup']] + \
             ['M%d.shutdown' % i for i, c in enumerate(sc['comps']) if c['shutdown']]
        for j, lactions in enumerate([{}] + [{h: RAISE_KINDS[(j + idx) % len(RAISE_KINDS)]} for j, h in enumerate(hs)]):
            run_lifespan_case(rec, sc, lactions)
            rec.case(('cfg-lifespan', skey, tuple(sorted(lactions.items()))))
            rec.count('cfg.lifespan.' + label)


# ------------------------------------------------------------------ random part

def random_script(rng):
    n = rng.choice([0, 1, 2, 3, 3, 4, 4])
    comps = []
    for _ in range(n):
        while True:
            c = {}
            for m in METHODS:
                r = rng.random()
                c[m] = None if r < 0.35 else rng.choice(['plain', 'plain', 'both', 'async_only'])
            c['startup'] = rng.random() < 0.3
            c['shutdown'] = rng.random() < 0.3
            c['lform'] = rng.choice(LFORMS)
            if any(c[m] for m in METHODS) or c['startup'] or c['shutdown']:
                break
        comps.append(c)
    hid = itertools.count()
    hooks_class = [[rng.choice(['before', 'after']), next(hid)] for _ in range(rng.choice([0, 0, 1, 1, 2, 3]))]
    hooks_method = [[rng.choice(['before', 'after']), next(hid)] for _ in range(rng.choice([0, 1, 2, 3, 4]))]
    inherit = [nm for nm in M.all_responders() if rng.random() < 0.5]
    hooks_base = [[rng.choice(['before', 'after']), next(hid)] for _ in range(rng.choice([0, 0, 1, 2]))] if inherit else []
    forms = {}
    for nm in M.all_responders():
        r = rng.random()
        if r < 0.3:
            forms[nm] = 'object' if r < 0.2 else 'wrapped'
    script = {'independent': rng.random() < 0.5, 'comps': comps, 'hooks_class': hooks_class,
              'hooks_method': hooks_method, 'inherit': inherit, 'hooks_base': hooks_base, 'forms': forms,
              'mw_arg': rng.choice(['list', 'list', 'tuple', 'iter', 'bare']), 'cors': rng.random() < 0.25,
              'hook_forms': {str(h): rng.choice(HOOK_FORMS) for _, h in hooks_class + hooks_method + hooks_base
                             if rng.random() < 0.7}}
    script['hform'] = rng.choice(M.SYNC_HOOK_FORMS)
    script['sform'] = rng.choice(M.SYNC_HOOK_FORMS)
    script['hostile_exc'] = rng.random() < 0.3
    script['exc_shape'] = rng.choice(EXC_SHAPE_NAMES)
    for c in comps:
        if rng.random() < 0.15:
            c['falsy'] = True
    if script['cors'] and rng.random() < 0.5:
        script['refused'] = {'why': 'cors', 'order': rng.randrange(2), 'reprepare': rng.random() < 0.5}
    if n and rng.random() < 0.3:
        script['ctor'] = rng.randrange(0, n)
        script['add_single'] = rng.random() < 0.5
        script['add_after_requests'] = rng.random() < 0.5
    return script


def random_case(rng, script, stack):
    kind = rng.choice(['route', 'route', 'route', 'field', 'suffix', 'options', 'nomethod', 'falsy', 'sink',
                       'unrouted', 'method', 'method', 'method'])
    if kind == 'method':
        kind = rng.choice(method_kinds())
    sites = reachable_sites(script, kind)
    # only sites that exist on this stack
    eff = dict(M.effective(script, stack))
    sites = [s for s in sites if not s.startswith('M') or eff[int(s[1:s.index('.')])][s.split('.')[1]]]
    reroute = None
    if kind in M.GET_KINDS and rng.random() < 0.3:
        rs = [s for s in sites if s.endswith('.req')]
        if rs:
            reroute = (rng.choice(rs), rng.choice([k for k in M.GET_KINDS if k != kind]))
            sites = sites + [s for s in reachable_sites(script, reroute[1]) if s not in sites]
    nf = min(len(sites), rng.choice([0, 1, 1, 2, 2, 3, 3, 4, 5, 6]))
    actions = {}
    for s in rng.sample(sites, nf):
        actions[s] = rng.choice(site_actions(s, False))
    if reroute:
        actions[reroute[0]] = 'reroute:' + reroute[1]
    hactions = [rng.choice(H_ACTIONS) for _ in range(rng.randint(1, 3))]
    return {'stack': stack, 'kind': kind, 'actions': actions, 'hactions': hactions}


def random_phase(rec, frac):
    rng = rec.rng
    n = 0
    n_scripts = 0
    # a minimum number of scripts by count (so the floors do not depend on machine load), then by budget
    while n_scripts < 25 or rec.budget_ok(frac):
        n_scripts += 1
        script = random_script(rng)
        skey = script_key(script)
        rec.seen('scripts', skey)
        for stack in STACKS:
            if not usable_on(script, stack):
                rec.count('random.skipped_stack.' + stack)
                continue
            defer = script.get('ctor') if script.get('add_after_requests') else None
            built = build_checked(rec, script, stack, defer_from=defer)
            if built is None:
                continue
            app, ctx = built
            rec.count('random.apps.' + stack)
            if script.get('ctor') is not None:
                rec.count('random.add_middleware_later')
            if defer is not None:
                rec.count('random.add_middleware_between_requests')
            for j in range(30):
                if defer is not None and j == 10:
                    ctx.add_pending()
                if defer is not None and j < 10:
                    case = random_case(rng, registered_script(script, {'pre_add': defer}), stack)
                    case['pre_add'] = defer
                else:
                    case = random_case(rng, script, stack)
                check_case(rec, script, case, app, ctx)
                rec.case(case_key(skey, case) if nontrivial(case) else None)
                rec.count('random.faults.%d' % min(len(case['actions']), 3))
                n += 1
                if n <= 3:
                    rec.sample({'script': script, 'case': case,
                                'expected_trace': [list(e) for e in M.interpret(script, case)[0]]})
        check_lifespan_random(rec, rng, script)


# ------------------------------------------------------------------ lifespan

def run_lifespan_case(rec, script, lactions, count=True, built=None, late=None):
    ctx = None
    if built is None:
        lctx = {'trace': [], 'log': [], 'actions': lactions}
        built_now = build_checked(rec, script, 'asgi', lctx=lctx,
                                  defer_from=len(script['comps']) - late['n'] if late else None)
        if built_now is None:
            return
        app, ctx = built_now
    else:
        app, lctx = built
        lctx['trace'], lctx['log'], lctx['actions'] = [], [], lactions
    want_trace, want_sent = M.interpret_lifespan(script, lactions, late)
    while_running = None
    if late:
        def register():
            lctx['log'].append(('add_middleware', late['n']))
            ctx.add_pending()
        if late['when'] == 'between':
            while_running = register
        else:
            lctx['in_startup'] = {late['by']: register}
    sent, outcome, val = A.run_lifespan(app, server_like=True, log=lctx['log'], while_running=while_running)
    got_sent = [e.get('type') if isinstance(e, dict) else repr(e) for e in sent]
    got_trace = lctx['trace']
    if count:
        rec.count('mon.lifespan')
        rec.count('lifespan.' + want_sent[-1])
        if len(want_trace) >= 3:
            rec.count('lifespan.ge3_handlers')
    if count:
        for v in lactions.values():
            rec.count('lifespan.raise_kind.' + v)
        for t in want_trace:
            rec.count('lifespan.lform.%s.%s' % (script['comps'][t[1]].get('lform') or 'method', t[0]))
    if count and late:
        rec.count('lifespan.late.' + late['when'])
        if any(t[0] == 'shutdown' and t[1] >= len(script['comps']) - late['n'] for t in want_trace):
            rec.count('lifespan.late.shutdown_of_late_component')
        if any(t[0] == 'startup' and t[1] >= len(script['comps']) - late['n'] for t in want_trace):
            rec.count('lifespan.late.startup_of_late_component')
    wit = {'lifespan': True, 'script': script, 'lactions': lactions, 'late': late, 'got_trace': got_trace,
           'want_trace': want_trace, 'got_sent': got_sent, 'want_sent': want_sent, 'outcome': outcome,
           'log': lctx['log']}
    if outcome == 'raised':
        rec.violation('lifespan-escaped', dict(wit, exc=repr(val)))
        return
    if got_trace != want_trace or got_sent != want_sent:
        known = None
        if refusal_reason_is_prepare_stage(script) and got_sent == want_sent and \
                [t for t in got_trace if t[1] < EXTRA] == want_trace:
            # narrow: only the handlers of the components of the REFUSED call are surplus
            known = KNOWN_REFUSED
        idx = ctx.falsy_bare if ctx is not None else set()
        for sub in nonempty_subsets(idx) if known is None else ():
            alt = M.interpret_lifespan(
                dict(script, comps=[dict(c, startup=False, shutdown=False) if i in sub else c
                                    for i, c in enumerate(script['comps'])]),
                {k: v for k, v in lactions.items() if not any(k.startswith('M%d.' % i) for i in sub)}, late)
            if (got_trace, got_sent) == alt:
                known = KNOWN_FALSY_BARE
                break
        rec.violation('lifespan-handler-order' if got_trace != want_trace else 'lifespan-events', wit,
                      known_key=known)
        return
    # the failure is reported: the failed event carries a message string; handlers saw the right event
    for e in sent:
        if e.get('type', '').endswith('.failed') and not isinstance(e.get('message', ''), str):
            rec.violation('lifespan-failed-message', wit)
            return
    for entry in lctx['log']:
        if entry[0] == 'call' and (entry[3] != 'lifespan.' + entry[1] or entry[4] != 'lifespan'):
            rec.violation('lifespan-handler-args', wit)
            return
    # order of events relative to handlers: *.complete / *.failed only after the handlers of that phase
    log = lctx['log']
    for k, entry in enumerate(log):
        if entry[0] == 'send' and entry[1].startswith('lifespan.startup.'):
            if any(x[0] == 'call' and x[1] == 'startup' for x in log[k + 1:]):
                rec.violation('lifespan-event-before-handlers', wit)
                return
        if entry[0] == 'send' and entry[1].startswith('lifespan.shutdown.'):
            if any(x[0] == 'call' for x in log[k + 1:]):
                rec.violation('lifespan-event-before-handlers', wit)
                return
        if entry[0] == 'call' and entry[1] == 'shutdown':
            if ('receive', 'lifespan.shutdown') not in log[:k]:
                rec.violation('lifespan-shutdown-before-event', wit)
                return
    # components registered late take part in request processing like the others
    if late and ctx is not None and any(e[0] == 'add_middleware' for e in log):
        case = {'stack': 'asgi', 'kind': 'route', 'actions': {}, 'hactions': ['ret']}
        if count:
            rec.count('lifespan.late.http_after')
        check_case(rec, script, case, app, ctx, count=False)


def lifespan_exhaustive(rec):
    """<= 3 components x {none, startup, shutdown, both} x (with / without request methods) x every raise placement."""
    idx = 0
    opts = [(False, False), (True, False), (False, True), (True, True)]
    for n in range(1, 4):
        for combo in itertools.product(opts, repeat=n):
            for reqmask in range(2 ** n):
                idx += 1
                if idx % rec.nshards != rec.shard:
                    continue
                comps = []
                for k, (su, sd) in enumerate(combo):
                    has_req = bool(reqmask >> k & 1)
                    if not (su or sd or has_req):
                        has_req = True
                    comps.append({'req': 'plain' if has_req else None, 'rsrc': None,
                                  'resp': 'async_only' if has_req and k % 2 else None, 'startup': su, 'shutdown': sd,
                                  'lform': LFORMS[(idx + 2 * k) % len(LFORMS)]})
                script = {'independent': True, 'comps': comps, 'hooks_class': [], 'hooks_method': []}
                hs = ['M%d.startup' % i for i, c in enumerate(comps) if c['startup']] + \
                     ['M%d.shutdown' % i for i, c in enumerate(comps) if c['shutdown']]
                lctx = {'trace': [], 'log': [], 'actions': {}}
                built = (build_app(script, 'asgi', lctx)[0], lctx)
                for nb, bits in enumerate(itertools.product(('ret', 'raise'), repeat=len(hs))):
                    # the kind of exception (ordinary, __str__ raises, __repr__ raises, unprintable argument) rotates
                    lactions = {h: RAISE_KINDS[(nb + j + idx) % len(RAISE_KINDS)]
                                for j, (h, b) in enumerate(zip(hs, bits)) if b == 'raise'}
                    run_lifespan_case(rec, script, lactions, built=built)
                    rec.case(('lifespan', tuple(combo), reqmask, tuple(sorted(lactions))) if hs else None)


def lifespan_late_exhaustive(rec):
    """The last k of <= 3 components are registered with add_middleware() after the lifespan scope was opened:
    between startup and shutdown, or from inside an earlier component's process_startup.  Every
    startup/shutdown subset per component, every such registration point, fault-free and every single raise."""
    idx = 0
    opts = [(False, False), (True, False), (False, True), (True, True)]
    for n in range(1, 4):
        for combo in itertools.product(opts, repeat=n):
            comps = [{'req': 'plain', 'rsrc': None, 'resp': 'plain' if k % 2 else None, 'startup': su, 'shutdown': sd,
                      'lform': LFORMS[(n + sum(map(sum, combo)) + 2 * k) % len(LFORMS)]}
                     for k, (su, sd) in enumerate(combo)]
            script = {'independent': True, 'comps': comps, 'hooks_class': [], 'hooks_method': []}
            hs = ['M%d.startup' % i for i, c in enumerate(comps) if c['startup']] + \
                 ['M%d.shutdown' % i for i, c in enumerate(comps) if c['shutdown']]
            for k in range(1, min(2, n) + 1):
                whens = [{'n': k, 'when': 'between'}]
                whens += [{'n': k, 'when': 'startup', 'by': i} for i in range(n - k) if comps[i]['startup']]
                for add_single in (False, True):
                    for late in whens:
                        idx += 1
                        if idx % rec.nshards != rec.shard:
                            continue
                        sc = dict(script, add_single=add_single)
                        for lactions in [{}] + [{h: RAISE_KINDS[(j + idx) % len(RAISE_KINDS)]} for j, h in enumerate(hs)]:
                            run_lifespan_case(rec, sc, lactions, late=late)
                            rec.case(('lifespan-late', tuple(combo), k, add_single, tuple(sorted(late.items())),
                                      tuple(lactions)))


def check_lifespan_random(rec, rng, script):
    hs = [('M%d.startup' % i) for i, c in enumerate(script['comps']) if c.get('startup')] + \
         [('M%d.shutdown' % i) for i, c in enumerate(script['comps']) if c.get('shutdown')]
    if not usable_on(script, 'asgi'):
        return
    lactions = {h: rng.choice(RAISE_KINDS) for h in hs if rng.random() < 0.25}
    late = None
    n = len(script['comps'])
    if n and rng.random() < 0.4:
        k = rng.randint(1, n)
        cands = [i for i in range(n - k) if script['comps'][i].get('startup')]
        if cands and rng.random() < 0.5:
            late = {'n': k, 'when': 'startup', 'by': rng.choice(cands)}
        else:
            late = {'n': k, 'when': 'between'}
        script = {k2: v for k2, v in script.items() if k2 != 'ctor'}
    run_lifespan_case(rec, script, lactions, late=late)
    rec.case(('lifespan-r', script_key(script), tuple(sorted(lactions)), repr(late)) if hs else None)


# ------------------------------------------------------------------ entry points

def set_floors(rec):
    for stack in STACKS:
        rec.floor('mon.trace.' + stack, 2000)
        for kind in ('req', 'rsrc', 'resp', 'after', 'responder', 'sink'):
            for a in ('ret',) + MW_ACTIONS:
                rec.floor('site.%s.%s.%s' % (stack, kind, a), 20)
        for a in ('ret', 'http_error', 'http_status', 'app_handled', 'app_unhandled'):
            rec.floor('site.%s.before.%s' % (stack, a), 20)
        for a in H_ACTIONS:
            rec.floor('site.%s.handler.%s' % (stack, a), 20)
        for c in ('shortcircuit.req', 'shortcircuit.rsrc', 'raise.req', 'raise.rsrc', 'raise.resp',
                  'raise.resp.then_more', 'raise.before', 'raise.after', 'after.skipped',
                  'dependent.req_raise', 'dependent.resp_dropped', 'dependent.second_resp_fault',
                  'second_resp_fault', 'responder.on_get', 'responder.on_get_f', 'responder.on_get_items',
                  'responder.sink', 'responder.404', 'responder.405', 'responder.auto_options',
                  'inherit.class_before', 'inherit.class_after', 'inherit.class_after_innermost',
                  'hostile.handled', 'hostile.unhandled',
                  'inherit.base_hook', 'own.class_hook', 'form.object', 'form.wrapped', 'form.object.classhook',
                  'form.wrapped.classhook', 'form.object.classhook.inherited'):
            rec.floor('cls.%s.%s' % (stack, c), 20)
        rec.floor('site.%s.req.reroute' % stack, 50)
        for sh in EXC_SHAPE_NAMES:
            rec.floor('cls.%s.excshape.%s' % (stack, sh), 20)
        for orig, target, _ in REROUTES:
            rec.floor('cls.%s.reroute.%s->%s' % (stack, orig, target), 10)
        for hf in M.SYNC_HOOK_FORMS:
            rec.floor('cls.%s.hform.%s' % (stack, hf), 20)
            rec.floor('cls.%s.sform.%s' % (stack, hf), 20)
        for hf in (M.SYNC_HOOK_FORMS if stack == 'wsgi' else HOOK_FORMS):
            for ba in ('before', 'after'):
                rec.floor('cls.%s.hookform.%s.%s' % (stack, hf, ba), 20)
        for k in ('route', 'field', 'suffix', 'options', 'nomethod', 'falsy', 'sink', 'unrouted'):
            rec.floor('kind.%s.%s' % (stack, k), 50)
        for k in method_kinds():
            rec.floor('kind.%s.%s' % (stack, k), 10)
        for c in ('method.http', 'method.webdav', 'method.custom', 'classhook.http', 'classhook.webdav',
                  'classhook.custom', 'classhook.http.suffixed', 'classhook.webdav.suffixed',
                  'classhook.custom.suffixed'):
            rec.floor('cls.%s.%s' % (stack, c), 20)
        rec.floor('random.apps.' + stack, 5)
    rec.floor('mon.lifespan', 200)
    for ev in ('lifespan.startup.failed', 'lifespan.shutdown.failed', 'lifespan.shutdown.complete'):
        rec.floor('lifespan.' + ev, 10)
    rec.floor('lifespan.ge3_handlers', 5)
    for k in RAISE_KINDS:
        rec.floor('lifespan.raise_kind.' + k, 20)
    for lab in ('refused.cors', 'refused.nomethods', 'refused.compat', 'refused.repeat', 'falsy_component'):
        rec.floor('cfg.' + lab, 20)
        rec.floor('cfg.lifespan.' + lab, 20)
    for lf in LFORMS:
        for ph in ('startup', 'shutdown'):
            rec.floor('lifespan.lform.%s.%s' % (lf, ph), 20)
    for sp in ('bare', 'bare.cors', 'tuple.cors', 'iter', 'list.cors'):
        rec.floor('exh.spelling.' + sp, 20)
    for c in ('between', 'startup', 'shutdown_of_late_component', 'startup_of_late_component', 'http_after'):
        rec.floor('lifespan.late.' + c, 20)
    rec.floor('random.faults.3', 20)
    rec.floor('random.add_middleware_later', 3)
    rec.floor('random.add_middleware_between_requests', 2)
    rec.floor('exh.reconfigured.before_add', 50)
    rec.floor('exh.reconfigured.after_add', 50)


def run(rec):
    rec.rule = ('scripts (<=4 middleware components x subset of process_request/resource/response x naming style, '
                'class/method before/after hook stacks, independent_middleware on/off) compiled to falcon.App and '
                'falcon.asgi.App; each case = request kind x assignment of an action (return / resp.complete / '
                'HTTPError / HTTPStatus / app error with handler / app error without handler) to call sites, plus '
                'per-invocation handler actions; the recorded call trace with resource/req_succeeded arguments and '
                'the final status are compared with a reference interpreter. non-trivial = at least one non-return '
                'action (or, for lifespan, at least one handler); distinct by (script, case)')
    rec.assumptions = ['reference interpreter vlib/models/c03_stack.py reads docs/api/middleware.rst correctly',
                       'error handlers raise only HTTPError/HTTPStatus (what the documentation allows)',
                       'resp.complete set inside a before hook is not exercised (undocumented)',
                       'WebSocket connections (process_request_ws / process_resource_ws / on_websocket) are not part of '
                       'this property: its discipline (resp.complete, response methods, req_succeeded) is the HTTP '
                       'one; C17 covers the WebSocket flow',
                       'ASGI error handlers and sinks are coroutine functions; hook actions and lifespan handlers are '
                       'any callable returning an awaitable',
                       'FALCON_ASGI_WRAP_NON_COROUTINES (falcon test-suite switch) is removed from the environment',
                       'the position of the implicit CORSMiddleware (cors_enable) relative to user components is '
                       'undocumented and not judged; only the user components\' own call sequence is']
    set_floors(rec)
    lifespan_exhaustive(rec)
    lifespan_late_exhaustive(rec)
    exhaustive(rec)
    config_histories_exhaustive(rec)   # (last of the deterministic parts: it meets the two recorded defects)
    random_phase(rec, 0.9 if rec.tier == 'quick' else 0.95)


def replay(rec, w):
    wit = w['witness']
    script = wit['script']
    if wit.get('build'):
        built = build_checked(rec, script, wit['stack'])
        print('build', 'ok' if built else 'FAILED / refused call accepted')
        rec.case(('build', repr(script)))
        rec.case(('build-replay', 1))
        return
    if wit.get('lifespan'):
        run_lifespan_case(rec, script, wit['lactions'], late=wit.get('late'))
        rec.case(('lifespan', repr(wit['lactions'])))
        rec.case(('lifespan-replay', 1))
        return
    case = wit['case']
    app, ctx = build_app(script, case['stack'], defer_from=case.get('pre_add'))
    want = M.interpret(registered_script(script, case), case)
    ok = check_case(rec, script, case, app, ctx)
    print('expected trace:', want[0], 'status', want[1])
    print('got trace     :', ctx.trace)
    print('agrees' if ok else 'DISAGREES')
    rec.case(case_key(script_key(script), case))
    rec.case(('replay', 1))
