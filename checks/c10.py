"""C10 - URI encode/decode total, lossless, RFC 3986.  DESIGN.md section 4, C10.

Monitor: reference codec (vlib/models/uri.py) evaluated on every generated input next to
the real falcon.uri functions; output-alphabet, round-trip and idempotence monitors.
"""

import itertools

from falcon import uri

from vlib.models import uri as M

LEVEL = 'exploration'
SHARDS = {'quick': 4, 'thorough': 16}
BUDGET = {'quick': 15, 'thorough': 150}
MODES = {'quick': ['pure'], 'thorough': ['pure', 'asbuilt', 'asan']}

ALPHABET = ['%', '+', '2', '5', '0', 'C', 'c', 'E', 'f', 'g', '/', '&', '~', '-', ' ', '\x00',
            'é', '€', '\U0001F600', '=']

ENCODERS = [
    ('encode', False, False), ('encode_value', True, False),
    ('encode_check_escaped', False, True), ('encode_value_check_escaped', True, True),
]


def check_string(rec, s):
    """Run every monitor on one input string; returns number of monitor evaluations."""
    # -- decode vs reference, total
    for plus in (True, False):
        try:
            got = uri.decode(s, unquote_plus=plus)
        except Exception as ex:  # noqa
            rec.violation('decode-raised', {'fn': 'decode', 's': s, 'plus': plus, 'exc': repr(ex)})
            continue
        want = M.ref_decode(s, plus)
        rec.count('mon.decode')
        if got != want:
            known = None
            if rec.mode != 'pure' and not plus and got == M.ref_decode(s.replace('+', '%'), False).replace('%', '+') \
                    and '%' not in s:
                # narrow classifier: the built Cython twin treats '+' as an escape introducer
                # when unquote_plus=False (falcon/cyutil/uri.pyx cy_decode falls through to the '%' branch)
                known = 'cy-twin-plus-treated-as-percent'
            elif rec.mode != 'pure' and not plus and _twin_plus_variant(s) == got:
                known = 'cy-twin-plus-treated-as-percent'
            rec.violation('decode-mismatch', {'fn': 'decode', 's': s, 'plus': plus, 'got': got, 'want': want,
                                              'mode': rec.mode}, known_key=known)
    # -- encoders
    by_keyword = len(s) % 5 == 3       # the documented parameter names are part of the call interface
    if by_keyword:
        try:
            if uri.decode(encoded_uri=s, unquote_plus=True) != uri.decode(s):
                rec.violation('decode-mismatch', {'fn': 'decode', 's': s, 'call': 'keyword'})
            rec.count('mon.call_by_keyword')
        except Exception as ex:  # noqa
            rec.violation('decode-raised', {'fn': 'decode', 's': s, 'call': 'keyword', 'exc': repr(ex)})
    for name, value, chk in ENCODERS:
        fn = getattr(uri, name)
        try:
            out = fn(uri=s) if by_keyword else fn(s)
        except Exception as ex:  # noqa
            rec.violation('encode-raised', {'fn': name, 's': s, 'exc': repr(ex), 'call': 'keyword' if by_keyword else 'positional'})
            continue
        rec.count('mon.' + name)
        if not chk:
            want = M.ref_encode(s, value)
            if out != want:
                rec.violation('encode-mismatch', {'fn': name, 's': s, 'got': out, 'want': want})
                continue
            if not M.wellformed_output(out, value, upper_only=True):
                rec.violation('encode-alphabet', {'fn': name, 's': s, 'got': out})
            back = uri.decode(out, unquote_plus=False)
            if back != s:
                known = None
                if rec.mode != 'pure' and _twin_plus_variant(out) == back and M.ref_decode(out, False) == s:
                    known = 'cy-twin-plus-treated-as-percent'
                rec.violation('encode-roundtrip', {'fn': name, 's': s, 'enc': out, 'back': back}, known_key=known)
            if value and uri.decode(out) != s:
                rec.violation('encode-roundtrip-plus', {'fn': name, 's': s, 'enc': out})
        else:
            esc = M.fully_escaped(s, value)
            rec.count('chk.fully_escaped' if esc else 'chk.not_escaped')
            if esc:
                if out != s:
                    rec.violation('check-escaped-changed', {'fn': name, 's': s, 'got': out})
            else:
                if not M.wellformed_output(out, value, upper_only=False):
                    rec.violation('check-escaped-alphabet', {'fn': name, 's': s, 'got': out})
                if M.ref_decode(out, False) != s:
                    rec.violation('check-escaped-lossy', {'fn': name, 's': s, 'got': out})
            try:
                again = fn(out)
            except Exception as ex:  # noqa
                rec.violation('encode-raised', {'fn': name, 's': out, 'exc': repr(ex)})
                continue
            if again != out:
                rec.violation('check-escaped-not-idempotent', {'fn': name, 's': s, 'once': out, 'twice': again})


def _twin_plus_variant(s):
    """What the as-built twin computes for unquote_plus=False: '+XX' decoded like '%XX'."""
    b = s.encode('utf-8')
    out = bytearray()
    i, n = 0, len(b)
    while i < n:
        if b[i] in (0x25, 0x2B) and n - i >= 3 and b[i + 1] in M.HEX and b[i + 2] in M.HEX:
            out.append(int(b[i + 1:i + 3], 16))
            i += 3
        else:
            out.append(b[i])
            i += 1
    return out.decode('utf-8', 'replace')


def nontrivial(s):
    return '%' in s or '+' in s or any(ord(c) > 127 for c in s) or any(c not in M.UNRESERVED for c in s)


# ---- authority forms

def gen_authority(rng):
    kind = rng.choice(['reg', 'reg2', 'ipv4', 'ipv6', 'ipv6bare', 'ipvfuture'])
    if kind == 'reg':
        labels = [''.join(rng.choice('abcxyz019-') for _ in range(rng.randint(1, 8))) for _ in range(rng.randint(1, 4))]
        host = '.'.join(labels)
    elif kind == 'reg2':
        host = ''.join(rng.choice("abz09-._~!$&'()*+,;=") for _ in range(rng.randint(1, 12)))
    elif kind == 'ipv4':
        host = '.'.join(str(rng.randint(0, 255)) for _ in range(4))
    elif kind == 'ipvfuture':
        host = 'v' + ''.join(rng.choice('0123456789abcdefABCDEF') for _ in range(rng.randint(1, 3))) + '.' + \
            ''.join(rng.choice("abz09-._~!$&'()*+,;=:") for _ in range(rng.randint(1, 12)))
    else:
        if rng.random() < 0.5:
            host = ':'.join('%x' % rng.randint(0, 0xFFFF) for _ in range(8))
        else:
            host = '::' + ':'.join('%x' % rng.randint(0, 0xFFFF) for _ in range(rng.randint(1, 6)))
        if rng.random() < 0.2:
            host = '::ffff:' + '.'.join(str(rng.randint(0, 255)) for _ in range(4))
    port = rng.choice([None, None, rng.randint(0, 65535), rng.choice([80, 443, 8080, 1, 65535, 0, 0, 9, 10])])
    default = rng.choice([None, 80, 443])
    if kind in ('ipv6', 'ipvfuture'):
        text = '[' + host + ']' + ('' if port is None else ':%d' % port)
    elif kind == 'ipv6bare':
        text, port = host, None
    else:
        text = host + ('' if port is None else ':%d' % port)
    want = (host, default if port is None else port)
    return text, default, want


def check_authority(rec, rng):
    text, default, want = gen_authority(rng)
    try:
        got = uri.parse_host(text, default)
    except Exception as ex:  # noqa
        rec.violation('parse_host-raised', {'host': text, 'default': default, 'exc': repr(ex)})
        return
    rec.count('mon.parse_host')
    if tuple(got) != want:
        rec.violation('parse_host-mismatch', {'host': text, 'default': default, 'got': got, 'want': want})
    rec.case(('auth', text, default))


def check_unquote(rec, rng):
    s = ''.join(rng.choice('ab\\\\"" ,;=\té') for _ in range(rng.randint(0, 10)))
    q = M.ref_quote_string(s)
    try:
        got = uri.unquote_string(q)
    except Exception as ex:  # noqa
        rec.violation('unquote-raised', {'q': q, 'exc': repr(ex)})
        return
    rec.count('mon.unquote')
    if got != s:
        rec.violation('unquote-mismatch', {'q': q, 'got': got, 'want': s})
    # non-quoted strings are returned unchanged
    t = s.strip('"')
    if t and uri.unquote_string(t) != t:
        rec.violation('unquote-unquoted-changed', {'q': t, 'got': uri.unquote_string(t)})
    rec.case(('unq', q))


ESC_ALPHABET = ['%', '%', '%', '2', '5', '0', 'C', 'c', 'E', 'f', 'g', 'a', '/', '-', '~', '=', '&', '+', ',']


def escaped_looking_string(rng):
    """Only allowed characters, '%' and hex digits: the domain of the 'already escaped?' heuristic
    (first escape valid / later escape malformed, sign characters after '%', trailing '%', ...)."""
    return ''.join(rng.choice(ESC_ALPHABET) for _ in range(rng.randint(1, 14)))


def random_string(rng):
    if rng.random() < 0.25:
        return escaped_looking_string(rng)
    r = rng.random()
    if r < 0.35:
        n = rng.randint(5, 40)
    elif r < 0.8:
        n = rng.randint(40, 400)
    else:
        n = rng.randint(400, 8000)
    style = rng.random()
    out = []
    if style < 0.3:        # escape-dense (>= 8 escapes: joiner path)
        for _ in range(n // 3 + 8):
            out.append('%' + rng.choice('0123456789abcdefABCDEFgG') + rng.choice('0123456789abcdefABCDEF%+'))
    elif style < 0.5:      # valid UTF-8 escaped
        raw = ''.join(rng.choice(['a', 'é', '€', '😀', ' ', '/', '+', '%']) for _ in range(n // 4 + 1))
        enc = ''.join('%%%02X' % b if rng.random() < 0.8 else chr(b) if b < 128 else '%%%02x' % b for b in raw.encode())
        out.append(enc)
    elif style < 0.7:      # no escapes at all
        out.append(''.join(rng.choice('abcXYZ019-._~/:?#&=,; é€😀\x00\x7f') for _ in range(n)))
    else:
        out.append(''.join(rng.choice(ALPHABET + ['a', 'A', '9', '%', '%']) for _ in range(n)))
    return ''.join(out)


# ---- code-point classes: one representative string family per Unicode predicate / UTF-8 byte value

def codepoint_sweep(quick):
    """Code points such that every UTF-8 lead and continuation byte value occurs, every length boundary and plane
    edge, plus a stride sample of the whole range (thorough: every code point)."""
    cps = set(range(0x80, 0x300))
    cps.update([0x7FF, 0x800, 0xFFF, 0x1000, 0xD7FF, 0xE000, 0xFFFD, 0xFFFE, 0xFFFF])
    for plane in range(1, 17):
        base = plane << 16
        cps.update([base, base + 1, base + 0x3F, base + 0x40, base + 0xFFF, base + 0x1000, base + 0xFFFE, base + 0xFFFF])
    cps.update(range(0x800, 0x10000, 0x40 * 3 + 1))            # 3-byte: second/third byte values sweep
    cps.update(range(0x10000, 0x110000, 0x1000 * 3 + 0x41))     # 4-byte: all four byte positions sweep
    cps.update(range(0, 0x110000, 97 if quick else 1))
    return sorted(c for c in cps if not 0xD800 <= c <= 0xDFFF)


PREDICATES = ('isdigit', 'isdecimal', 'isnumeric', 'isalpha', 'isspace', 'isupper', 'islower', 'istitle', 'isidentifier')


def predicate_members():
    """For each str predicate: its ASCII members and a spread of non-ASCII members (strings made only of members of
    one predicate class are what a `if s.isdigit(): fast path` style shortcut sees)."""
    out = {}
    for name in PREDICATES:
        asc = [chr(c) for c in range(128) if getattr(chr(c), name)()]
        non = [chr(c) for c in range(128, 0x30000) if not 0xD800 <= c <= 0xDFFF and getattr(chr(c), name)()]
        out[name] = (asc[:3], non[::max(1, len(non) // 24)][:24])
    return out


AUTH_HOSTS = [
    # (text inside the authority, host wanted)
    ('example.com', 'example.com'), ('a', 'a'), ('a-b.c-d', 'a-b.c-d'), ('EXAMPLE.com', 'EXAMPLE.com'), ('localhost', 'localhost'),
    ('a_b~c', 'a_b~c'), ("x!$&'()*+,;=y", "x!$&'()*+,;=y"), ('ex%41mple.org', 'ex%41mple.org'), ('xn--nxasmq6b', 'xn--nxasmq6b'),
    ('1.2.3.4', '1.2.3.4'), ('255.255.255.255', '255.255.255.255'), ('0.0.0.0', '0.0.0.0'), ('1.2.3', '1.2.3'), ('999.1.1.1', '999.1.1.1'),
    ('[::1]', '::1'), ('[::]', '::'), ('[1:2:3:4:5:6:7:8]', '1:2:3:4:5:6:7:8'), ('[fe80::1%25eth0]', 'fe80::1%25eth0'),
    ('[::ffff:1.2.3.4]', '::ffff:1.2.3.4'), ('[2001:db8::8:800:200c:417a]', '2001:db8::8:800:200c:417a'),
    ('[v7.example]', 'v7.example'), ('[v1.fe80::a+en1]', 'v1.fe80::a+en1'), ('[vF.a]', 'vF.a'), ('[v1a.x:y]', 'v1a.x:y'),
    ("[v2.!$&'()*+,;=]", "v2.!$&'()*+,;="), ('[v9.-._~]', 'v9.-._~'),
]


def authority_grammar(rec):
    """Deterministic: every host form x port {absent, 0, 1, 80, 8000, 65535} x default {None, 80}."""
    for text, host in AUTH_HOSTS:
        for port in (None, 0, 1, 80, 8000, 65535):
            for default in (None, 80):
                full = text if port is None else '%s:%d' % (text, port)
                want = (host, default if port is None else port)
                try:
                    got = uri.parse_host(host=full, default_port=default) if port == 1 else uri.parse_host(full, default)
                except Exception as ex:  # noqa
                    rec.violation('parse_host-raised', {'host': full, 'default': default, 'exc': repr(ex)})
                    continue
                rec.count('mon.parse_host')
                rec.count('mon.parse_host_grammar')
                if tuple(got) != want:
                    rec.violation('parse_host-mismatch', {'host': full, 'default': default, 'got': got, 'want': want})
                rec.case(('auth', full, default))
    # long reg-names (RFC 3986 sets no limit): the colon at and around positions where small-int caching, 8-bit
    # counters or buffer sizes could matter
    for pos in (63, 64, 127, 128, 254, 255, 256, 257, 258, 300, 511, 512, 1023, 1024, 4096, 65536):
        labels = []
        while sum(len(x) + 1 for x in labels) < pos:
            labels.append('a' * min(60, pos - sum(len(x) + 1 for x in labels)))
        host = '.'.join(labels)[:pos].rstrip('.') or 'a'
        host = host + 'b' * (pos - len(host))
        for port, default in ((8080, None), (None, 80), (0, 443)):
            full = host if port is None else '%s:%d' % (host, port)
            want = (host, default if port is None else port)
            try:
                got = uri.parse_host(full, default)
            except Exception as ex:  # noqa
                rec.violation('parse_host-raised', {'host': full[:80] + '...', 'len': len(full), 'default': default, 'exc': repr(ex)})
                continue
            rec.count('mon.parse_host')
            rec.count('mon.parse_host_long')
            if tuple(got) != want:
                rec.violation('parse_host-mismatch', {'host': full[:40] + '...' + full[-12:], 'len': len(full), 'default': default,
                                                      'got': [str(got[0])[:40] + '...' + str(got[0])[-12:], got[1]], 'want_port': want[1]})
    # bare (unbracketed) IPv6: documented to be returned whole with the default port
    for text in ('::1', '1:2:3:4:5:6:7:8', 'fe80::1', '::'):
        for default in (None, 443):
            try:
                got = uri.parse_host(text, default)
            except Exception as ex:  # noqa
                rec.violation('parse_host-raised', {'host': text, 'default': default, 'exc': repr(ex)})
                continue
            rec.count('mon.parse_host')
            if tuple(got) != (text, default):
                rec.violation('parse_host-mismatch', {'host': text, 'default': default, 'got': got, 'want': (text, default)})


def unicode_phase(rec):
    quick = rec.tier == 'quick'
    cps = codepoint_sweep(quick)
    for i, cp in enumerate(cps):
        if i % rec.nshards != rec.shard:
            continue
        c = chr(cp)
        for t in ((c, c + 'a', '/' + c) if i % 7 == 0 or quick is False and i % 50 == 0 else (c,)):
            check_string(rec, t)
            rec.case(t)
        rec.count('unicode.codepoints')
    members = predicate_members()
    for pi, name in enumerate(PREDICATES):
        if pi % rec.nshards != rec.shard:
            continue
        asc, non = members[name]
        pool = asc + non
        for a in non:
            for t in (a, a + a, a + (asc[0] if asc else a), (asc[0] if asc else a) + a, a + non[0] + a):
                check_string(rec, t)
                rec.case(t)
                rec.count('unicode.predicate_strings')
        rng = __import__('random').Random(pi)
        for _ in range(60 if quick else 600):
            t = ''.join(rng.choice(pool) for _ in range(rng.randint(2, 6)))
            check_string(rec, t)
            rec.case(t)
            rec.count('unicode.predicate_strings')


def threaded_phase(rec):
    """decode/encode are plain functions that request threads call concurrently: the same inputs must give the
    reference result when several threads decode different long strings at once (tiny switch interval)."""
    import sys
    import threading
    rng = rec.rng
    old = sys.getswitchinterval()
    sys.setswitchinterval(1e-6)
    try:
        for _ in range(6 if rec.tier == 'quick' else 40):
            n = 6
            inputs = []
            for i in range(n):
                raw = ''.join(rng.choice(['a', 'é', '€', ' ', '/', '+', '%', chr(65 + i)]) for _ in range(rng.randint(12, 60)))
                inputs.append(M.ref_encode(raw, True) + rng.choice(['', '%', '%zz', '%4']))
            wants = [(M.ref_decode(x, True), M.ref_encode(x, True)) for x in inputs]
            bad = []
            barrier = threading.Barrier(n)

            def work(i):
                barrier.wait()
                for _ in range(40):
                    try:
                        got = (uri.decode(inputs[i]), uri.encode_value(inputs[i]))
                    except Exception as ex:  # noqa
                        got = ('raised', repr(ex))
                    if got != wants[i]:
                        bad.append((i, got))
                        return
            ths = [threading.Thread(target=work, args=(i,), daemon=True) for i in range(n)]
            for t in ths:
                t.start()
            for t in ths:
                t.join(60)
            rec.count('mon.threaded_decode', n * 40)
            rec.case(('threads', tuple(inputs)))
            if bad:
                i, got = bad[0]
                rec.violation('concurrent-decode-mismatch', {'s': inputs[i], 'got': got, 'want': wants[i],
                                                            'other_inputs': inputs[:3]})
                break
    finally:
        sys.setswitchinterval(old)


def run(rec):
    rec.rule = ('all strings over a 20-symbol alphabet up to length L (exhaustive, sharded by index) plus random '
                'strings up to 8 KB, each run through decode(x2), 4 encoders and compared with a reference codec; '
                'authority forms and quoted-strings generated from grammar. non-trivial = contains an escape, plus, '
                'non-ASCII or a character outside unreserved; distinct by input string')
    rec.assumptions = ['reference codec vlib/models/uri.py is correct (RFC 3986 reading)',
                       'lone surrogates are excluded from every string that contains an escape (falcon encodes the input as UTF-8 first); escape-free strings with lone surrogates are included (identity)']
    maxlen = 3 if rec.tier == 'quick' else 4
    if rec.mode != 'pure':
        # twin modes: only decode differs from pure mode; drive it with the same inputs
        rec.note('mode=%s decode is %r' % (rec.mode, uri.decode))
        if 'cyutil' not in getattr(uri.decode, '__module__', ''):
            rec.mark_inconclusive('twin mode requested but falcon.uri.decode is not the cyutil twin')
    idx = 0
    for L in range(0, maxlen + 1):
        for tup in itertools.product(ALPHABET, repeat=L):
            idx += 1
            if idx % rec.nshards != rec.shard:
                continue
            s = ''.join(tup)
            check_string(rec, s)
            rec.case(s if nontrivial(s) else None)
            if idx % 9973 == 0:
                rec.sample({'input': s, 'decode': uri.decode(s), 'encode_value': uri.encode_value(s)})
    # every ASCII code point alone and next to an unreserved / reserved neighbour (pure-ASCII inputs)
    if rec.shard == 0:
        for cp in range(128):
            c = chr(cp)
            for t in (c, 'a' + c, c + 'a', c + c, '/' + c + '?', 'a' * 9 + c):
                check_string(rec, t)
                rec.case(t if nontrivial(t) else None)
                rec.count('ascii_sweep')
        # strings that cannot be UTF-8 encoded (lone surrogates, e.g. surrogateescape'd file names) but contain
        # no escape: decoding is the identity (apart from '+'), and must not fail
        for t in ('caf\udce9', '/files/caf\udce9+menu.txt', 'q=\ud83d', '\udfff', 'a\ud800b+c'):
            for plus in (True, False):
                try:
                    got = uri.decode(t, unquote_plus=plus)
                except Exception as ex:  # noqa
                    # the built Cython twin encodes its argument as UTF-8 before looking for escapes
                    known = 'cy-twin-decode-lone-surrogate-raises' if (rec.mode != 'pure' and isinstance(ex, UnicodeEncodeError)
                                                                       and 'cyutil' in getattr(uri.decode, '__module__', '')) else None
                    rec.violation('decode-raised', {'fn': 'decode', 's': t.encode('utf-8', 'surrogatepass'), 'plus': plus, 'exc': repr(ex)},
                                  known_key=known)
                    continue
                rec.count('mon.decode_surrogate_no_escape')
                if got != (t.replace('+', ' ') if plus else t):
                    rec.violation('decode-mismatch', {'fn': 'decode', 's': t.encode('utf-8', 'surrogatepass'), 'plus': plus})
        for host, default, want in (('', 80, ('', 80)), ('', None, ('', None)), (':8080', None, ('', 8080)),
                                    ('[::1]', 443, ('::1', 443)), ('[::1]:0', 80, ('::1', 0)), ('a:0', 80, ('a', 0))):
            try:
                got = uri.parse_host(host, default)
            except Exception as ex:  # noqa
                rec.violation('parse_host-raised', {'host': host, 'default': default, 'exc': repr(ex)})
                continue
            rec.count('mon.parse_host')
            if tuple(got) != want:
                rec.violation('parse_host-mismatch', {'host': host, 'default': default, 'got': got, 'want': want})
    unicode_phase(rec)
    # very long inputs (header values / paths of 64 KiB and more): every internal path once
    li = 0
    for n in ((65536, 100001) if rec.tier == 'quick' else (65535, 65536, 100001, 300001)):
        for unit in ('a', '%41', '%c3%A9', 'é', '+', '%', '%4', 'a%zz', '😀', '/a?b=c&d', '%F0%9F%98%80x'):
            li += 1
            if li % rec.nshards != rec.shard:
                continue
            t = (unit * (n // len(unit) + 1))[:n]
            check_string(rec, t)
            rec.case(('long', unit, n))
            rec.count('long_inputs')
    # token counts around 2**16 (one token per '%'), with and without text before the first '%'
    for ntok in (65534, 65535, 65536, 70001):
        for prefix, unit in (('q=', '%41'), ('', '%41'), ('é', '%c3%A9'), ('x', '%'), ('ab', '%4'), ('/p?', '%zz')):
            li += 1
            if li % rec.nshards != rec.shard or (rec.tier == 'quick' and ntok in (65534, 65536)):
                continue
            t = prefix + unit * ntok + 'z'
            check_string(rec, t)
            rec.case(('tokens', prefix, unit, ntok))
            rec.count('long_inputs')
    if rec.shard == 0 and rec.mode == 'pure':
        authority_grammar(rec)
    rec.exhaustive = True
    if rec.shard == 0:
        rec.note('exhaustive over all strings of length <= %d over %d symbols' % (maxlen, len(ALPHABET)))
    # part of the next length (quick tier): a random slice
    rng = rec.rng
    n_rand = 0
    while rec.budget_ok(0.85):
        for _ in range(50):
            s = random_string(rng)
            check_string(rec, s)
            rec.case(s if nontrivial(s) else None)
            if s.count('%') >= 8:
                rec.count('random.joiner_path')
            else:
                rec.count('random.short_path')
            n_rand += 1
            if n_rand <= 2:
                rec.sample({'input': s[:80], 'len': len(s)})
            if maxlen < 4:
                t = ''.join(rng.choice(ALPHABET) for _ in range(4))
                check_string(rec, t)
                rec.case(t if nontrivial(t) else None)
        for _ in range(20):
            check_authority(rec, rng)
            check_unquote(rec, rng)
    threaded_phase(rec)
    rec.floor('mon.decode', 1000)
    rec.floor('unicode.codepoints', 2000)
    rec.floor('mon.call_by_keyword', 200)
    rec.floor('long_inputs', 20)
    rec.floor('unicode.predicate_strings', 500)
    rec.floor('mon.threaded_decode', 200)
    rec.floor('random.joiner_path', 10)
    rec.floor('random.short_path', 10)
    rec.floor('chk.fully_escaped', 10)
    rec.floor('chk.not_escaped', 10)
    if rec.mode == 'pure':
        rec.floor('mon.parse_host', 10)
        rec.floor('mon.parse_host_grammar', 300)
        rec.floor('mon.parse_host_long', 40)


def replay(rec, w):
    wit = w['witness']
    if 's' in wit:
        s = wit['s']
        check_string(rec, s)
        rec.case(s)
        rec.case(s + ' ')
    elif 'host' in wit:
        got = uri.parse_host(wit['host'], wit.get('default'))
        print('parse_host ->', got)
