"""C15 - response headers act as a case-insensitive map; cookies get separate lines.
DESIGN.md section 4, C15.

Every generated history of header operations is executed by a responder of a REAL falcon app
(once behind the PEP 3333 driver, once behind the ASGI driver).  Next to it runs the reference
model of vlib/models/c15.py (dict on lower-cased names + raw cookie list + cookie jar):

* after every operation: resp.headers, get_header() in random letter case (with and without
  default), every typed header property are compared with the model; Set-Cookie must be refused
  by get/set/delete_header and set_headers;
* after the request: the header list received by the server driver must hold each plain header
  exactly once (lower-case bytes on ASGI), one Set-Cookie line per raw cookie and per jar cookie;
  every cookie line is parsed with an RFC 6265 user-agent parser and must carry exactly the
  requested attributes; unset cookies must be gone from a simulated user-agent store that
  processes the lines in order; the cookies are echoed back in a Cookie header to a second
  responder and must be read by req.cookies / req.get_cookie_values as the same name and value;
* Location / Content-Location / Link (target, anchor, rel URIs, title*) / Content-Disposition
  values are parsed with RFC 8288 / 6266 / 8187 parsers: pure ASCII, decode to the original.
"""

import datetime
import io
import itertools
import os
import random
import re
import time
import traceback
import unicodedata

import falcon
import falcon.asgi

from vlib.drivers import asgi as A
from vlib.drivers import wsgi as W
from vlib.models import c15 as M
from vlib.verdict import StopCheck

LEVEL = 'exploration'
SHARDS = {'quick': 4, 'thorough': 16}
BUDGET = {'quick': 16, 'thorough': 150}
# thorough: the same histories once more behind the ASGI driver with the ASan+UBSan rebuild of
# falcon/cyutil/misc (encode_items_to_latin1 sits in the ASGI header path)
MODES = {'quick': ['pure'], 'thorough': ['pure', 'asan']}

# proposed known_findings.json keys (narrow classifiers below)
K_MAXAGE0 = 'cookie-max-age-zero-dropped'
K_STALE = 'cookie-rewrite-keeps-stale-attributes'
K_EMPTY = 'cookie-empty-value-read-back-quoted'
K_DISPO = 'content-disposition-filename-not-escaped'
K_REJ = 'cookie-rejected-call-still-written'

PROPS = {
    'cache_control': 'cache-control', 'content_location': 'content-location',
    'content_length': 'content-length', 'content_range': 'content-range',
    'content_type': 'content-type', 'downloadable_as': 'content-disposition',
    'viewable_as': 'content-disposition', 'etag': 'etag', 'expires': 'expires',
    'last_modified': 'last-modified', 'location': 'location', 'retry_after': 'retry-after',
    'vary': 'vary', 'accept_ranges': 'accept-ranges',
}
LINK_PARAMS = frozenset(['rel', 'title', 'title*', 'type', 'hreflang', 'anchor', 'crossorigin'])
COOKIE_RESERVED = frozenset(['expires', 'path', 'comment', 'domain', 'max-age', 'secure', 'httponly', 'version',
                             'samesite', 'partitioned'])
ENTITY_TAG = re.compile(r'^(W/)?"[^"]*"$')
SENTINEL = 'D!efault'


class BadStr:
    """A value that cannot be turned into a header string."""

    def __str__(self):
        raise ValueError('this object has no string form')

    __repr__ = object.__repr__


# process-local time zones the server may run in (POSIX TZ strings, no zoneinfo database needed)
TZS = ['UTC', 'JST-9', 'EST5EDT,M3.2.0,M11.1.0', 'NST3:30NDT,M3.2.0,M11.1.0', 'XXX-13:45']


def set_tz(tz):
    os.environ['TZ'] = tz
    time.tzset()


def dec(v):
    """JSON-friendly program value -> python value."""
    if isinstance(v, dict):
        if 'dt' in v:
            y, mo, d, h, mi, s = v['dt']
            off = v.get('off')
            tz = None if off is None else datetime.timezone(datetime.timedelta(minutes=off))
            return datetime.datetime(y, mo, d, h, mi, s, tzinfo=tz)
        if 'tuple' in v:
            return tuple(dec(x) for x in v['tuple'])
        if 'badstr' in v:
            return BadStr()
        return {k: dec(x) for k, x in v.items()}
    if isinstance(v, list):
        return [dec(x) for x in v]
    return v


def recase(rng, name):
    r = rng.random()
    if r < 0.2:
        return name.upper()
    if r < 0.4:
        return name.lower()
    if r < 0.5:
        return name
    return ''.join(c.upper() if rng.random() < 0.5 else c.lower() for c in name)


# ------------------------------------------------------------------ execution context

class Ctx:
    def __init__(self, rec, prog, server, secure_default, tz='UTC', cfg='resp'):
        self.rec, self.prog, self.server, self.sd, self.tz = rec, prog, server, secure_default, tz
        self.cfg = cfg
        self.light = False
        self.rejected = []        # cookie writes that raised: dict(name, value, seq)
        self.seq = 0
        self.skip_cookies = False
        self.model = M.HeaderModel()
        self.crng = random.Random('c15|' + repr(prog))
        self.reports = 0
        self.stream = False
        self.crash = None
        self.stopped = False
        self.ran = False
        self.echo_names = []
        self.echo = None

    def report(self, kind, step, detail, known=None):
        if known is None or known not in self.rec.known_keys:
            self.reports += 1
            if self.reports > 3:
                return
        # 'before': the cases this process ran just before (state may survive from one response to the next)
        self.rec.violation(kind, {'prog': self.prog, 'server': self.server, 'secure_default': self.sd,
                                  'tz': self.tz, 'cfg': self.cfg, 'step': step, 'detail': detail,
                                  'before': list(RECENT)},
                           known_key=known)


CUR = [None]


def _call(ctx, i, what, fn):
    try:
        fn()
        return True
    except Exception as ex:  # noqa
        ctx.report('op-raised', i, {'op': what, 'exc': repr(ex)})
        return False


def _expect_refused(ctx, i, api, fn):
    ctx.rec.count('guard.' + api)
    try:
        r = fn()
    except Exception as ex:  # noqa
        if not isinstance(ex, ValueError):
            ctx.rec.count('guard.refused_with_other_exception')
        return
    ctx.report('set-cookie-not-refused', i, {'api': api, 'returned': repr(r)})


def _sync(ctx, resp):
    """Model adopts what the response really holds (after a report, to avoid cascades)."""
    try:
        ctx.model.plain = {k.lower(): v for k, v in resp.headers.items() if k.lower() != 'set-cookie'}
    except Exception:  # noqa
        pass


def _read(resp, name):
    """Header value as stored (through the public copy)."""
    for k, v in resp.headers.items():
        if k.lower() == name:
            return v
    return None


# ------------------------------------------------------------------ oracles for the typed setters

def check_disposition(ctx, i, fname, got, dtype):
    rec = ctx.rec
    rec.count('mon.disposition')

    def known():
        if fname.isascii() and ('"' in fname or '\\' in fname) and got == '%s; filename="%s"' % (dtype, fname):
            return K_DISPO
        return None

    if not isinstance(got, str) or not got.isascii():
        ctx.report('disposition-not-ascii', i, {'filename': fname, 'got': got})
        return
    typ, params, problem = M.parse_content_disposition(got)
    if problem or typ != dtype:
        ctx.report('disposition-unparseable', i, {'filename': fname, 'got': got, 'problem': problem}, known())
        return
    d = {}
    for n, v, q in params:
        if n.lower() in d:
            ctx.report('disposition-duplicate-param', i, {'filename': fname, 'got': got})
        d[n.lower()] = v
    if fname.isascii():
        rec.count('dispo.ascii')
        if d.get('filename') != fname and not ('filename*' in d and _ext_ok(d['filename*'], fname)):
            ctx.report('disposition-filename-lossy', i, {'filename': fname, 'got': got, 'parsed': d}, known())
    else:
        rec.count('dispo.ext')
        if 'filename*' not in d or not _ext_ok(d['filename*'], fname):
            ctx.report('disposition-filename-star-lossy', i, {'filename': fname, 'got': got, 'parsed': d})


def uri_check(original, emitted):
    """Problem text or None for a value emitted by a URI-bearing helper (not an ext-value)."""
    p = M.uri_problem(original, emitted)
    if p is None and not M.preescaped(original):
        p = M.reserved_escaped(emitted)
    return p


def _ext_ok(v, original):
    charset, lang, text, problem = M.parse_ext_value(v or '')
    return problem is None and charset.upper() == 'UTF-8' and text == original


def check_link(ctx, i, kw, part):
    rec = ctx.rec
    rec.count('mon.link')
    bad = []
    if not part.isascii():
        bad.append('not ASCII')
    target, params, problem = M.parse_link_value(part)
    if problem:
        ctx.report('link-unparseable', i, {'kw': kw, 'got': part, 'problem': problem})
        return
    p = uri_check(kw['target'], target)
    if p:
        bad.append('target ' + p)
    by = {}
    for n, v, q in params:
        by.setdefault(n.lower(), []).append(v)

    def one(name):
        vals = by.get(name, [])
        if len(vals) != 1:
            bad.append('%s given %d times' % (name, len(vals)))
            return None
        return vals[0]

    rel = kw['rel']
    got_rel = one('rel')
    if got_rel is not None:
        if '//' in rel:
            want = rel.split()
            gl = got_rel.split(' ')
            if len(want) != len(gl) or any(uri_check(w, g) for w, g in zip(want, gl)):
                bad.append('rel %r does not decode to %r' % (got_rel, rel))
            rec.count('link.rel_uri')
        elif got_rel != rel:
            bad.append('rel %r != %r' % (got_rel, rel))
    if kw.get('title') is not None:
        if one('title') != kw['title']:
            bad.append('title')
    elif 'title' in by:
        bad.append('unrequested title')
    if kw.get('title_star') is not None:
        lang, text = kw['title_star']
        v = one('title*')
        if v is not None:
            charset, glang, gtext, prob = M.parse_ext_value(v)
            rec.count('link.title_star')
            if prob:
                bad.append('title* ' + prob)
            elif charset.upper() != 'UTF-8' or glang != lang:
                bad.append('title* charset/language')
            elif gtext != text and not M.preescaped(text, True):
                bad.append('title* does not decode to the original')
    elif 'title*' in by:
        bad.append('unrequested title*')
    if kw.get('type_hint') is not None:
        if one('type') != kw['type_hint']:
            bad.append('type')
    elif 'type' in by:
        bad.append('unrequested type')
    if kw.get('hreflang') is not None:
        want = [kw['hreflang']] if isinstance(kw['hreflang'], str) else list(kw['hreflang'])
        if by.get('hreflang', []) != want:
            bad.append('hreflang %r != %r' % (by.get('hreflang'), want))
    elif 'hreflang' in by:
        bad.append('unrequested hreflang')
    if kw.get('anchor') is not None:
        v = one('anchor')
        if v is not None:
            p = uri_check(kw['anchor'], v)
            rec.count('link.anchor')
            if p:
                bad.append('anchor ' + p)
    elif 'anchor' in by:
        bad.append('unrequested anchor')
    if kw.get('crossorigin') is not None:
        co = kw['crossorigin'].lower()
        if 'crossorigin' not in by or len(by['crossorigin']) != 1:
            bad.append('crossorigin missing')
        else:
            v = by['crossorigin'][0]
            if co == 'anonymous' and v not in (None, 'anonymous'):
                bad.append('crossorigin %r' % v)
            if co == 'use-credentials' and v != 'use-credentials':
                bad.append('crossorigin %r' % v)
    elif 'crossorigin' in by:
        bad.append('unrequested crossorigin')
    ext = [(n, v) for n, v, q in params if n.lower() not in LINK_PARAMS]
    if ext != [tuple(e) for e in (kw.get('link_extension') or [])]:
        bad.append('link extensions %r' % (ext,))
    if bad:
        ctx.report('link-mismatch', i, {'kw': kw, 'got': part, 'problems': bad})


def _link_kwargs(kw):
    kw = dict(kw)
    if kw.get('title_star') is not None:
        kw['title_star'] = tuple(kw['title_star'])
    if kw.get('link_extension') is not None:
        kw['link_extension'] = [tuple(e) for e in kw['link_extension']]
    if isinstance(kw.get('hreflang'), dict):
        kw['hreflang'] = dec(kw['hreflang'])
    return kw


def apply_prop(ctx, resp, i, pname, spec):
    rec, m = ctx.rec, ctx.model
    header = PROPS[pname]
    value = dec(spec)
    rec.count('op.prop.' + pname)
    if not _call(ctx, i, 'prop ' + pname, lambda: setattr(resp, pname, value)):
        _sync(ctx, resp)
        return
    if value is None:
        rec.count('op.prop_none')
        m.delete(header)
        return
    got = _read(resp, header)
    if got is None:
        ctx.report('prop-set-lost', i, {'prop': pname, 'value': spec})
        m.delete(header)
        return
    expected = None
    if pname in ('cache_control', 'vary'):
        if [x.strip(' \t') for x in got.split(',')] != list(value):
            ctx.report('prop-list-mismatch', i, {'prop': pname, 'value': spec, 'got': got})
        m.plain[header] = got
        return
    if pname in ('location', 'content_location'):
        rec.count('mon.uri')
        rec.count('uri.preescaped' if M.preescaped(value) else ('uri.nonascii' if not value.isascii() else 'uri.ascii'))
        p = uri_check(value, got)
        if p:
            ctx.report('uri-header-' + pname, i, {'value': value, 'got': got, 'problem': p})
        m.plain[header] = got
        return
    if pname in ('downloadable_as', 'viewable_as'):
        check_disposition(ctx, i, value, got, 'attachment' if pname == 'downloadable_as' else 'inline')
        m.plain[header] = got
        return
    if pname in ('content_length', 'retry_after', 'content_type', 'accept_ranges'):
        expected = str(value)
    elif pname == 'content_range':
        unit = value[3] if len(value) == 4 else 'bytes'
        expected = '%s %s-%s/%s' % (unit, value[0], value[1], value[2])
    elif pname == 'etag':
        expected = value if ENTITY_TAG.match(value) else '"' + value + '"'
    elif pname in ('expires', 'last_modified'):
        off = value.utcoffset()
        if off is not None and off.total_seconds() != 0:
            # documented as 'a datetime (UTC) instance': for another zone nothing is demanded of THIS
            # header, but the call must not disturb what later, well-formed assignments produce
            rec.count('prop.date_other_zone')
            m.plain[header] = got
            return
        expected = M.http_date(value)
        rec.count('prop.date_utc_aware' if off is not None else 'prop.date_naive')
    rec.count('mon.prop_set')
    if got != expected:
        ctx.report('prop-value-mismatch', i, {'prop': pname, 'value': spec, 'got': got, 'want': expected})
    m.plain[header] = got


def apply_op(ctx, resp, i, op):  # noqa: C901
    rec, m = ctx.rec, ctx.model
    kind = op[0]
    if kind == 'bad':
        apply_bad(ctx, resp, i, op[1])
        return
    if kind == 'set':
        name, value = op[1], op[2]
        if m.is_cookie(name):
            _expect_refused(ctx, i, 'set_header', lambda: resp.set_header(name, value))
        else:
            rec.count('op.set')
            if _call(ctx, i, 'set_header', lambda: resp.set_header(name, value)):
                m.set(name, value)
    elif kind == 'append':
        name, value = op[1], op[2]
        if m.is_cookie(name):
            rec.count('op.append_raw_cookie')
            if _call(ctx, i, 'append_header', lambda: resp.append_header(name, value)):
                m.raw_cookies.append(str(value))
        else:
            old = m.get(name)
            if _call(ctx, i, 'append_header', lambda: resp.append_header(name, value)):
                got = _read(resp, name.lower())
                if old is None:
                    rec.count('op.append_new')
                    m.set(name, value)
                else:
                    rec.count('op.append_existing')
                    if M.appended_ok(old, str(value), got):
                        m.plain[name.lower()] = got
                    else:
                        ctx.report('append-mismatch', i, {'name': name, 'old': old, 'new': value, 'got': got})
                        _sync(ctx, resp)
    elif kind == 'delete':
        name = op[1]
        if m.is_cookie(name):
            _expect_refused(ctx, i, 'delete_header', lambda: resp.delete_header(name))
        else:
            rec.count('op.delete_present' if m.get(name) is not None else 'op.delete_missing')
            if _call(ctx, i, 'delete_header', lambda: resp.delete_header(name)):
                m.delete(name)
    elif kind == 'get':
        name = op[1]
        if m.is_cookie(name):
            _expect_refused(ctx, i, 'get_header', lambda: resp.get_header(name))
            _expect_refused(ctx, i, 'get_header', lambda: resp.get_header(name, 'x'))
        else:
            rec.count('op.get')
            try:
                got = resp.get_header(name)
            except Exception as ex:  # noqa
                ctx.report('op-raised', i, {'op': 'get_header', 'exc': repr(ex)})
            else:
                if got != m.get(name):
                    ctx.report('get-header-mismatch', i, {'name': name, 'got': got, 'want': m.get(name)})
    elif kind == 'set_headers':
        form = op[1]
        arg, eff = _headers_arg(form, op[2])
        if any(m.is_cookie(n) for n, _ in eff):
            _expect_refused(ctx, i, 'set_headers', lambda: resp.set_headers(arg))
            # which of the other names were already applied is not specified: either value is fine
            for n, _v in eff:
                if m.is_cookie(n):
                    continue
                got = _read(resp, n.lower())
                allowed = {m.get(n)} | {str(v) for k, v in eff if k.lower() == n.lower()}
                if got not in allowed:
                    ctx.report('set-headers-refused-state', i, {'name': n, 'got': got})
                if got is None:
                    m.delete(n)
                else:
                    m.plain[n.lower()] = got
        else:
            rec.count('op.set_headers.' + form)
            if _call(ctx, i, 'set_headers', lambda: resp.set_headers(arg)):
                for n, v in eff:
                    m.set(n, v)
            else:
                _sync(ctx, resp)
    elif kind == 'prop':
        apply_prop(ctx, resp, i, op[1], op[2])
    elif kind == 'propdel':
        pname = op[1]
        header = PROPS[pname]
        if m.get(header) is not None:
            rec.count('op.propdel_present')
            if _call(ctx, i, 'del ' + pname, lambda: delattr(resp, pname)):
                m.delete(header)
        else:
            rec.count('op.propdel_missing')
            try:
                delattr(resp, pname)
            except (KeyError, AttributeError):
                rec.count('propdel_missing.raised')
            except Exception as ex:  # noqa
                ctx.report('op-raised', i, {'op': 'del ' + pname, 'exc': repr(ex)})
    elif kind == 'link':
        kw = _link_kwargs(op[1])
        if _is_pos(op, 2):
            rec.count('callform.link_positional')
            largs = [kw['target'], kw['rel']] + positional(LINK_ORDER, kw)

            def do_link():
                return resp.append_link(*largs)
        else:
            def do_link():
                return resp.append_link(**kw)
        co = kw.get('crossorigin')
        if co is not None and co.lower() not in ('anonymous', 'use-credentials'):
            rec.count('op.link_bad_crossorigin')
            try:
                do_link()
            except ValueError:
                pass
            except Exception as ex:  # noqa
                ctx.report('op-raised', i, {'op': 'append_link', 'exc': repr(ex)})
            else:
                ctx.report('link-bad-crossorigin-accepted', i, {'kw': kw})
                _sync(ctx, resp)
            return
        old = m.get('link')
        rec.count('op.link')
        if not _call(ctx, i, 'append_link', do_link):
            _sync(ctx, resp)
            return
        got = _read(resp, 'link')
        if got is None:
            ctx.report('link-lost', i, {'kw': kw})
            return
        if old is None:
            part = got
        else:
            rec.count('op.link_appended')
            if not got.startswith(old + ','):
                ctx.report('link-append-mismatch', i, {'old': old, 'got': got})
                _sync(ctx, resp)
                return
            part = got[len(old) + 1:]
        check_link(ctx, i, kw, part)
        m.plain['link'] = got
    elif kind == 'cookie':
        name, value, kw = op[1], op[2], dec(op[3])
        legal_name = isinstance(name, str) and name != '' and all(c in M.TCHAR for c in name) and \
            name.lower() not in COOKIE_RESERVED
        legal_value = value.isascii()
        if _is_pos(op, 4):
            rec.count('callform.cookie_positional')
            cargs = [name, value] + positional(COOKIE_ORDER, kw)

            def do_cookie():
                return resp.set_cookie(*cargs)
        else:
            def do_cookie():
                return resp.set_cookie(name, value, **kw)
        if not legal_name or not legal_value:
            rec.count('op.cookie_illegal')
            want = KeyError if not legal_name else ValueError
            try:
                do_cookie()
            except want:
                pass
            except Exception as ex:  # noqa
                ctx.report('cookie-illegal-wrong-exception', i, {'name': name, 'value': value, 'exc': repr(ex)})
            else:
                ctx.report('cookie-illegal-accepted', i, {'name': name, 'value': value})
            return
        rec.count('op.cookie')
        if not _call(ctx, i, 'set_cookie', do_cookie):
            return
        prev = m.jar.get(name)
        exp = M.expected_cookie_attrs(kw, ctx.sd)
        earlier = (prev['earlier'] + [prev['exp']]) if prev else []
        if prev:
            rec.count('op.cookie_rewrite')
        ctx.seq += 1
        m.jar[name] = {'kind': 'set', 'value': value, 'kw': kw, 'exp': exp, 'earlier': earlier, 'seq': ctx.seq}
    elif kind == 'unset':
        name, kw = op[1], dict(op[2])
        rec.count('op.unset')
        if _is_pos(op, 3):
            rec.count('callform.unset_positional')
            uargs = [name] + positional(UNSET_ORDER, kw)

            def do_unset():
                return resp.unset_cookie(*uargs)
        else:
            def do_unset():
                return resp.unset_cookie(name, **kw)
        if not _call(ctx, i, 'unset_cookie', do_unset):
            return
        prev = m.jar.get(name)
        exp = {'expires': M.PAST}
        if kw.get('samesite', 'Lax'):
            exp['samesite'] = ('ci', kw.get('samesite', 'Lax'))
        if kw.get('domain'):
            exp['domain'] = kw['domain']
        if kw.get('path'):
            exp['path'] = kw['path']
        earlier = (prev['earlier'] + [prev['exp']]) if prev else []
        if prev:
            rec.count('op.unset_after_write')
        ctx.seq += 1
        m.jar[name] = {'kind': 'unset', 'kw': kw, 'exp': exp, 'earlier': earlier, 'seq': ctx.seq}
    elif kind == 'stream':
        n = op[1]
        rec.count('op.stream')
        if ctx.server == 'wsgi':
            stream = io.BytesIO(b'x' * n)
        else:
            async def _gen():
                yield b'x' * n
            stream = _gen()
        if _call(ctx, i, 'set_stream', lambda: resp.set_stream(stream, n)):
            m.set('content-length', n)
            ctx.stream = True
    else:
        raise RuntimeError('unknown op %r' % (op,))


# documented positional parameter order (falcon.Response docs), NOT read from the live signature
UNSET_ORDER = [('samesite', 'Lax'), ('domain', None), ('path', None)]
COOKIE_ORDER = [('expires', None), ('max_age', None), ('domain', None), ('path', None), ('secure', None),
                ('http_only', True), ('same_site', None), ('partitioned', False)]
LINK_ORDER = [('title', None), ('title_star', None), ('anchor', None), ('hreflang', None), ('type_hint', None),
              ('crossorigin', None), ('link_extension', None)]


def positional(order, kw):
    """kwargs -> positional argument list in the documented order (defaults fill the gaps)."""
    args = []
    last = -1
    for j, (k, _d) in enumerate(order):
        if k in kw:
            last = j
    for k, d in order[:last + 1]:
        args.append(kw[k] if k in kw else d)
    return args


def _is_pos(op, n):
    return len(op) > n and op[n] == 'pos'


def _headers_arg(form, raw_pairs):
    pairs = [tuple(dec(x) for x in p) for p in raw_pairs]
    if form == 'dict':
        arg = dict(pairs)
        return arg, list(arg.items())
    if form == 'lists':
        return [list(p) for p in pairs], pairs
    if form == 'gen':
        return (p for p in pairs), pairs
    if form == 'mapping':
        class _Map:
            def items(self_):
                return list(pairs)
        return _Map(), pairs
    return list(pairs), pairs


def apply_bad(ctx, resp, i, inner):
    """An operation whose argument the API is expected to reject.  If the call raises, the
    response must be exactly what it was before (a rejected operation is not an operation);
    if this falcon accepts the argument, nothing is demanded and the model adopts the result."""
    rec, m = ctx.rec, ctx.model
    kind = inner[0]
    if kind == 'set':
        fn = lambda: resp.set_header(dec(inner[1]), dec(inner[2]))  # noqa: E731
    elif kind == 'append':
        fn = lambda: resp.append_header(dec(inner[1]), dec(inner[2]))  # noqa: E731
    elif kind == 'delete':
        fn = lambda: resp.delete_header(dec(inner[1]))  # noqa: E731
    elif kind == 'get':
        fn = lambda: resp.get_header(dec(inner[1]))  # noqa: E731
    elif kind == 'set_headers':
        harg = _headers_arg(inner[1], inner[2])[0]
        fn = lambda: resp.set_headers(harg)  # noqa: E731
    elif kind == 'prop':
        fn = lambda: setattr(resp, inner[1], dec(inner[2]))  # noqa: E731
    elif kind == 'link':
        lkw = _link_kwargs(dec(inner[1]))
        fn = lambda: resp.append_link(**lkw)  # noqa: E731
    elif kind == 'cookie':
        ckw = dec(inner[3])
        fn = lambda: resp.set_cookie(inner[1], inner[2], **ckw)  # noqa: E731
    elif kind == 'unset':
        ukw = dec(inner[2])
        fn = lambda: resp.unset_cookie(inner[1], **ukw)  # noqa: E731
    else:
        raise RuntimeError('unknown rejected op %r' % (inner,))
    try:
        fn()
    except StopCheck:
        raise
    except Exception:  # noqa
        rec.count('bad.raised')
        rec.count('bad.raised.' + kind)
        if kind == 'prop':
            rec.count('bad.raised.prop.' + inner[1])
            if m.get(PROPS[inner[1]]) is not None:
                rec.count('bad.raised.prop_over_existing')
        if kind == 'cookie':
            ctx.seq += 1
            ctx.rejected.append({'name': inner[1], 'value': inner[2], 'seq': ctx.seq,
                                 'scope': {a: inner[3].get(a) for a in ('domain', 'path')}})
        return          # the model stays as it is; probe() and the emission check compare
    rec.count('bad.accepted')
    _sync(ctx, resp)
    if kind in ('cookie', 'unset') or (kind == 'append' and isinstance(inner[1], str) and m.is_cookie(inner[1])):
        ctx.skip_cookies = True


def _zero_max_age(kw):
    ma = kw.get('max_age')
    return ma is not None and not isinstance(ma, str) and not ma


def probe(ctx, resp, i, op):
    """Read back everything after one operation and compare with the model."""
    rec, m = ctx.rec, ctx.model
    try:
        h = resp.headers
    except Exception as ex:  # noqa
        ctx.report('op-raised', i, {'op': 'headers', 'exc': repr(ex)})
        return
    norm = {}
    for k, v in h.items():
        lk = k.lower()
        if lk in norm:
            ctx.report('headers-duplicate-key', i, {'key': k})
        norm[lk] = v
    rec.count('mon.headers')
    if 'set-cookie' in norm:
        ctx.report('set-cookie-readable', i, {'via': 'headers', 'value': norm['set-cookie']})
        norm.pop('set-cookie')
    if norm != m.plain:
        ctx.report('readback-mismatch', i, {'got': norm, 'want': dict(m.plain)})
        m.plain = dict(norm)
    # the property returns a copy
    h['x-c15-probe'] = '1'
    names = []
    if op[0] in ('set', 'append', 'delete', 'get') and not m.is_cookie(op[1]):
        names.append(op[1])
    keys = list(m.plain)
    for _ in range(2):
        if keys:
            names.append(ctx.crng.choice(keys))
    names.append('x-c15-probe')
    names.append('X-Absent-' + str(i))
    for name in names:
        cased = recase(ctx.crng, name)
        try:
            got = resp.get_header(cased)
            got_d = resp.get_header(cased, SENTINEL)
            got_k = resp.get_header(cased, default=None)
        except Exception as ex:  # noqa
            ctx.report('op-raised', i, {'op': 'get_header', 'name': cased, 'exc': repr(ex)})
            continue
        rec.count('mon.get_header')
        want = m.get(name)
        rec.count('get.present' if want is not None else 'get.absent')
        if cased != name.lower() and cased != name:
            rec.count('get.recased')
        if got != want or got_k != want or got_d != (SENTINEL if want is None else want):
            ctx.report('get-header-mismatch', i, {'name': cased, 'got': [got, got_d, got_k], 'want': want})
    for p, hname in PROPS.items():
        try:
            got = getattr(resp, p)
        except Exception as ex:  # noqa
            ctx.report('op-raised', i, {'op': 'read ' + p, 'exc': repr(ex)})
            continue
        rec.count('mon.prop_read')
        if got != m.plain.get(hname):
            ctx.report('prop-read-mismatch', i, {'prop': p, 'got': got, 'want': m.plain.get(hname)})


def execute(ctx, resp):
    try:
        if ctx.cfg in ('resp', 'own-set'):
            resp.options.secure_cookies_by_default = ctx.sd      # through the response, inside the request
        for i, op in enumerate(ctx.prog):
            apply_op(ctx, resp, i, op)
            if not ctx.light or i == len(ctx.prog) - 1:
                probe(ctx, resp, i, op)
        ctx.ran = True
    except StopCheck:
        ctx.stopped = True
    except Exception:  # noqa  (harness bug, not a verdict)
        ctx.crash = traceback.format_exc()


# ------------------------------------------------------------------ the apps under test

class _WRun:
    def on_get(self, req, resp):
        execute(CUR[0], resp)


class _WEcho:
    def on_get(self, req, resp):
        c = CUR[0]
        c.echo = (req.cookies, {n: req.get_cookie_values(n) for n in c.echo_names})


class _ARun:
    async def on_get(self, req, resp):
        execute(CUR[0], resp)


class _AEcho:
    async def on_get(self, req, resp):
        c = CUR[0]
        c.echo = (req.cookies, {n: req.get_cookie_values(n) for n in c.echo_names})


_apps = {}


class _OwnOptionsW(falcon.Response):
    """custom response_type that builds its responses without the app's options: each has its own"""

    def __init__(self, options=None):
        super().__init__()


class _OwnOptionsA(falcon.asgi.Response):
    def __init__(self, options=None):
        super().__init__()


# how the Secure default gets configured for a case:
#   resp        - the responder sets resp.options.secure_cookies_by_default (the app's object, by design)
#   app-inplace - the harness sets app.resp_options.secure_cookies_by_default before the request
#   app-replace - the harness assigns a freshly prepared ResponseOptions object to app.resp_options
#   own-set     - app with a response_type whose responses have their own options; the responder sets its own
#   own-default - same app, nobody touches the options of this response: the documented default (True) applies
CFGS = ['resp', 'app-inplace', 'app-replace', 'own-set', 'own-default']


def apps():
    if not _apps:
        for own in (False, True):
            w = falcon.App(response_type=_OwnOptionsW) if own else falcon.App()
            w.add_route('/run', _WRun())
            w.add_route('/echo', _WEcho())
            a = falcon.asgi.App(response_type=_OwnOptionsA) if own else falcon.asgi.App()
            a.add_route('/run', _ARun())
            a.add_route('/echo', _AEcho())
            _apps['wsgi', own], _apps['asgi', own] = w, a
    return _apps


def configure(server, cfg, sd):
    """Apply the configuration mode from outside the request; returns the app to drive."""
    app = apps()[server, cfg.startswith('own')]
    if cfg == 'app-inplace':
        app.resp_options.secure_cookies_by_default = sd
    elif cfg == 'app-replace':
        o = falcon.ResponseOptions()
        o.secure_cookies_by_default = sd
        app.resp_options = o
    return app


_cur_app = {}


def _request(server, path, headers=()):
    app = _cur_app.get(server) or apps()[server, False]
    if server == 'wsgi':
        res = W.run_wsgi(app, W.make_environ('GET', path, headers=list(headers)))
        hdrs = list(res.headers)
        failed = res.exc is not None or res.status != 200
        info = {'exc': repr(res.exc), 'status': res.status}
    else:
        res = A.run_asgi_http(app, A.make_scope('GET', path, headers=list(headers)))
        hdrs = list(res.headers)
        failed = res.outcome != 'done' or res.status != 200
        info = {'exc': repr(res.exc), 'status': res.status, 'outcome': res.outcome}
    return res, hdrs, failed, info


def now_tuple():
    n = datetime.datetime.now(datetime.timezone.utc)
    return (n.year, n.month, n.day, n.hour, n.minute, n.second)


def _left_over(entry, k, v):
    """attribute k=v is what an EARLIER write of the same cookie name in this response asked for"""
    return any(k in e and M.attr_matches(e[k], v) for e in entry['earlier'])


def classify_cookie(entry, problems):
    """Narrow classifiers for two recorded mechanisms; None = unexplained.

    K_MAXAGE0: the only thing missing is Max-Age and the caller passed max_age=0 (int/float zero).
    K_STALE: every surplus attribute is one that an earlier set_cookie/unset_cookie call for the same
    name in the same response had requested (the cookie object is re-used, not replaced)."""
    keys = set()
    for item in problems:
        if item[0] == 'missing' and item[1] == 'max-age' and _zero_max_age(entry['kw']):
            keys.add(K_MAXAGE0)
        elif item[0] == 'unexpected' and _left_over(entry, item[1], item[2]):
            keys.add(K_STALE)
        elif item[0] == 'wrong' and item[1] == 'max-age' and _zero_max_age(entry['kw']) and \
                _left_over(entry, item[1], item[2]):
            keys.add(K_STALE)      # both mechanisms: the zero was dropped, so the earlier Max-Age survived
        else:
            return None
    if K_STALE in keys:
        return K_STALE
    return K_MAXAGE0 if keys else None


def check_emission(ctx, hdrs):  # noqa: C901
    rec, m = ctx.rec, ctx.model
    END = len(ctx.prog)
    items = []
    for k, v in hdrs:
        if ctx.server == 'asgi':
            rec.count('mon.asgi_name_case')
            if type(k) is not bytes or type(v) is not bytes:
                ctx.report('emit-not-bytes', END, {'item': repr((k, v))})
                continue
            if k != k.lower():
                ctx.report('emit-name-not-lower', END, {'name': repr(k)})
            k, v = k.decode('latin-1'), v.decode('latin-1')
        else:
            if type(k) is not str or type(v) is not str:
                ctx.report('emit-not-str', END, {'item': repr((k, v))})
                continue
        items.append((k, v))
    by = {}
    for k, v in items:
        by.setdefault(k.lower(), []).append(v)
    rec.count('mon.emission')
    for name, want in m.plain.items():
        vals = by.get(name, [])
        if name == 'content-length':
            # managed by the framework unless the body is a stream of unknown length
            if len(vals) > 1:
                ctx.report('emit-duplicate', END, {'name': name, 'values': vals})
            elif ctx.stream and vals != [want]:
                ctx.report('emit-value', END, {'name': name, 'values': vals, 'want': want})
            continue
        rec.count('mon.emit_plain')
        if len(vals) == 0:
            ctx.report('emit-missing', END, {'name': name, 'want': want})
        elif len(vals) > 1:
            ctx.report('emit-duplicate', END, {'name': name, 'values': vals})
        elif vals[0] != want:
            ctx.report('emit-value', END, {'name': name, 'values': vals, 'want': want})
    for name, vals in by.items():
        if name in m.plain or name == 'set-cookie':
            continue
        if name in ('content-type', 'content-length') and len(vals) == 1:
            continue
        ctx.report('emit-unexpected', END, {'name': name, 'values': vals})
    # ---- cookies
    lines = by.get('set-cookie', [])
    if not lines and not m.raw_cookies and not m.jar:
        return
    rec.count('mon.cookie_lines')
    remaining = list(lines)
    for raw in m.raw_cookies:
        rec.count('mon.raw_cookie')
        if raw in remaining:
            remaining.remove(raw)
        else:
            ctx.report('raw-cookie-missing', END, {'raw': raw, 'lines': lines})
    if ctx.skip_cookies:
        rec.count('cookies.skipped_after_accepted_bad_op')
        return
    # a set_cookie() call that raised must not have written (or replaced) a cookie
    rej_over = {}
    for r in ctx.rejected:
        rec.count('mon.rejected_cookie')
        ent = m.jar.get(r['name'])
        if ent is None:
            for line in list(remaining):
                pp = M.parse_set_cookie(line)
                if pp and pp[0] == r['name'] and pp[1] == r['value']:
                    remaining.remove(line)
                    ctx.report('rejected-cookie-written', END, {'cookie': r['name'], 'line': line}, K_REJ)
                    break
        elif r['seq'] > ent['seq']:
            rej_over[r['name']] = r
    parsed = {}
    names = []
    for line in remaining:
        p = M.parse_set_cookie(line)
        if p is None:
            ctx.report('cookie-line-unparseable', END, {'line': line})
            continue
        names.append(p[0])
        parsed[p[0]] = (p, line)
    if sorted(names) != sorted(m.jar):
        ctx.report('cookie-lines-mismatch', END, {'lines': lines, 'raw': m.raw_cookies, 'jar': sorted(m.jar)})
        return
    now = now_tuple()
    store = M.ua_store(lines, now)
    echo = []
    for name, entry in m.jar.items():
        (cname, cvalue, attrs), line = parsed[name]
        if name in rej_over and cvalue == rej_over[name]['value'] and entry.get('value') != cvalue:
            ctx.report('rejected-cookie-replaced-earlier-one', END, {'cookie': name, 'line': line}, K_REJ)
            continue
        if not line.isascii():
            ctx.report('cookie-line-not-ascii', END, {'line': line})
        if entry['kind'] == 'set':
            rec.count('mon.cookie_attrs')
            for k in entry['exp']:
                rec.count('attr.' + k)
            ex = entry['kw'].get('expires')
            if ex is not None and ex.tzinfo is None and ctx.tz != 'UTC':
                rec.count('attr.expires_naive_local_zone_not_utc')
            d = M.diff_attrs(entry['exp'], attrs)
            if d:
                ctx.report('cookie-attributes', END, {'cookie': name, 'line': line, 'kw': repr(entry['kw']),
                                                      'problems': d}, classify_cookie(entry, d))
            echo.append((name, cvalue, entry['value']))
        else:
            rec.count('mon.unset_expired')
            d = dict(attrs)
            kw = entry['kw']
            key = (name, (kw.get('domain') or '').lower().lstrip('.'), kw.get('path') or '')
            if M.ua_store([line], now):
                # the line itself leaves a live cookie in the user agent
                known = K_STALE if ('max-age' in d and _left_over(entry, 'max-age', d['max-age'])) else None
                ctx.report('unset-not-expired', END, {'cookie': name, 'line': line}, known)
            elif key in store:
                line_key = (name, (d.get('domain') or '').lower().lstrip('.'), d.get('path') or '')
                if line_key == key:
                    # same name/domain/path as a raw cookie line, but that line is processed later
                    ctx.report('unset-not-effective', END, {'cookie': name, 'lines': lines})
                else:
                    rec.count('unset.left_over_scope')
            # the line carries the requested SameSite / Domain / Path and no other scope than that
            # (attributes an earlier write of the same cookie in this response asked for may linger)
            rec.count('mon.unset_attrs')
            for a in ('domain', 'path'):
                if kw.get(a):
                    if d.get(a) != kw[a]:
                        ctx.report('unset-attribute', END, {'cookie': name, 'line': line, 'attr': a, 'want': kw[a]})
                elif a in d and not _left_over(entry, a, d[a]):
                    # left behind by a set_cookie() call for this name that RAISED earlier in the response?
                    rej = any(r['name'] == name and r['seq'] < entry['seq'] and r['scope'].get(a) == d[a]
                              for r in ctx.rejected)
                    ctx.report('unset-attribute', END, {'cookie': name, 'line': line, 'attr': a, 'want': None},
                               K_REJ if rej else None)
            ss = kw.get('samesite', 'Lax')
            if ss:
                if (d.get('samesite') or '').lower() != ss.lower():
                    ctx.report('unset-attribute', END, {'cookie': name, 'line': line, 'attr': 'samesite', 'want': ss})
            elif 'samesite' in d:
                ctx.report('unset-attribute', END, {'cookie': name, 'line': line, 'attr': 'samesite', 'want': None})
            if any(r.split('=', 1)[0].strip() == name for r in m.raw_cookies):
                rec.count('mon.unset_vs_raw')
    return echo


def check_echo(ctx, echo):
    """Echo the written cookies back in a Cookie header; the request API must read the same pairs."""
    rec = ctx.rec
    if not echo:
        return
    header = '; '.join('%s=%s' % (n, cv) for n, cv, _ in echo)
    ctx.echo_names = [n for n, _, _ in echo]
    ctx.echo = None
    END = len(ctx.prog)
    # the same Cookie header twice: between the two requests the application does what it likes with the
    # objects the first request handed to it (each request must read the header afresh)
    for attempt in ('first', 'again'):
        ctx.echo = None
        res, hdrs, failed, info = _request(ctx.server, '/echo', [('Cookie', header)])
        if failed or ctx.echo is None:
            ctx.report('echo-request-failed', END, {'cookie_header': header, 'info': info, 'attempt': attempt})
            return
        cookies, values = ctx.echo
        for n, cv, orig in echo:
            rec.count('mon.echo')
            rec.count('mon.echo_' + attempt)
            if cv != orig:
                rec.count('echo.quoted')
            got, gotv = cookies.get(n), values.get(n)
            if got != orig or gotv != [orig]:
                known = K_EMPTY if (orig == '' and cv == '""' and got == '""') else None
                ctx.report('cookie-echo-mismatch', END, {'cookie_header': header, 'name': n, 'want': orig, 'got': got,
                                                         'values': gotv, 'attempt': attempt}, known)
        if set(cookies) != set(ctx.echo_names):
            ctx.report('cookie-echo-names', END, {'cookie_header': header, 'got': sorted(cookies),
                                                  'attempt': attempt})
        # application-side use of the returned objects
        _echo_mut[0] += 1
        for j, lst in enumerate(values.values()):
            if isinstance(lst, list):
                how = (_echo_mut[0] + j) % 4
                if how == 0:
                    lst.clear()
                elif how == 1 and lst:
                    lst.pop()
                elif how == 2:
                    lst.append('appended-by-application')
                else:
                    lst.reverse()
                    lst.insert(0, 'inserted-by-application')
        try:
            cookies.clear()
        except Exception:  # noqa  (a read-only mapping is fine)
            pass


_echo_mut = [0]


SERVERS = [('wsgi', 'asgi')]


_tz_counter = [0]
_cfg_counter = [0]
RECENT = []          # the last few cases of this process: [prog, secure_default, tz]


def run_program(rec, prog, secure_default=True, servers=None, key='auto', tz=None, cfg=None, light=False):
    if tz is None:
        # the server's local zone rotates from case to case: nothing emitted may depend on it
        _tz_counter[0] += 1
        tz = TZS[_tz_counter[0] % len(TZS)]
    if cfg is None:
        # so does the way the Secure default is configured (changes every 3 cases; 3 and 5 are coprime)
        _cfg_counter[0] += 1
        cfg = CFGS[(_cfg_counter[0] // 3) % len(CFGS)]
    if cfg == 'own-default':
        secure_default = True           # nobody configures anything: the documented default
    set_tz(tz)
    rec.count('tz.' + tz.split(',')[0])
    rec.count('cfg.' + cfg)
    for server in (servers or SERVERS[0]):
        _cur_app[server] = configure(server, cfg, secure_default)
        ctx = Ctx(rec, prog, server, secure_default, tz, cfg)
        ctx.light = light       # value sweeps: every operation has its own oracle, full read-back at the end only
        CUR[0] = ctx
        res, hdrs, failed, info = _request(server, '/run')
        if ctx.stopped:
            raise StopCheck()
        if ctx.crash:
            raise RuntimeError('harness error while executing %r:\n%s' % (prog, ctx.crash))
        if failed or not ctx.ran:
            ctx.report('emission-failed', len(prog), info)
            continue
        hp = [p for p in res.problems if 'header' in p]
        if hp:
            ctx.report('protocol-monitor', len(prog), {'problems': hp})
        echo = check_emission(ctx, hdrs)
        check_echo(ctx, echo)
        rec.count('run.' + server)
    # a long value sweep is remembered as an empty case: it still applied its configuration
    RECENT.append([prog if len(prog) <= 12 else [], secure_default, tz, cfg])
    del RECENT[:-16]            # one full rotation of the configuration modes
    rec.case(repr(prog) if key == 'auto' else key)


# ------------------------------------------------------------------ generators

SYMS = [
    ['set', 'ETag', '"a"'], ['set', 'etag', '"b"'], ['append', 'ETAG', '"c"'], ['delete', 'eTaG'],
    ['set_headers', 'dict', [['Etag', '"d"'], ['X-Other', '1']]],
    ['set_headers', 'pairs', [['ETAG', '"e"'], ['etag', '"f"']]],
    ['prop', 'etag', 'g'], ['prop', 'etag', None], ['propdel', 'etag'],
    ['append', 'Set-Cookie', 'c=raw'],
    ['cookie', 'c', 'v1', {'domain': 'x.org', 'max_age': 60}],
    ['cookie', 'c', 'v2', {'secure': False, 'http_only': False}],
    ['unset', 'c', {}],
    ['link', {'target': '/\u00e9', 'rel': 'next'}],
    ['set', 'SET-cookie', 'z'],
    ['bad', ['prop', 'etag', '']],
]

DT_NAIVE = {'dt': [2031, 5, 17, 3, 4, 5], 'off': None}
DT_AWARE = {'dt': [2031, 12, 31, 23, 30, 0], 'off': -90}
CK = {
    'expires': [None, DT_NAIVE, DT_AWARE],
    'max_age': [None, 0, 5, 3.7, '10'],
    'domain': [None, 'example.com'],
    'path': [None, '/a b/c'],
    'secure': [None, True, False],
    'http_only': [True, False],
    'same_site': [None, 'lax', 'STRICT', 'None'],
    'partitioned': [False, True],
}
CK_KEYS = list(CK)

URI_ALPHABET = ['a', '/', ' ', '%', '2', 'F', '\u00e9', '\u20ac', '\U0001F600', '"', ';', "'", '?', '\\']

NAME_POOL = ['X-Custom', 'Content-Type', 'Content-Length', 'ETag', 'Vary', 'Cache-Control', 'Location',
             'Content-Location', 'Link', 'Content-Disposition', 'Expires', 'Last-Modified', 'Retry-After',
             'Accept-Ranges', 'Content-Range', 'x-b', 'Allow', 'WWW-Authenticate', 'X_Under.score',
             "X-!#$%&'*+.^`|~", 'Set-Cookie2', 'Cookie', 'X-Set-Cookie']
VALUE_CHARS = [chr(c) for c in range(0x20, 0x7F)] + [chr(c) for c in range(0xA0, 0x100)]
TOKEN_CHARS = sorted(M.TCHAR)
COOKIE_VALUE_CHARS = [chr(c) for c in range(0x20, 0x7F)]
SAFE_VALUE_CHARS = list('abcXYZ019-._~!#$%&*+/:')


BAD_PROP = {
    'etag': ['', 5], 'expires': ['a string', 5], 'last_modified': ['a string', 5],
    'content_range': [{'tuple': [0]}, 5], 'vary': [5, [1, 2]], 'cache_control': [5, [1, 2]],
    'location': [404], 'content_location': [404], 'downloadable_as': [5], 'viewable_as': [5],
    'content_type': [{'badstr': 1}], 'content_length': [{'badstr': 1}], 'retry_after': [{'badstr': 1}],
    'accept_ranges': [{'badstr': 1}],
}
BAD_COOKIE_KW = [{'same_site': 'bogus'}, {'max_age': 'abc'}, {'expires': 'tomorrow'}, {'max_age': [1]},
                 {'same_site': 'laxx', 'domain': 'x.org'}]


def cookie_cross_product():
    for si, sd in enumerate((True, False)):
        for combo in itertools.product(*[range(len(CK[k])) for k in CK_KEYS]):
            kw = {}
            for k, j in zip(CK_KEYS, combo):
                v = CK[k][j]
                if k == 'http_only':
                    if v is False or sum(combo) % 2:
                        kw[k] = v
                elif k == 'partitioned':
                    if v:
                        kw[k] = v
                elif v is not None or sum(combo) % 3 == 0:
                    kw[k] = v
            yield sd, kw


def uri_program(s):
    prog = [['prop', 'location', s], ['prop', 'content_location', s],
            ['link', {'target': s, 'rel': 'next', 'anchor': s, 'title_star': ['en', s]}],
            ['link', {'target': '/x', 'rel': 'http://ex.org/r' + s.replace(' ', '') + ' alternate', 'title_star': ['', s]}, 'pos'],
            # extension relation types given as network-path references (no scheme), alone and in a list
            ['link', {'target': '/y', 'rel': '//ex.org/r' + s.replace(' ', '')}],
            ['link', {'target': '/z', 'rel': 'alternate //ex.org/' + s.replace(' ', '') + ' next'}],
            ['prop', 'downloadable_as', s], ['prop', 'viewable_as', s]]
    if not s:
        prog = prog[:6]     # an empty file name is not a file name
    return prog


def sweep_code_points(stride):
    """Code points for the file-name / IRI sweep: every assigned non-ASCII code point of planes 0-1 whose
    lower/upper/title/casefold form, NFD/NFKD/NFKC form or case-mapped NFKD form contains an ASCII character (the ones a
    case-insensitive or normalising ASCII filter can mistake for ASCII), all of U+0080..U+024F, and a
    stride over everything else up to U+10FFFF (surrogates excluded)."""
    out = []
    for cp in range(0x80, 0x110000):
        if 0xD800 <= cp <= 0xDFFF:
            continue
        if cp < 0x250 or cp % stride == 0:
            out.append((cp, cp < 0x250))
            continue
        if cp >= 0x20000:
            continue
        ch = chr(cp)
        if unicodedata.category(ch) == 'Cn':
            continue
        nk = unicodedata.normalize('NFKD', ch)
        forms = (ch.lower(), ch.upper(), ch.title(), ch.casefold(), nk, unicodedata.normalize('NFKC', ch),
                 unicodedata.normalize('NFD', ch), nk.lower(), nk.upper(), nk.casefold())
        if any(c < '\x80' for f in forms for c in f):
            out.append((cp, True))
    return out


def max_age_boundary_values():
    """ints, decimal strings and floats around the sizes where a conversion could lose precision"""
    vals = []
    for base in (2 ** 31, 2 ** 32, 2 ** 53, 2 ** 63, 2 ** 64, 10 ** 18, 10 ** 21):
        for d in (-2, -1, 0, 1, 2, 7):
            n = base + d
            vals += [n, -n, str(n), str(-n), float(n), True]
    return vals


ESCAPE_COUNTS = list(range(0, 41)) + [63, 64, 65, 127, 128, 129, 255, 256, 257, 1023, 1024, 1025]
ESCAPE_DEFECTS = ['', '%', '%2', '%zz', '%G0', '%0g', ' ', '\u00e9']


def long_escape_cases(counts=None):
    """Values made of N well-formed %XX escapes (every N up to 40, then around powers of two) with one
    element that is not an escape (bare or malformed '%', a character that needs escaping, or nothing)
    placed before, amid or after them -> (n, defect, position, string)."""
    octets = ['%20', '%2F', '%c3%a9', '%C3%A9', '%7e', '%41', '%e2%82%ac', '%0A']
    for n in (counts or ESCAPE_COUNTS):
        parts = []
        k = 0
        while sum(p.count('%') for p in parts) < n:
            o = octets[k % len(octets)]
            if sum(p.count('%') for p in parts) + o.count('%') > n:
                o = '%41'
            parts.append(o + ('' if n % 2 else 'a/'[k % 2]))
            k += 1
        for defect in ESCAPE_DEFECTS:
            for pos in sorted({0, len(parts) // 2, len(parts)}):
                yield n, defect, pos, 'http://ex.org/p?q=' + ''.join(parts[:pos]) + defect + ''.join(parts[pos:])


def directed_programs():
    """Fixed histories that reach every branch class the floors name, whatever the time budget."""
    out = []
    sc = ['Set-Cookie', 'set-cookie', 'SET-COOKIE', 'sEt-cOOkie']
    for n in sc:
        out.append([['set', 'X-A', '1'], ['get', n], ['delete', n], ['set', n, 'a=b'],
                    ['set_headers', 'pairs', [['X-B', '2'], [n, 'a=b'], ['X-C', '3']]],
                    ['set_headers', 'dict', [[n, 'a=b']]], ['append', n, 'raw=1; Path=/'], ['get', 'x-a']])
    for v in ['a b', 'x;y', 'q"r', 'back\\slash', 'comma,', '', '"quoted"', ' lead', 'trail ', 'a=b', '\\073', 'k\'l',
              '(paren)', '@at', '{"json": [1, 2]}', 'plain']:
        out.append([['cookie', 'sid', v, {}], ['cookie', 'Sid', v + v, {'secure': False}]])
    for e in ['abc', 'W/"x"', '"q"', 'sp ace', 'W/x', '0']:
        out.append([['prop', 'etag', e], ['append', 'etag', '"z"'], ['propdel', 'etag'], ['propdel', 'etag']])
    vals = {
        'cache_control': ['no-cache', 'max-age=60'], 'content_location': '/caf\u00e9/a b?q=1&r=\u20ac#frag',
        'content_length': 12, 'content_range': {'tuple': [0, 9, 100]}, 'content_type': 'text/plain; charset=utf-8',
        'downloadable_as': 'r\u00e9sum\u00e9; v2,final.pdf', 'viewable_as': 'report 1.pdf', 'etag': 'v1',
        'expires': {'dt': [2030, 2, 28, 23, 59, 59], 'off': None},
        'last_modified': {'dt': [2024, 2, 29, 0, 0, 0], 'off': 0},
        'location': 'http://ex\u00e4mple.org:8080/a/b c/\u4e2d?x=1;y=2&z=[3]#top', 'retry_after': 120,
        'vary': {'tuple': ['Accept', 'Cookie']}, 'accept_ranges': 'bytes',
    }
    for p, v in vals.items():
        h = PROPS[p]
        out.append([['prop', p, v], ['set', h.upper(), 'x'], ['prop', p, v], ['prop', p, None], ['prop', p, None],
                    ['prop', p, v], ['propdel', p], ['propdel', p], ['append', h.title(), 'y'], ['prop', p, v],
                    ['delete', h], ['delete', h]])
    out.append([['prop', 'content_range', {'tuple': [5, 10, '*', 'items']}], ['prop', 'content_length', '7'],
                ['prop', 'vary', ['*']], ['prop', 'cache_control', {'tuple': ['private']}]])
    for form in ['dict', 'pairs', 'lists', 'gen', 'mapping']:
        out.append([['set', 'x-one', 'a'], ['set_headers', form, [['X-One', 'b'], ['x-TWO', 'c, d'], ['X-ONE', 'e']]],
                    ['append', 'X-two', 'f'], ['set_headers', form, []], ['delete', 'X-ONE']])
    for n in [0, 5]:
        out.append([['stream', n], ['set', 'X-S', '1']])
        out.append([['prop', 'content_length', 99], ['stream', n], ['cookie', 'a', 'b', {}]])
    for raw, kw in [('c=raw', {}), ('c=raw; Path=/p', {'path': '/p'}), ('c=raw; Domain=x.org', {'domain': 'x.org'}),
                    ('c=raw; Max-Age=100', {}), ('c=raw', {'samesite': 'None'}), ('c=raw', {'samesite': ''})]:
        out.append([['append', 'Set-Cookie', raw], ['unset', 'c', kw], ['append', 'set-cookie', 'd=other']])
        out.append([['unset', 'c', kw], ['append', 'Set-Cookie', 'e=1'], ['cookie', 'f', '1', {}], ['unset', 'g', kw]])
    for bad in ['a b', 'n\u00e4me', 'a;b', 'a=b', 'a,b', '', 'a"b', 'x/y', '(x)', 'a\tb']:
        out.append([['cookie', 'ok', '1', {}], ['cookie', bad, 'v', {}], ['cookie', 'ok2', 'v\u00e4l', {}]])
    out.append([['link', {'target': '/a', 'rel': 'next', 'crossorigin': 'bogus'}],
                ['link', {'target': '/a', 'rel': 'next', 'crossorigin': 'Anonymous'}],
                ['link', {'target': '/b', 'rel': 'prev', 'crossorigin': 'USE-credentials', 'title': 'B, the; 2nd=b',
                          'type_hint': 'text/html', 'hreflang': ['en', 'fr-CA'], 'link_extension': [['x-foo', '1'], ['media', 'screen']]}],
                ['set', 'LINK', 'manual'], ['link', {'target': '/c', 'rel': 'http://ex.org/rel type', 'hreflang': 'de'}]])
    # -- unset_cookie: every combination of its three optional parameters, keyword and positional form
    for ss in (None, 'Strict', 'None', 'lax', ''):
        for dom in (None, 'example.com'):
            for pth in (None, '/app'):
                kw = {}
                if ss is not None:
                    kw['samesite'] = ss
                if dom:
                    kw['domain'] = dom
                if pth:
                    kw['path'] = pth
                for form in ([], ['pos']):
                    out.append([['unset', 'sid', kw] + form, ['cookie', 'other', '1', {}]])
                    out.append([['cookie', 'sid', 'v', {'domain': 'old.example', 'path': '/old'}] + form,
                                ['unset', 'sid', kw] + form])
    # -- set_cookie / append_link: positional form with every prefix of the documented parameter list
    full = {'expires': DT_AWARE, 'max_age': 7, 'domain': 'example.com', 'path': '/p', 'secure': False,
            'http_only': False, 'same_site': 'Strict', 'partitioned': True}
    keys = list(full)
    for n in range(len(keys) + 1):
        out.append([['cookie', 'pc', 'v', {k: full[k] for k in keys[:n]}, 'pos'],
                    ['cookie', 'pd', 'w', {k: full[k] for k in keys[n:]}, 'pos']])
    lfull = {'title': 'T', 'title_star': ['en', 'T\u00e9'], 'anchor': '/a\u00e9', 'hreflang': ['en', 'de'],
             'type_hint': 'text/html', 'crossorigin': 'anonymous', 'link_extension': [['x-foo', '1']]}
    lkeys = list(lfull)
    for n in range(len(lkeys) + 1):
        a = {'target': '/t', 'rel': 'next'}
        a.update({k: lfull[k] for k in lkeys[:n]})
        b = {'target': '/u', 'rel': 'prev'}
        b.update({k: lfull[k] for k in lkeys[n:]})
        out.append([['link', a, 'pos'], ['link', b, 'pos']])
    # -- equal-but-distinct values: what one assignment produced must not be reused for another value that
    #    merely compares equal (same instant in another zone, 1 == 1.0 == True, equal tuples)
    inst = [{'dt': [2024, 5, 1, 13, 0, 0], 'off': 60}, {'dt': [2024, 5, 1, 12, 0, 0], 'off': 0},
            {'dt': [2024, 5, 1, 7, 0, 0], 'off': -300}, {'dt': [2024, 5, 1, 17, 30, 0], 'off': 330},
            {'dt': [2024, 5, 1, 12, 0, 0], 'off': None}]
    for a in inst:
        for b in inst:
            if a is not b:
                out.append([['prop', 'last_modified', a], ['prop', 'last_modified', b], ['prop', 'expires', a],
                            ['prop', 'expires', b], ['cookie', 'e1', 'v', {'expires': a}],
                            ['cookie', 'e2', 'v', {'expires': b}]])
    nums = [1, 1.0, True, '1', 0, 0.0, False, '0']
    for a in nums:
        for b in nums:
            if a is not b:
                out.append([['prop', 'content_length', a], ['prop', 'content_length', b], ['prop', 'retry_after', a],
                            ['prop', 'retry_after', b], ['set', 'X-N', a], ['set', 'X-N', b],
                            ['prop', 'content_range', {'tuple': [a, 9, 100]}], ['prop', 'content_range', {'tuple': [b, 9, 100]}],
                            ['cookie', 'n1', 'v', {'max_age': a}], ['cookie', 'n2', 'v', {'max_age': b}]])
    # -- rejected operations: the response must be left exactly as it was
    bs = {'badstr': 1}
    for p, bads in BAD_PROP.items():
        for b in bads:
            out.append([['prop', p, vals[p]], ['bad', ['prop', p, b]], ['get', PROPS[p]], ['bad', ['prop', p, b]],
                        ['prop', p, None], ['bad', ['prop', p, b]], ['set', PROPS[p].upper(), 'manual'],
                        ['bad', ['prop', p, b]]])
    out.append([['set', 'X-A', '1'], ['bad', ['set', 'X-A', bs]], ['bad', ['append', 'x-a', bs]],
                ['bad', ['set', None, 'v']], ['bad', ['append', None, 'v']], ['bad', ['delete', None]],
                ['bad', ['get', None]], ['bad', ['set_headers', 'pairs', [['X-A', bs]]]],
                ['bad', ['set_headers', 'pairs', [['X-A', '1', '2']]]], ['bad', ['set_headers', 'dict', [[None, 'v']]]],
                ['bad', ['set_headers', 'gen', [['x-A', bs]]]], ['get', 'X-A']])
    out.append([['link', {'target': '/a', 'rel': 'next'}], ['bad', ['link', {'target': 5, 'rel': 'next'}]],
                ['bad', ['link', {'target': '/b', 'rel': 'next', 'title_star': ['en']}]],
                ['bad', ['link', {'target': '/b', 'rel': 'next', 'link_extension': [['a']]}]],
                ['bad', ['link', {'target': '/b', 'rel': 5}]], ['bad', ['link', {'target': '/b', 'rel': 'next', 'anchor': 5}]],
                ['get', 'link']])
    for j, kw in enumerate(BAD_COOKIE_KW):
        out.append([['cookie', 'keep', 'v', {}], ['bad', ['cookie', 'rej', 'rejected-%d' % j, kw]],
                    ['append', 'Set-Cookie', 'r=1']])
        out.append([['cookie', 'rej', 'orig', {'path': '/'}], ['bad', ['cookie', 'rej', 'rejected-%d' % j, kw]]])
        out.append([['unset', 'rej', {}], ['bad', ['cookie', 'rej', 'rejected-%d' % j, kw]], ['cookie', 'z', '1', {}]])
        out.append([['bad', ['cookie', 'rej', 'rejected-%d' % j, kw]], ['cookie', 'rej', 'good', {'max_age': 5}]])
    out.append([['cookie', 'keep', 'v', {}], ['bad', ['unset', 'a b', {}]], ['bad', ['unset', 'n\u00e4me', {}]]])
    return out


def g_bad(rng, pool, cnames):
    r = rng.random()
    if r < 0.5:
        p = rng.choice(list(BAD_PROP))
        return ['bad', ['prop', p, rng.choice(BAD_PROP[p])]]
    if r < 0.7:
        return ['bad', ['cookie', rng.choice(cnames), 'rejected-%d' % rng.randint(0, 99), rng.choice(BAD_COOKIE_KW)]]
    if r < 0.85:
        return ['bad', [rng.choice(['set', 'append']), g_name(rng, pool), {'badstr': 1}]]
    if r < 0.95:
        return ['bad', [rng.choice(['set', 'append', 'delete', 'get']), None, 'v'][:3]]
    return ['bad', ['link', {'target': rng.choice([5, None]), 'rel': 'next'}]]


def g_value(rng):
    n = rng.choice([0, 1, 1, 2, 5, 12, 30])
    if rng.random() < 0.5:
        return ''.join(rng.choice(SAFE_VALUE_CHARS + [',', ' ']) for _ in range(n)).strip()
    return ''.join(rng.choice(VALUE_CHARS) for _ in range(n))


def g_name(rng, pool):
    return recase(rng, rng.choice(pool))


def g_dt(rng, any_offset):
    dt = [rng.randint(1971, 2099), rng.randint(1, 12), rng.randint(1, 28), rng.randint(0, 23), rng.randint(0, 59),
          rng.randint(0, 59)]
    if any_offset:
        off = rng.choice([None, 0, rng.randint(-720, 840), 330, -90])
    else:
        off = rng.choice([None, 0])
    return {'dt': dt, 'off': off}


def g_uri(rng):
    parts = []
    for _ in range(rng.randint(1, 6)):
        r = rng.random()
        if r < 0.3:
            parts.append(''.join(rng.choice('abcxyz019/-._~') for _ in range(rng.randint(1, 6))))
        elif r < 0.55:
            parts.append(''.join(rng.choice(['\u00e9', '\u00fc', '\u20ac', '\u4e2d', '\U0001F600', '\u0416', '\u05d0'])
                                 for _ in range(rng.randint(1, 3))))
        elif r < 0.7:
            parts.append(rng.choice([' ', '"', '<', '>', '\\', '^', '`', '{', '|', '}']))
        elif r < 0.85:
            parts.append(rng.choice([':', '/', '?', '#', '[', ']', '@', '!', '$', '&', "'", '(', ')', '*', '+', ',', ';', '=']))
        elif r < 0.93:
            parts.append(rng.choice(['%', '%2', '%zz', '%%']))
        else:
            parts.append(rng.choice(['%20', '%C3%A9', '%2f']))
    s = ''.join(parts)
    if rng.random() < 0.3:
        s = rng.choice(['http://ex\u00e4mple.org/', 'https://example.com/', '/']) + s
    return s


def g_filename(rng):
    r = rng.random()
    base = ''.join(rng.choice('abcXYZ019 -_.()') for _ in range(rng.randint(1, 8)))
    if r < 0.3:
        return base + '.txt'
    if r < 0.4:
        return base + rng.choice(['"', '\\', 'a"b', ';', ',', "'", '%41']) + '.bin'
    uni = ''.join(rng.choice(['\u00e9', '\u00c5', '\u20ac', '\u4e2d', '\U0001F600', '\U0001D7CF'])
                  for _ in range(rng.randint(1, 3)))
    return base + uni + rng.choice(['', ';', ',', "'", ' ', '"', '/', '%', '*', '(x)']) + '.pdf'


def g_prop(rng):
    p = rng.choice(list(PROPS))
    if rng.random() < 0.15:
        return ['prop', p, None]
    if p in ('cache_control', 'vary'):
        pool = ['no-cache', 'no-store', 'max-age=60', 'private', 'must-revalidate'] if p == 'cache_control' else \
            ['Accept', 'accept-encoding', 'X-Foo', '*', 'Cookie']
        items = [rng.choice(pool) for _ in range(rng.randint(1, 3))]
        v = items if rng.random() < 0.6 else {'tuple': items}
    elif p in ('location', 'content_location'):
        v = g_uri(rng)
    elif p == 'content_length':
        n = rng.choice([0, 1, 7, 1024, 10 ** 12])
        v = n if rng.random() < 0.6 else str(n)
    elif p == 'content_range':
        a = rng.randint(0, 1000)
        t = [a, a + rng.randint(0, 1000), rng.choice([5000, '*'])]
        if rng.random() < 0.3:
            t.append(rng.choice(['items', 'bytes', 'pages']))
        v = {'tuple': t}
    elif p == 'content_type':
        v = rng.choice(['text/plain', 'application/json', 'text/html; charset=utf-8', 'application/x-custom+json',
                        'multipart/form-data; boundary="a b"'])
    elif p in ('downloadable_as', 'viewable_as'):
        v = g_filename(rng)
    elif p == 'etag':
        v = rng.choice(['abc', 'W/"x"', '"q"', 'sp ace', '0', 'W/x'])
    elif p in ('expires', 'last_modified'):
        v = g_dt(rng, rng.random() < 0.25)
    elif p == 'retry_after':
        v = rng.choice([0, 1, 120, 86400])
    else:
        v = rng.choice(['bytes', 'none', 'items'])
    return ['prop', p, v]


def g_link(rng):
    kw = {'target': g_uri(rng) if rng.random() < 0.8 else '/things/1',
          'rel': rng.choice(['next', 'prev', 'bookmark', 'http://example.com/ext-type',
                             'alternate https://example.com/\u00e9xt', 'http://a.org/x y', 'http://example.com/a"b',
                             '//example.com/\u00e9xt', 'alternate //x.org/\u00fc\u4e2d next', '//h/p',
                             'urn:x-rel //h/\u20ac', 'HTTPS://EX.ORG/\u0416'])}
    if rng.random() < 0.3:
        kw['title'] = ''.join(rng.choice('abc XYZ,;=09') for _ in range(rng.randint(0, 8)))
    if rng.random() < 0.4:
        kw['title_star'] = [rng.choice(['', 'en', 'en-GB', 'zh-Hant']), g_uri(rng)]
    if rng.random() < 0.3:
        kw['anchor'] = g_uri(rng)
    if rng.random() < 0.3:
        kw['hreflang'] = rng.choice(['en', ['en', 'fr-CA'], {'tuple': ['de', 'it', 'pt-BR']}, []]) or 'es'
    if rng.random() < 0.3:
        kw['type_hint'] = rng.choice(['text/html', 'application/json; q=1'])
    if rng.random() < 0.35:
        kw['crossorigin'] = rng.choice(['anonymous', 'Anonymous', 'use-credentials', 'USE-Credentials', 'bogus'])
    if rng.random() < 0.25:
        kw['link_extension'] = [[rng.choice(['x-foo', 'data', 'media']), rng.choice(['1', 'screen', 'a-b'])]
                                for _ in range(rng.randint(1, 2))]
    return ['link', kw]


def g_cookie_name(rng):
    while True:
        n = ''.join(rng.choice(TOKEN_CHARS) for _ in range(rng.randint(1, 8)))
        if n.lower() not in COOKIE_RESERVED:
            return n


def g_cookie(rng, names):
    r = rng.random()
    if r < 0.06:
        return ['cookie', rng.choice(['a b', 'n\u00e4me', 'a;b', 'a=b', 'a,b', '', 'a"b', 'x/y']), 'v', {}]
    if r < 0.1:
        return ['cookie', rng.choice(names), rng.choice(['v\u00e4lue', '\u20ac']), {}]
    name = rng.choice(names)
    r = rng.random()
    if r < 0.1:
        value = ''
    elif r < 0.5:
        value = ''.join(rng.choice(SAFE_VALUE_CHARS) for _ in range(rng.randint(1, 12)))
    else:
        value = ''.join(rng.choice(COOKIE_VALUE_CHARS) for _ in range(rng.randint(1, 12)))
    kw = {}
    if rng.random() < 0.4:
        kw['expires'] = g_dt(rng, True)
    if rng.random() < 0.5:
        n = rng.choice([0, 0, 1, 60, 86400, 10 ** 9, -1, -300, rng.randint(1, 10 ** 6)])
        kw['max_age'] = rng.choice([n, float(n) + rng.choice([0.0, 0.25, 0.999]), str(n)])
    if rng.random() < 0.3:
        kw['domain'] = rng.choice(['example.com', '.Example.ORG', 'sub.x.io', 'localhost'])
    if rng.random() < 0.3:
        kw['path'] = rng.choice(['/', '/a/b', '/p q', '/x,y', '/~u/%41'])
    if rng.random() < 0.6:
        kw['secure'] = rng.choice([None, True, False])
    if rng.random() < 0.5:
        kw['http_only'] = rng.choice([True, False])
    if rng.random() < 0.4:
        kw['same_site'] = recase(rng, rng.choice(['lax', 'strict', 'none']))
    if rng.random() < 0.3:
        kw['partitioned'] = rng.choice([True, False])
    return ['cookie', name, value, kw]


def g_history(rng):
    pool = rng.sample(NAME_POOL, rng.randint(1, 4))
    cnames = [g_cookie_name(rng) for _ in range(rng.randint(1, 3))]
    if rng.random() < 0.3:
        cnames.append(cnames[0].swapcase())
    prog = []
    streamed = False
    for _ in range(rng.randint(1, 12)):
        r = rng.random()
        if r < 0.14:
            v = g_value(rng)
            prog.append(['set', g_name(rng, pool), v if rng.random() < 0.9 else rng.randint(0, 99)])
        elif r < 0.28:
            prog.append(['append', g_name(rng, pool), g_value(rng)])
        elif r < 0.35:
            prog.append(['delete', g_name(rng, pool)])
        elif r < 0.39:
            prog.append(['get', g_name(rng, pool)])
        elif r < 0.47:
            pairs = [[g_name(rng, pool), g_value(rng)] for _ in range(rng.randint(0, 4))]
            if rng.random() < 0.12:
                pairs.insert(rng.randint(0, len(pairs)), [recase(rng, 'Set-Cookie'), 'a=b'])
            prog.append(['set_headers', rng.choice(['dict', 'pairs', 'lists', 'gen', 'mapping']), pairs])
        elif r < 0.60:
            prog.append(g_prop(rng))
        elif r < 0.65:
            prog.append(['propdel', rng.choice(list(PROPS))])
        elif r < 0.72:
            prog.append(g_link(rng) + (['pos'] if rng.random() < 0.3 else []))
        elif r < 0.83:
            prog.append(g_cookie(rng, cnames) + (['pos'] if rng.random() < 0.3 else []))
        elif r < 0.88:
            kw = {}
            if rng.random() < 0.4:
                kw['samesite'] = rng.choice(['Strict', 'None', 'Lax', ''])
            if rng.random() < 0.3:
                kw['domain'] = rng.choice(['example.com', 'sub.x.io'])
            if rng.random() < 0.3:
                kw['path'] = rng.choice(['/', '/a/b'])
            prog.append(['unset', rng.choice(cnames), kw] + (['pos'] if rng.random() < 0.4 else []))
        elif r < 0.915:
            n = rng.choice(cnames) if rng.random() < 0.5 else g_cookie_name(rng)
            raw = '%s=%s' % (n, ''.join(rng.choice(SAFE_VALUE_CHARS) for _ in range(rng.randint(0, 6))))
            if rng.random() < 0.3:
                raw += rng.choice(['; Path=/', '; HttpOnly', '; Max-Age=10; Secure'])
            prog.append(['append', recase(rng, 'Set-Cookie'), raw])
        elif r < 0.935:
            prog.append(g_bad(rng, pool, cnames))
        elif r < 0.95 and not streamed:
            streamed = True
            prog.append(['stream', rng.choice([0, 1, 5, 100])])
        else:
            which = rng.random()
            n = recase(rng, 'Set-Cookie')
            if which < 0.34:
                prog.append(['set', n, 'a=b'])
            elif which < 0.67:
                prog.append(['get', n])
            else:
                prog.append(['delete', n])
    return prog


def nontrivial_key(prog):
    """non-trivial = at least two operations, or one cookie / link / URI-bearing operation."""
    if len(prog) >= 2:
        return repr(prog)
    if prog and prog[0][0] in ('cookie', 'unset', 'link', 'prop'):
        return repr(prog)
    return None


# ------------------------------------------------------------------ entry points

_marks = []


def _mark(rec, name):
    """evidence only: how long each phase took in shard 0 (no verdict depends on it)"""
    _marks.append((name, rec.elapsed()))
    if name == 'end' and rec.shard == 0:
        rec.note('phase start times (s): ' + ', '.join('%s=%.1f' % m for m in _marks))


def run(rec):
    rec.rule = ('a case = one history of response-header operations executed inside a responder of a real '
                'falcon app, once per server interface (WSGI driver, ASGI driver), followed by the cookie echo '
                'request; non-trivial = at least two operations or one cookie/link/typed-setter operation; '
                'distinct by the literal operation list')
    rec.assumptions = [
        'reference model and parsers in vlib/models/c15.py (RFC 6265 user agent, RFC 8288, RFC 6266/8187) are correct',
        'header names are ASCII tokens, plain values printable ASCII/latin-1, raw cookies and cookie paths/domains ASCII',
        'cookie names are RFC 6265 tokens other than the attribute names reserved by http.cookies',
        'a URI handed in already fully percent-encoded (only URI characters and at least one %XX) is passed '
        'through unchanged by design (C10); for it only ASCII-ness is demanded',
        'append_link(title=...) and (rel without "//") are documented as plain ASCII tokens and generated so',
        'Content-Length of the emitted list is owned by the framework unless the body is a stream',
    ]
    quick = rec.tier == 'quick'
    rng = rec.rng
    idx = 0
    frac = 0.9
    if rec.mode != 'pure':
        import falcon.util.misc as fmisc
        fn = fmisc._encode_items_to_latin1
        rec.note('mode=%s _encode_items_to_latin1 is %r' % (rec.mode, fn))
        if 'cyutil' not in (getattr(fn, '__module__', '') or ''):
            rec.mark_inconclusive('twin mode requested but falcon.util.misc._encode_items_to_latin1 is not the cyutil twin')
        SERVERS[0] = ('asgi',)
        frac = 0.3

    _mark(rec, 'A')
    # -- phase A: all histories up to length L over the abstract-operation alphabet SYMS
    small = quick or rec.mode != 'pure'
    maxlen = 3 if small else 4
    for L in range(0, maxlen + 1):
        for tup in itertools.product(range(len(SYMS)), repeat=L):
            idx += 1
            if idx % rec.nshards != rec.shard:
                continue
            prog = [SYMS[j] for j in tup]
            run_program(rec, prog, True, key=nontrivial_key(prog))
            rec.count('phase.A')
            if idx % 997 == 0:
                rec.sample({'history': prog})
    _mark(rec, 'B')
    # -- phase B: cookie attribute cross product (4 cookies per response)
    batch, bidx = [], 0
    last_sd = None

    def flush(sd):
        prog = [['cookie', 'ck%d' % j, 'v%d' % j, kw] + (['pos'] if (j + bidx) % 2 else [])
                for j, kw in enumerate(batch)]
        run_program(rec, prog, sd)
        rec.count('phase.B', len(batch))

    for sd, kw in cookie_cross_product():
        if batch and (len(batch) == 4 or sd != last_sd):
            bidx += 1
            if bidx % rec.nshards == rec.shard:
                flush(last_sd)
            batch = []
        batch.append(kw)
        last_sd = sd
    if batch:
        bidx += 1
        if bidx % rec.nshards == rec.shard:
            flush(last_sd)
    _mark(rec, 'D')
    # -- phase D: every string up to length L over the URI alphabet through all URI-bearing helpers
    ulen = 3 if small else 4
    idx = 0
    for L in range(0, ulen + 1):
        for tup in itertools.product(URI_ALPHABET, repeat=L):
            idx += 1
            if idx % rec.nshards != rec.shard:
                continue
            s = ''.join(tup)
            run_program(rec, uri_program(s), True, light=True)
            rec.count('phase.D')
            if idx % 1499 == 0:
                rec.sample({'uri_input': s})
    _mark(rec, 'F')
    # -- phase F: many escapes around one element that is not an escape (sizes around internal constants)
    ecounts = (list(range(0, 21)) + [63, 64, 65, 255, 256, 257]) if small else None
    for j, (n, defect, pos, sv) in enumerate(long_escape_cases(ecounts)):
        if j % rec.nshards != rec.shard:
            continue
        run_program(rec, uri_program(sv)[:6], True, key=('F', n, defect, pos), light=True)
        rec.count('phase.F')
        if defect.startswith('%') and n >= 9:
            rec.count('uri.many_escapes_then_malformed')
        if defect == '' and n >= 9:
            rec.count('uri.many_escapes_wellformed')
    _mark(rec, 'G')
    # -- phase G: code point sweep through the file-name helpers and Location (20 code points per response)
    cps = sweep_code_points(251 if small else 7)
    for j in range(0, len(cps), 20):
        if (j // 20) % rec.nshards != rec.shard:
            continue
        prog = []
        for k, (cp, special) in enumerate(cps[j:j + 20]):
            ch = chr(cp)
            prog.append(['prop', 'downloadable_as' if k % 2 else 'viewable_as', 'f' + ch + '.pdf'])
            prog.append(['prop', 'location', '/d/' + ch])
            if not ch.isspace():
                prog.append(['link', {'target': '/t/' + ch, 'rel': ('//h/' if k % 2 else 'next http://h/') + ch}])
            rec.count('sweep.special' if special else 'sweep.stride')
        run_program(rec, prog, True, key=('G', cps[j][0]), light=True)
        rec.count('phase.G')
    _mark(rec, 'H')
    # -- phase H: Max-Age around 2**31 .. 10**21 as int, decimal string and float (4 cookies per response)
    mav = max_age_boundary_values()
    for j in range(0, len(mav), 4):
        if (j // 4) % rec.nshards != rec.shard:
            continue
        prog = [['cookie', 'm%d' % k, 'v', {'max_age': v}] for k, v in enumerate(mav[j:j + 4])]
        run_program(rec, prog, bool((j // 4) % 2))
        rec.count('phase.H')
        for v in mav[j:j + 4]:
            if not isinstance(v, (float, bool)) and abs(int(v)) > 2 ** 53:
                rec.count('maxage.exact_above_2_53')
    _mark(rec, 'I')
    # -- phase I: every ordered pair of (configuration mode, Secure default) on consecutive responses
    combos = [(c, d) for c in CFGS for d in (True, False)]
    cprog = [['cookie', 's', 'v', {}], ['cookie', 't', 'v', {'secure': None}, 'pos'],
             ['cookie', 'u', 'v', {'secure': True}], ['cookie', 'w', 'v', {'secure': False}]]
    j = 0
    for c1, d1 in combos:
        for c2, d2 in combos:
            j += 1
            if j % rec.nshards != rec.shard:
                continue
            run_program(rec, cprog, d1, cfg=c1, key=('I', c1, d1, c2, d2, 1))
            run_program(rec, cprog, d2, cfg=c2, key=('I', c1, d1, c2, d2, 2))
            rec.count('phase.I')
    _mark(rec, 'E')
    # -- phase E: directed histories (branch classes named by the floors)
    for j, prog in enumerate(directed_programs()):
        if j % rec.nshards != rec.shard:
            continue
        for sd in (True, False):
            run_program(rec, prog, sd, key=repr((sd, prog)))
        rec.count('phase.E')
    rec.exhaustive = False
    if rec.shard == 0:
        rec.note('exhaustive parts: all histories of length <= %d over %d abstract operations; %d cookie attribute '
                 'combinations; all strings of length <= %d over %d symbols through the URI-bearing helpers'
                 % (maxlen, len(SYMS), 2 * 3 * 5 * 2 * 2 * 3 * 2 * 4 * 2, ulen, len(URI_ALPHABET)))
    _mark(rec, 'C')
    # -- phase C: random histories
    n = 0
    # at least 60 per shard whatever the machine load (sized by count), then until the budget is used
    while n < 60 or rec.budget_ok(frac):
        for _ in range(20):
            prog = g_history(rng)
            sd = rng.random() < 0.5
            run_program(rec, prog, sd, key=nontrivial_key(prog))
            rec.count('phase.C')
            rec.seen('history_len', len(prog))
            n += 1
            if n <= 2:
                rec.sample({'history': prog, 'secure_default': sd})
    _mark(rec, 'end')
    # -- floors
    if rec.mode != 'pure':
        rec.counters['twin.asgi_runs'] = rec.counters['run.asgi']
        rec.floor('twin.asgi_runs', 400)
        return
    rec.floor('run.wsgi', 400)
    rec.floor('run.asgi', 400)
    rec.floor('phase.A', 200)
    rec.floor('phase.B', 5760)
    rec.floor('phase.D', 500)
    rec.floor('phase.C', 200)
    rec.floor('phase.E', 280)
    rec.floor('phase.F', 500)
    rec.floor('phase.I', 100)
    for c in CFGS:
        rec.floor('cfg.' + c, 300)
    for c, nmin in [('callform.unset_positional', 80), ('callform.cookie_positional', 2000),
                    ('callform.link_positional', 1000), ('prop.date_other_zone', 40), ('prop.date_utc_aware', 40),
                    ('prop.date_naive', 40), ('mon.echo_again', 2500), ('mon.unset_attrs', 200)]:
        rec.floor(c, nmin)
    rec.floor('phase.G', 300)
    rec.floor('phase.H', 60)
    rec.floor('sweep.special', 2000)
    rec.floor('sweep.stride', 4000)
    rec.floor('maxage.exact_above_2_53', 80)
    rec.floor('uri.many_escapes_then_malformed', 200)
    rec.floor('uri.many_escapes_wellformed', 40)
    for c, nmin in [('mon.headers', 2000), ('mon.get_header', 4000), ('mon.prop_read', 10000), ('get.recased', 500),
                    ('get.present', 500), ('get.absent', 500), ('mon.emission', 800), ('mon.emit_plain', 500),
                    ('mon.asgi_name_case', 500), ('mon.cookie_lines', 500), ('mon.raw_cookie', 100),
                    ('mon.cookie_attrs', 5760), ('mon.unset_expired', 100), ('mon.unset_vs_raw', 20),
                    ('mon.echo', 5000), ('echo.quoted', 20), ('mon.uri', 1000), ('uri.nonascii', 300),
                    ('uri.preescaped', 2), ('mon.link', 500), ('link.title_star', 300), ('link.anchor', 300),
                    ('link.rel_uri', 300), ('mon.disposition', 500), ('dispo.ascii', 50), ('dispo.ext', 300),
                    ('mon.prop_set', 100), ('op.append_existing', 100), ('op.append_new', 100),
                    ('op.delete_present', 100), ('op.delete_missing', 20), ('op.propdel_present', 50),
                    ('op.propdel_missing', 50), ('op.prop_none', 50), ('op.cookie_rewrite', 50),
                    ('op.unset_after_write', 50), ('op.cookie_illegal', 5), ('op.stream', 5),
                    ('op.link_appended', 50), ('guard.set_header', 50), ('guard.get_header', 10),
                    ('guard.delete_header', 10), ('guard.set_headers', 5),
                    ('op.set_headers.dict', 50), ('op.set_headers.pairs', 50), ('op.set_headers.gen', 5),
                    ('op.set_headers.mapping', 5), ('op.set_headers.lists', 5),
                    ('attr.expires', 1000), ('attr.max-age', 1000), ('attr.domain', 1000), ('attr.path', 1000),
                    ('attr.secure', 1000), ('attr.httponly', 1000), ('attr.samesite', 1000),
                    ('attr.partitioned', 1000)]:
        rec.floor(c, nmin)
    for p in PROPS:
        rec.floor('op.prop.' + p, 5)
        rec.floor('bad.raised.prop.' + p, 4)
    for c, nmin in [('bad.raised', 300), ('bad.raised.prop_over_existing', 100), ('bad.raised.cookie', 20),
                    ('mon.rejected_cookie', 20), ('bad.raised.set', 4), ('bad.raised.append', 4),
                    ('bad.raised.set_headers', 4), ('bad.raised.link', 4), ('bad.raised.unset', 2),
                    ('attr.expires_naive_local_zone_not_utc', 1000)]:
        rec.floor(c, nmin)
    for tz in TZS:
        rec.floor('tz.' + tz.split(',')[0], 200)


def replay(rec, w):
    wit = w['witness']
    prog = wit['prog']
    print('replaying history of %d operations (secure_default=%r), reported on %s' % (
        len(prog), wit.get('secure_default'), wit.get('server')))
    for b in wit.get('before') or []:
        run_program(rec, b[0], b[1], tz=b[2], cfg=(b[3] if len(b) > 3 else 'resp'))
    run_program(rec, prog, wit.get('secure_default', True), tz=wit.get('tz') or 'UTC', cfg=wit.get('cfg') or 'resp')
    rec.case('replay-sentinel')
