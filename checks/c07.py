"""C07 - request body streams deliver exactly the declared body: no loss, no over-read.  DESIGN.md section 4, C07.

Real code: falcon.stream.BoundedStream reached through falcon.App -> req.bounded_stream (looked up again
before every operation) over a recording wsgi.input with pipelined bytes after Content-Length, and
falcon.asgi.stream.BoundedStream reached through falcon.asgi.App -> req.stream / req.bounded_stream, fed by
receive-event scripts on the stepped loop (an await on receive() with nothing more to come is outcome 'blocked').

Oracle: vlib/models/c07_stream.py (BodyModel = flat cursor over wire[:Content-Length] + the rules of the
statement).  Monitors, evaluated after every operation of every history:
  * returned bytes continue the expected body (no loss, no duplication, nothing beyond Content-Length);
  * sized read returns <= size;
  * end-of-stream (empty return, StopIteration, end of iteration, unsized read) only with the whole body delivered;
  * server side: every call falcon makes on wsgi.input stays within the remaining Content-Length budget, no byte at
    offset >= Content-Length is consumed; ASGI: the app is never parked on receive() (blocked);
  * eof / tell() agree with what was returned; once eof was observed True (also on a closed stream) no later
    operation hands out body bytes.
"""

import asyncio
import itertools
import os
import signal
import time

import falcon
import falcon.asgi

from vlib.drivers import asgi as A
from vlib.drivers import wsgi as W
from vlib.models.c07_stream import BodyModel, asgi_wire
from vlib.verdict import StopCheck

LEVEL = 'exploration'
SHARDS = {'quick': 4, 'thorough': 16}
BUDGET = {'quick': 16, 'thorough': 150}

# proposed keys of known findings (narrow classifiers below)
K_BUDGET = 'wsgi-stream-budget-deducts-requested-size'
K_SHORT = 'wsgi-stream-short-server-read-loses-bytes'
K_ITER = 'wsgi-stream-iteration-bypasses-bound'
K_LINES = 'wsgi-stream-readlines-crosses-bound'
K_OVERSIZE = 'asgi-stream-read-exceeds-size-on-oversized-chunk'
K_TELL = 'asgi-stream-tell-counts-first-chunk-twice'
K_EXH = 'asgi-stream-exhaust-position-beyond-content-length'
K_ABANDON = 'asgi-stream-abandoned-iteration-forgets-final-event'
K_INTR = 'asgi-stream-interrupted-read-drops-bytes-already-taken'

ITER_CAP = 2000
LOSS_KINDS = ('end-of-stream-before-whole-body', 'read-to-end-incomplete', 'eof-true-before-whole-body')
BEYOND_KINDS = ('server-asked-beyond-content-length', 'server-bytes-beyond-content-length-consumed',
                'over-read-beyond-content-length', 'eof-false-after-content-length-consumed')


# ------------------------------------------------------------------ runaway guard (pure-Python loops)

class Runaway(BaseException):
    pass


def _on_alarm(signum, frame):
    raise Runaway()


def guarded(rec, fn, witness_fn):
    """A case normally takes < 1 ms of CPU; one that burns 3 s and, run again, 12 s of the process's own CPU time
    without finishing is a runaway (the stream keeps polling a source that has nothing more to give).  The budget
    is CPU time of this process (ITIMER_VIRTUAL), not wall-clock time, so that an overloaded machine cannot turn a
    slow case into a verdict.  The shard stops at a runaway, because every similar case would spin as well."""
    for limit in (3, 12):
        signal.signal(signal.SIGVTALRM, _on_alarm)
        signal.setitimer(signal.ITIMER_VIRTUAL, limit)
        try:
            return fn()
        except Runaway:
            rec.count('guard.alarm_%ds_cpu' % limit)
            continue
        finally:
            signal.setitimer(signal.ITIMER_VIRTUAL, 0)
    rec.violation('runaway-no-termination', witness_fn())
    raise StopCheck()


# ------------------------------------------------------------------ WSGI side

class ServerInput(W.FakeInput):
    """wsgi.input that records every call falcon makes (not its own internal line reads).

    api entries: (op, size, remaining_budget_before, bytes_returned, asked_beyond_content_length)."""

    def __init__(self, body, limit, trailing, short):
        super().__init__(body, limit=limit, trailing=trailing, short=short)
        self.api = []

    def _call(self, op, size, unbounded, fn):
        remaining = max(self.limit - self.pos, 0)
        out = fn()
        n = len(out) if isinstance(out, bytes) else sum(len(x) for x in out)
        self.api.append((op, size, remaining, n, bool(unbounded or size > remaining)))
        return out

    def read(self, size=-1):
        return self._call('read', size, size is None or size < 0, lambda: W.FakeInput.read(self, size))

    def readline(self, size=-1):
        return self._call('readline', size, size is None or size < 0, lambda: W.FakeInput.readline(self, size))

    def readlines(self, hint=-1):
        def f():
            lines, total = [], 0
            while True:
                line = W.FakeInput.readline(self)
                if not line:
                    break
                lines.append(line)
                total += len(line)
                if hint is not None and 0 < hint <= total:
                    break
            return lines
        return self._call('readlines', hint, hint is None or hint <= 0, f)

    def __next__(self):
        line = self._call('next', None, True, lambda: W.FakeInput.readline(self))
        if not line:
            raise StopIteration
        return line


class Ctx:
    def __init__(self, hist, inp=None, fault=None):
        self.hist = hist
        self.inp = inp
        self.log = []
        # ASGI only
        self.fault = fault          # (j, 'raise' | 'cancel'): the j-th receive() awaited by the stream is interrupted
        self.fault_step = None      # history step during which the fault fired
        self.recv_calls = 0
        self.step = -1
        self.deliv = []             # (step, body length) of every event handed to the stream after the first one
        self.it = None              # the iterator stepped by ('anext',) operations
        self.gave_up = False


class ReceiveFault(Exception):
    """Injected: the server's receive() callable fails (connection error while waiting for the next event)."""


CTX = [None]


def _exc(ex):
    return ('exc', type(ex).__name__ + ': ' + str(ex)[:120], isinstance(ex, (ValueError, OSError)))


def w_apply(s, op):
    k = op[0]
    try:
        if k == 'read':
            return ('ok', s.read() if op[1] is None else s.read(op[1]))
        if k == 'readline':
            return ('ok', s.readline() if op[1] is None else s.readline(op[1]))
        if k == 'readlines':
            return ('ok', s.readlines() if op[1] is None else s.readlines(op[1]))
        if k == 'next':
            try:
                return ('ok', next(s))
            except StopIteration:
                return ('stop',)
        if k == 'iter':
            out = []
            for line in s:
                out.append(line)
                if len(out) > ITER_CAP:
                    return ('runaway', out[:3])
            return ('ok', out)
        if k == 'exhaust':
            if op[1] is None:
                s.exhaust()
            else:
                s.exhaust(op[1])
            return ('ok', None)
        if k == 'close':
            s.close()
            return ('ok', None)
    except Exception as ex:  # noqa
        return _exc(ex)
    raise ValueError(op)


def peeks_content_length(hist):
    """In every second case (a fixed function of the history as generated, so that a replay does the same) the
    application looks at req.content_length before it first touches the stream (upload-limit check)."""
    return len(hist) % 2 == 0


def _peek_content_length(req):
    try:
        return req.content_length
    except falcon.HTTPError:
        return None


class WsgiResource:
    def on_post(self, req, resp):
        c = CTX[0]
        if peeks_content_length(c.hist):
            _peek_content_length(req)
        for op in c.hist:
            s = req.bounded_stream            # looked up again every time: must be the same bounded view
            r = w_apply(s, op)
            try:
                eof = s.eof
            except Exception as ex:  # noqa
                eof = 'raised ' + repr(ex)[:80]
            c.log.append((r, eof, len(c.inp.api), c.inp.served_beyond))
        resp.data = b'ok'


_apps = {}


def wsgi_app():
    if 'w' not in _apps:
        app = falcon.App()
        app.add_route('/c07', WsgiResource())
        _apps['w'] = app
    return _apps['w']


def asgi_app():
    if 'a' not in _apps:
        app = falcon.asgi.App()
        app.add_route('/c07', AsgiResource())
        _apps['a'] = app
    return _apps['a']


def _under_key(under_src):
    if 'iter' in under_src:
        return K_ITER
    if 'lines' in under_src:
        return K_LINES
    return None


def classify_wsgi(kind, op, call, calls, over_src, under_src):
    """Narrow attribution of a witness to one of the recorded mechanisms (never by case hash)."""
    if kind == 'server-asked-beyond-content-length':
        if call[0] == 'next':
            return K_ITER                      # __next__ proxies next(wsgi.input): an unbounded line read
        if call[0] == 'readlines':
            return K_LINES                     # hint 0 (budget used up) means 'no limit' to the wrapped stream
        return _under_key(under_src)           # budget too large because iteration/readlines was under-deducted
    if kind in BEYOND_KINDS or kind == 'returned-bytes-not-next-in-body':
        # the operation itself made an unbounded request to wsgi.input
        if op[0] in ('next', 'iter') and any(c[0] == 'next' for c in calls):
            return K_ITER
        if op[0] == 'readlines' and any(c[0] == 'readlines' and (c[4] or c[3] > c[1]) for c in calls):
            return K_LINES
        if kind == 'returned-bytes-not-next-in-body':
            return None
        return _under_key(under_src)
    if kind in LOSS_KINDS:
        src = over_src - {'eof'}
        if not src:
            return None
        return K_SHORT if src == {'short'} else K_BUDGET
    return None


def _report(rec, kind, wit, key):
    rec.violation(kind, wit, known_key=key)
    return key is not None and key in rec.known_keys


def wsgi_case(rec, cfg, hist):
    return guarded(rec, lambda: _wsgi_case(rec, cfg, hist),
                   lambda: dict(_wsgi_wit(cfg, hist), detail='case does not terminate'))


def _wsgi_wit(cfg, hist):
    body, clh, limit, trailing, short, clclass = cfg
    return {'stack': 'wsgi', 'body': body, 'content_length': clh, 'trailing': trailing, 'short': short,
            'history': list(hist)}


def _wsgi_case(rec, cfg, hist):
    body, clh, limit, trailing, short, clclass = cfg
    hist = list(hist) + [('read', None)]
    inp = ServerInput(body, limit, trailing, short)
    env = W.make_environ('POST', '/c07', headers=[('Content-Length', clh)] if clh is not None else [],
                         content_length=None, wsgi_input=inp)
    ctx = CTX[0] = Ctx(hist, inp)
    res = W.run_wsgi(wsgi_app(), env)
    wit0 = dict(_wsgi_wit(cfg, hist), reads_content_length_first=peeks_content_length(hist))
    rec.count('class.wsgi.cl.' + clclass)
    if short:
        rec.count('class.wsgi.short_read_server')
    if trailing:
        rec.count('class.wsgi.pipelined_bytes_after_body')
    if clclass == 'invalid' and res.exc is None and res.status == 400 and not ctx.log and not inp.api \
            and not res.problems:
        rec.count('wsgi.invalid_content_length_rejected')     # refusing the request outright reads nothing either
        return True
    if res.exc is not None or res.status != 200 or len(ctx.log) != len(hist) or res.problems:
        rec.violation('app-failed', dict(wit0, status=res.status, exc=repr(res.exc), problems=res.problems[:3],
                                         steps_done=len(ctx.log)))
        return False
    m = BodyModel(body + trailing, limit)
    over_src, under_src = set(), set()
    api_i = beyond_seen = 0
    closed = False
    eof_seen = False        # eof was observed True after an earlier operation: nothing may be handed out any more
    for i, (op, (r, eof, api_n, beyond)) in enumerate(zip(hist, ctx.log)):
        findings = []
        # ---- server side: what falcon asked of wsgi.input during this operation
        calls = inp.api[api_i:api_n]
        for call in calls:
            cop, size, remaining, n, over = call
            rec.count('mon.wsgi.server_call')
            if over:
                findings.append(('server-asked-beyond-content-length', False, call, call))
            if cop == 'next':
                if n:
                    under_src.add('iter')
            else:
                req = size if size is not None and size >= 0 else 0
                if n < req:
                    over_src.add('line' if cop != 'read' else ('short' if short else 'eof'))
                elif n > req:
                    under_src.add('lines')
        api_i = api_n
        if beyond > beyond_seen:
            findings.append(('server-bytes-beyond-content-length-consumed', False, beyond - beyond_seen, None))
            beyond_seen = beyond
        # ---- what the application got
        k = op[0]
        rec.count('mon.wsgi.op.' + k)
        ret_before = m.returned
        got = None
        if r[0] == 'exc':
            got = r[1]
            if not closed:
                findings.append(('operation-raised', True, r[1], None))
            else:
                rec.count('wsgi.raised_after_close')
        elif r[0] == 'runaway':
            findings.append(('iteration-does-not-terminate', True, r[1], None))
        elif r[0] == 'stop':
            got = 'StopIteration'
            rec.count('branch.wsgi.stopiteration')
            findings += [f + (None,) for f in m.end_reported()]
        else:
            got = r[1]
            if k in ('read', 'readline'):
                size = op[1]
                unsized = size is None or size == -1
                findings += [f + (None,) for f in m.take(got, None if unsized else size,
                                                         to_end=(unsized and k == 'read'), partial_ok=bool(short))]
            elif k == 'readlines':
                hint = op[1]
                if not isinstance(got, list) or not all(isinstance(x, bytes) for x in got):
                    findings.append(('returned-not-a-list-of-bytes', True, repr(got)[:80], None))
                else:
                    unsized = hint is None or hint == -1
                    findings += [f + (None,) for f in m.take(b''.join(got), None, to_end=unsized,
                                                             partial_ok=bool(short), empty_ok=not unsized)]
            elif k == 'next':
                findings += [f + (None,) for f in m.take(got, None)]
            elif k == 'iter':
                findings += [f + (None,) for f in m.take(b''.join(got), None, to_end=True)]
            elif k == 'exhaust':
                m.discard_rest()
            elif k == 'close':
                closed = True
        if closed:
            findings = [f for f in findings if f[0] not in LOSS_KINDS]
        elif not any(f[1] for f in findings):
            rec.count('mon.wsgi.eof')
            if eof is True:
                if not m.at_end():
                    findings.append(('eof-true-before-whole-body', True, '%d bytes not delivered' % len(m.rest()), None))
                else:
                    rec.count('branch.wsgi.eof_true_at_end')
            elif eof is False:
                if m.limit_reached():
                    findings.append(('eof-false-after-content-length-consumed', False, 'consumed %d' % m.cur.pos, None))
            else:
                findings.append(('eof-raised', False, eof, None))
        if eof_seen:
            rec.count('mon.wsgi.eof_is_final')
            if m.returned > ret_before:
                findings.append(('bytes-handed-out-after-eof-was-reported', True,
                                 '%d bytes after eof had been True' % (m.returned - ret_before), None))
        eof_seen = eof_seen or eof is True
        if m.at_end() and i < len(hist) - 1:
            rec.count('branch.wsgi.op_after_end')
        # ---- report
        stop = False
        for kind, fatal, detail, call in findings:
            key = classify_wsgi(kind, op, call, calls, over_src, under_src)
            known = _report(rec, kind, dict(wit0, step=i, op=op, got=got, eof=eof, detail=detail), key)
            if not known or fatal:
                stop = True
        if stop:
            return False
    return True


# ------------------------------------------------------------------ ASGI side

async def _a_do(s, op, slot):
    k = op[0]
    if k == 'read':
        return ('ok', await (s.read() if op[1] is None else s.read(op[1])))
    if k == 'readall':
        return ('ok', await s.readall())
    if k == 'iter':
        out = slot[1] = []
        async for chunk in s:
            out.append(chunk)
            if len(out) > ITER_CAP:
                return ('runaway', out[:3])
        return ('ok', out)
    if k == 'anext':
        # one step of an iterator that stays alive between operations (`async for` whose body does other things)
        c = CTX[0]
        if c.it is None:
            c.it = s.__aiter__()
        try:
            return ('ok', await c.it.__anext__())
        except StopAsyncIteration:
            return ('stop',)
        except BaseException:
            c.it = None             # refused or interrupted: that iterator object is finished
            raise
    if k == 'iterk':
        # iteration abandoned after at most op[1] chunks; op[2]: what the application does next
        #   'break'   leaves the `async for` with break (the generator stays suspended until it is finalized)
        #   'none'    closes the iterator explicitly (aclose) and does nothing else
        #   'exhaust' / 'close'  aclose, then stream.exhaust() / stream.close() (the documented clean-up)
        out, ended = [], False
        slot[1] = (out, False, 'iterating')
        if op[2] == 'break':
            if op[1] > 0:
                ended = True
                async for chunk in s:
                    out.append(chunk)
                    if len(out) >= op[1]:
                        ended = False
                        break
        else:
            it = s.__aiter__()
            for _ in range(op[1]):
                try:
                    out.append(await it.__anext__())
                except StopAsyncIteration:
                    ended = True
                    break
            await it.aclose()
        slot[1] = (list(out), ended, 'clean-up')
        if op[2] == 'exhaust':
            await s.exhaust()
        elif op[2] == 'close':
            s.close()
        return ('ok', (out, ended))
    if k == 'exhaust':
        await s.exhaust()
        return ('ok', None)
    if k == 'close':
        s.close()
        return ('ok', None)
    raise ValueError(op)


async def a_apply(s, op, slot):
    c = CTX[0]
    try:
        if c.fault is not None and c.fault[1] == 'cancel':
            # the application bounds every operation with a timeout (virtual time): an operation parked in
            # receive() is cancelled there (CancelledError thrown at the await) and the app sees TimeoutError
            return await asyncio.wait_for(_a_do(s, op, slot), 10)
        return await _a_do(s, op, slot)
    except Exception as ex:  # noqa
        return _exc(ex)


async def faulting_asgi_app(scope, receive, send):
    """The real app behind a receive() that counts what the stream is given and injects one fault."""
    c = CTX[0]
    state = {'first': True, 'fired': False}

    async def recv():
        if state['first']:
            state['first'] = False
            return await receive()              # falcon.asgi.App takes the first event itself
        c.recv_calls += 1
        if c.fault is not None and not state['fired'] and c.recv_calls == c.fault[0]:
            state['fired'] = True
            c.fault_step = c.step
            if c.fault[1] == 'raise':
                raise ReceiveFault('receive() failed')
            await asyncio.get_running_loop().create_future()      # nothing arrives: parked until cancelled
        ev = await receive()
        c.deliv.append((c.step, len(ev.get('body', b'')) if ev.get('type') == 'http.request' else 0))
        return ev

    await asgi_app()(scope, recv, send)


def _obs(s):
    out = []
    for name in ('eof', 'tell'):
        try:
            v = getattr(s, name)
            out.append(v() if name == 'tell' else v)
        except Exception as ex:  # noqa
            out.append('raised ' + repr(ex)[:80])
    return tuple(out)


class AsgiResource:
    async def on_post(self, req, resp):
        c = CTX[0]
        if peeks_content_length(c.hist):
            _peek_content_length(req)
        for i, op in enumerate(c.hist):
            s = req.stream if i % 2 == 0 else req.bounded_stream     # one object, looked up again every time
            slot = ['started', None]                                  # operation started (+ partial progress)
            c.step = i
            c.log.append(slot)
            r = await a_apply(s, op, slot)
            c.log[-1] = (r, _obs(s), slot[1])
            if r[0] == 'exc' and r[1].startswith('TimeoutError') and c.fault_step != i:
                c.gave_up = True        # a real park on receive() ran into the application's timeout: it gives up
                break
        resp.data = b'ok'


def legal_asgi(hist):
    """read()/readall()/a second iteration are never issued while the stepped iterator is in progress: once
    anything but anext/exhaust/close follows an ('anext',), that iterator counts as abandoned and is not resumed."""
    live = abandoned = False
    for op in hist:
        if op[0] == 'anext':
            if abandoned:
                return False
            live = True
        elif live and op[0] not in ('exhaust', 'close'):
            abandoned = True
    return True


def _final_event_body(events):
    """Body of the final http.request event when it is the last event of the script and not the first one."""
    for idx, e in enumerate(events):
        if e.get('type') != 'http.request':
            return None
        if not e.get('more_body', False):
            return e.get('body', b'') if idx == len(events) - 1 and idx >= 1 else None
    return None


def _abandoned_on_final_event(m, events, cl, out, ended):
    """Classifier for K_ABANDON (evaluated after the model took the chunks of an abandoned iteration): the last
    chunk the iterator handed out is the whole body of the final http.request event (an event it received itself,
    not the first event and not a buffered remainder, which is always shorter), the stream now stands at the end of
    everything the server sent without having reached Content-Length, and nothing follows in the script.  The
    iterator was left suspended at that yield, so the falsy more_body of the event was never recorded; the next
    operation that needs data awaits receive()."""
    fb = _final_event_body(events)
    return bool(not ended and out and fb and out[-1] == fb and m.cur.pos == len(m.wire) and
                (cl is None or len(m.wire) < cl))


def _asgi_wit(cfg, hist):
    events, clh, cl, tag = cfg[:4]
    return {'stack': 'asgi', 'events': [dict(e) for e in events], 'content_length': clh, 'script': tag,
            'fault': cfg[4] if len(cfg) > 4 else None, 'history': list(hist)}


def asgi_case(rec, cfg, hist):
    return guarded(rec, lambda: _asgi_case(rec, cfg, hist),
                   lambda: dict(_asgi_wit(cfg, hist), detail='case does not terminate'))


def _asgi_case(rec, cfg, hist):
    events, clh, cl, tag = cfg[:4]
    fault = cfg[4] if len(cfg) > 4 else None
    hist = list(hist) + [('read', None)]
    scope = A.make_scope('POST', '/c07', headers=[('content-length', clh)] if clh is not None else [])
    ctx = CTX[0] = Ctx(hist, fault=fault)
    res = A.run_asgi_http(faulting_asgi_app, scope, events=events, max_steps=20000)
    wit0 = dict(_asgi_wit(cfg, hist), reads_content_length_first=peeks_content_length(hist))
    wire, ended = asgi_wire(events)
    # ---- classes
    rec.count('class.asgi.cl.' + ('absent' if cl is None else 'exact' if cl == len(wire) else
                                  'short' if cl < len(wire) else 'long'))
    rec.count('class.asgi.ended_by.' + ended)
    if cl is not None and cl < len(wire):
        pos = 0
        for e in events:
            if e.get('type') != 'http.request':
                break
            n = len(e.get('body', b''))
            if pos < cl < pos + n:
                rec.count('class.asgi.oversized_chunk_crossing_content_length')
                break
            pos += n
    if events[-1].get('type') == 'http.request':
        rec.count('class.asgi.armed_for_blocking')      # one receive() too many would park the app
    for e in events:
        if e.get('type') == 'http.request':
            if 'body' not in e:
                rec.count('class.asgi.event_without_body')
            elif not e['body']:
                rec.count('class.asgi.event_empty_chunk')
            if 'more_body' not in e:
                rec.count('class.asgi.event_without_more_body')
    # ---- liveness
    rec.count('mon.asgi.liveness')
    done = [e for e in ctx.log if isinstance(e, tuple)]
    if isinstance(res.exc, Runaway):
        # the alarm went off inside the coroutine (asyncio stores BaseExceptions in the task): hand it to guarded(),
        # which runs the case once more under the longer CPU budget before calling it a runaway
        raise Runaway()
    parked = res.outcome in ('blocked', 'steps') and len(done) < len(hist)
    if not parked and (res.outcome != 'done' or res.status != 200 or res.problems or
                       (len(done) != len(hist) and not ctx.gave_up)):
        rec.violation('app-failed', dict(wit0, status=res.status, outcome=res.outcome, exc=repr(res.exc),
                                         problems=res.problems[:3], steps_done=len(done)))
        return False
    def judge(drop_hypothesis, cnt, state):
        """One pass over the log.  drop_hypothesis=False is the oracle.  True re-reads the same log assuming the
        recorded mechanism K_INTR (an interrupted read()/readall() forgets the bytes it had already taken), so that
        what follows can still be judged and attributed; it is only consulted when the oracle pass has failed."""
        reports = []

        def emit(kind, wit, key):
            reports.append((kind, wit, key))
            return key is not None and key in rec.known_keys

        ok = judge_steps(drop_hypothesis, cnt, state, emit)
        return ok, reports

    def judge_steps(drop_hypothesis, cnt, state, emit):
        m = BodyModel(wire, cl)
        first = events[0].get('body', b'')
        off0 = len(first if cl is None else first[:cl])
        tell_off = 0
        tell_ok = True
        closed = False
        eof_seen = False        # eof was observed True after an earlier operation (also on a closed stream)
        abandoned = False       # an iteration was left before it finished: a new iteration may be refused
        armed = False           # ... and it was left right after the final event's body (classifier of K_ABANDON)
        armed_live = False      # the stepped iterator is suspended right after the final event's body
        recv_bytes = len(first)  # body bytes the server has handed over so far
        if fault is not None:
            cnt('class.asgi.fault.' + fault[1])

        def report_parked(i, outcome, prog=None):
            op = hist[i]
            arm = armed or armed_live
            if op[0] == 'iterk' and op[2] == 'exhaust' and isinstance(prog, tuple):
                # parked in the exhaust() that follows the abandoned iteration: judge the chunks it handed out first
                out, ended_it = prog[:2]
                for kind, fatal, detail in m.take(b''.join(out), None, empty_ok=True):
                    emit(kind, dict(wit0, step=i, op=op, got=out, detail=detail), None)
                    return False
                arm = arm or _abandoned_on_final_event(m, events, cl, out, ended_it)
            key = K_ABANDON if (arm and outcome == 'blocked' and not closed) else None
            emit('blocked-on-receive-with-nothing-more-to-come',
                 dict(wit0, step=i, op=op, outcome=outcome, receive_calls=res.receive_calls,
                      receive_after_script=res.receive_after_script), key)
            return False

        for i, (op, (r, (eof, tell), prog)) in enumerate(zip(hist, done)):
            findings = []          # (kind, fatal, detail, key)
            k = op[0]
            cnt('mon.asgi.op.' + k)
            ret_before = m.returned
            got = None
            reported_end = False
            got_bytes = sum(n for st, n in ctx.deliv if st == i)
            buffered_before = 0 if m.discarded else max(min(recv_bytes, m.total) - m.cur.pos, 0)
            recv_bytes += got_bytes
            interrupted = (r[0] == 'exc' and ctx.fault_step == i and
                           r[1].startswith(('ReceiveFault', 'TimeoutError', 'CancelledError')))
            if interrupted:
                # the await on receive() inside this operation was interrupted; nothing (more) was returned by it
                got = r[1]
                cnt('fault.asgi.interrupted.' + k)
                if k in ('read', 'readall'):
                    unsized = k == 'readall' or op[1] is None or op[1] == -1
                    if got_bytes + (buffered_before if unsized else 0) > 0:
                        # bytes were already moved into the operation's local chunk list (recorded finding K_INTR)
                        state['intr_lost'] = True
                        cnt('fault.asgi.interrupted_with_bytes_in_flight')
                        if drop_hypothesis:
                            # what the recorded mechanism does: those bytes are gone, the stream goes on behind them
                            hi = min(recv_bytes, m.total)
                            lo = m.cur.pos if unsized else min(recv_bytes - got_bytes, m.total)
                            if hi > lo:
                                nm = BodyModel(m.wire[:lo] + m.wire[hi:], None if m.limit is None else m.limit - (hi - lo))
                                nm.cur.pos, nm.returned = m.cur.pos, m.returned
                                m = nm
                                recv_bytes -= hi - lo
                    else:
                        cnt('fault.asgi.interrupted_before_anything_was_taken')
                elif k in ('iter', 'iterk', 'anext'):
                    out = prog[0] if isinstance(prog, tuple) else (prog or [])
                    findings += [f + (None,) for f in m.take(b''.join(out), None, empty_ok=True)]
                    if k == 'anext':
                        armed_live = False      # the stepped iterator itself is finished by the exception
                    if isinstance(prog, tuple) and prog[2] == 'clean-up':
                        # the iteration part was over; the exhaust() that followed it was interrupted
                        abandoned = abandoned or bool(out and not prog[1])
                        if not findings:
                            armed = armed or _abandoned_on_final_event(m, events, cl, out, prog[1])
                        m.cur.pos = max(m.cur.pos, min(recv_bytes, m.total))
                        m.discarded = True
                    else:
                        abandoned = True        # the generator is finished by the exception
                elif k == 'exhaust':
                    # what had been handed over was discarded; the stream continues behind it
                    m.cur.pos = max(m.cur.pos, min(recv_bytes, m.total))
                    m.discarded = True
            elif r[0] == 'exc' and fault is not None and fault[1] == 'cancel' and r[1].startswith('TimeoutError') \
                    and not closed:
                # under the application's timeout a park on receive() surfaces as TimeoutError: same as 'blocked'
                return report_parked(i, 'blocked', prog)
            elif r[0] == 'exc':
                got = r[1]
                if closed:
                    cnt('asgi.raised_after_close')
                elif (abandoned or ctx.it is not None) and k in ('iter', 'iterk', 'anext') and \
                        r[1].startswith('OperationNotAllowed'):
                    cnt('asgi.iteration_refused_after_abandoned_iteration')
                else:
                    findings.append(('operation-raised', True, r[1], None))
            elif r[0] == 'runaway':
                findings.append(('iteration-does-not-terminate', True, r[1], None))
            elif r[0] == 'stop':
                got = 'StopAsyncIteration'
                cnt('branch.asgi.anext_stop')
                armed_live = False
                if not closed:
                    fs = m.end_reported()
                    findings += [f + (None,) for f in fs]
                    reported_end = not fs
            else:
                got = r[1]
                if k in ('read', 'readall'):
                    size = op[1] if k == 'read' else None
                    unsized = size is None or size == -1
                    before = m.cur.pos
                    fs = m.take(got, None if unsized else size, to_end=unsized)
                    for kind, fatal, detail in fs:
                        key = None
                        if kind == 'sized-read-exceeds-size' and cl is not None and len(wire) > cl and m.cur.pos == cl \
                                and before < cl:
                            key = K_OVERSIZE     # the chunk crossing Content-Length is returned whole-to-the-limit
                        findings.append((kind, fatal, detail, key))
                    reported_end = unsized and not fs
                    if not unsized and size > 0 and len(got) < min(size, m.total - before):
                        cnt('asgi.short_sized_read')
                elif k == 'iter':
                    fs = m.take(b''.join(got), None, to_end=True)
                    findings += [f + (None,) for f in fs]
                    reported_end = not fs
                    cnt('asgi.iter_chunks', len(got))
                elif k == 'anext':
                    fs = m.take(got, None)
                    findings += [f + (None,) for f in fs]
                    armed_live = not fs and _abandoned_on_final_event(m, events, cl, [got], False)
                    if i > 0 and hist[i - 1][0] in ('exhaust', 'close'):
                        cnt('branch.asgi.iterator_resumed_after_exhaust_or_close')
                elif k == 'iterk':
                    out, ended_it = got
                    fs = m.take(b''.join(out), None, empty_ok=True)
                    if ended_it and not fs:
                        fs = m.end_reported()
                    findings += [f + (None,) for f in fs]
                    if op[2] == 'exhaust':
                        m.discard_rest()
                        reported_end = True
                    elif op[2] == 'close':
                        closed = True
                    else:
                        reported_end = ended_it and not fs
                        if out and not ended_it:
                            abandoned = True
                            cnt('branch.asgi.iteration_abandoned')
                            if m.cur.pos > sum(len(x) for x in out):
                                cnt('branch.asgi.iteration_abandoned_after_reads')
                            armed = armed or _abandoned_on_final_event(m, events, cl, out, ended_it)
                elif k == 'exhaust':
                    m.discard_rest()
                    reported_end = True
                elif k == 'close':
                    closed = True
            if r[0] == 'stop' and i > 0 and hist[i - 1][0] in ('exhaust', 'close'):
                cnt('branch.asgi.iterator_resumed_after_exhaust_or_close')
            if closed:
                findings = [f for f in findings if f[0] not in LOSS_KINDS]
            fatal_data = any(f[1] for f in findings)
            if not closed and not fatal_data:
                cnt('mon.asgi.eof')
                if eof is True:
                    if not m.at_end():
                        findings.append(('eof-true-before-whole-body', True, '%d bytes not delivered' % len(m.rest()), None))
                    else:
                        cnt('branch.asgi.eof_true_at_end')
                elif eof is False:
                    if reported_end:
                        findings.append(('eof-false-after-end-of-stream-reported', False, 'after %s' % k, None))
                    elif m.limit_reached():
                        findings.append(('eof-false-after-content-length-consumed', False, 'consumed %d' % m.cur.pos, None))
                    else:
                        cnt('branch.asgi.eof_false')
                else:
                    findings.append(('eof-raised', False, eof, None))
            if not fatal_data and tell_ok:
                cnt('mon.asgi.tell')
                if not isinstance(tell, int):
                    findings.append(('tell-raised', False, tell, None))
                    tell_ok = False
                elif not m.discarded:
                    if tell == m.returned + tell_off:
                        pass
                    elif tell_off == 0 and off0 > 0 and tell == m.returned + off0:
                        tell_off = off0
                        findings.append(('tell-disagrees-with-bytes-returned', False,
                                         'tell %d returned %d first chunk %d' % (tell, m.returned, off0), K_TELL))
                    else:
                        findings.append(('tell-disagrees-with-bytes-returned', False,
                                         'tell %d returned %d' % (tell, m.returned), None))
                        tell_ok = False
                else:
                    # after exhaust(): somewhere between what was returned and the whole expected body
                    lo, hi = m.returned, m.total
                    if lo <= tell - tell_off <= hi:
                        cnt('branch.asgi.tell_after_exhaust')
                    elif tell_off == 0 and off0 > 0 and lo <= tell - off0 <= hi:
                        tell_off = off0
                        findings.append(('tell-out-of-range-after-exhaust', False,
                                         'tell %d not in [%d, %d] first chunk %d' % (tell, lo, hi, off0), K_TELL))
                    else:
                        key = None
                        if cl is not None and len(wire) > cl and tell - tell_off > hi and tell - off0 <= len(wire):
                            key = K_EXH          # exhaust() counts the whole oversized chunk
                        findings.append(('tell-out-of-range-after-exhaust', False,
                                         'tell %d not in [%d, %d]' % (tell, lo + tell_off, hi + tell_off), key))
                        tell_ok = False
            if eof_seen:
                cnt('mon.asgi.eof_is_final')
                if closed:
                    cnt('mon.asgi.eof_is_final_on_closed_stream')
                if m.returned > ret_before:
                    findings.append(('bytes-handed-out-after-eof-was-reported', True,
                                     '%d bytes after eof had been True' % (m.returned - ret_before), None))
            eof_seen = eof_seen or eof is True
            if m.at_end() and i < len(hist) - 1:
                cnt('branch.asgi.op_after_end')
            stop = False
            for kind, fatal, detail, key in findings:
                known = emit(kind, dict(wit0, step=i, op=op, got=got, eof=eof, tell=tell, detail=detail), key)
                if not known or fatal:
                    stop = True
            if stop:
                return False
        if parked:
            # the application is parked on receive() although the script has nothing more to deliver
            i = len(done)
            slot = ctx.log[i] if i < len(ctx.log) else None
            return report_parked(i, res.outcome, slot[1] if isinstance(slot, list) else None)
        return True

    st_a = {'intr_lost': False}
    ok, reports = judge(False, rec.count, st_a)
    if reports and st_a['intr_lost'] and any(key is None or key not in rec.known_keys for _, _, key in reports):
        first_bad = next(r for r in reports if r[2] is None or r[2] not in rec.known_keys)
        if first_bad[0] in LOSS_KINDS or first_bad[0] in ('returned-bytes-not-next-in-body',
                                                           'blocked-on-receive-with-nothing-more-to-come'):
            ok_b, reports_b = judge(True, lambda *a: None, {'intr_lost': False})
            keep = reports[:reports.index(first_bad)]
            reports = keep + [(first_bad[0], dict(first_bad[1], explained_by='bytes taken by the interrupted read '
                                                  'are gone; the rest of the history was judged on that basis'),
                               K_INTR)] + [r for r in reports_b if r not in keep]
            ok = ok_b
    for kind, wit, key in reports:
        rec.violation(kind, wit, known_key=key)
    return ok and not reports


# ------------------------------------------------------------------ generators

def compositions(n, with_empty):
    if n == 0:
        return [(), (0,)] if with_empty else [()]
    out = []
    for mask in range(1 << (n - 1)):
        parts, run = [], 1
        for b in range(n - 1):
            if mask >> b & 1:
                parts.append(run)
                run = 1
            else:
                run += 1
        parts.append(run)
        out.append(tuple(parts))
    if with_empty:
        extra = []
        for c in out[:3]:
            for i in range(len(c) + 1):
                extra.append(c[:i] + (0,) + c[i:])
        out.extend(extra)
    return out


W_OPS = [('read', None), ('read', -1), ('read', 0), ('read', 1), ('read', 2), ('read', 100),
         ('readline', None), ('readline', -1), ('readline', 2), ('readlines', None), ('readlines', 2),
         ('next',), ('iter',), ('exhaust', None), ('exhaust', -1), ('close',)]
W_OPS_TRIPLES = [('read', None), ('read', 0), ('read', 1), ('read', 2), ('readline', None), ('readline', 2),
                 ('readlines', 2), ('next',), ('iter',), ('exhaust', None), ('close',)]
W_OPS_SMALL = [('read', None), ('read', 1), ('read', 2), ('readline', None), ('readline', 1), ('readlines', 3),
               ('next',), ('exhaust', 1)]
W_BODIES = [b'', b'a', b'ab\n', b'a\nb\nc', b'\n\nxy', b'abcdefg\n']
W_TRAILING = b'XY\nZ'

A_OPS = [('read', None), ('read', -1), ('read', 0), ('read', 1), ('read', 2), ('read', 100), ('readall',),
         ('iter',), ('iterk', 1, 'exhaust'), ('iterk', 1, 'close'), ('iterk', 1, 'none'), ('iterk', 1, 'break'),
         ('anext',), ('exhaust',), ('close',)]
A_OPS_PAIRS = [('read', None), ('read', 1), ('read', 2), ('read', 100), ('iter',), ('iterk', 1, 'none'), ('anext',),
               ('exhaust',), ('close',)]
A_OPS_TRIPLES = [('read', None), ('read', 1), ('read', 2), ('read', 100), ('iter',), ('iterk', 1, 'none'), ('anext',),
                 ('exhaust',), ('close',)]
A_OPS_SMALL = [('read', 1), ('read', 2), ('read', 3), ('readall',), ('iter',), ('exhaust',), ('iterk', 2, 'exhaust'),
               ('iterk', 1, 'break'), ('anext',)]
# operations whose await on receive() gets interrupted (fault part), and what the application does afterwards
A_OPS_FAULT = [('read', 1), ('read', 2), ('read', 100), ('read', None), ('readall',), ('iter',), ('anext',),
               ('exhaust',), ('iterk', 1, 'none')]
# something else is done while the stepped iterator is suspended, then the same iterator is resumed
A_SUSPENDED = [pre + (('anext',),) * a + (x, ('anext',)) + post
               for pre in ((), (('read', 1),)) for a in (1, 2) for x in (('exhaust',), ('close',))
               for post in ((), (('anext',),))]
A_BODIES = [b'', b'a', b'ab\n', b'abcde']


def wsgi_configs(body, shorts):
    n = len(body)
    classes = [('absent', None, 0), ('empty-header', '', 0), ('exact', str(n), n), ('long', str(n + 2), n + 2)]
    if n >= 1:
        classes.append(('short', str(n - 1), n - 1))
        classes.append(('zero', '0', 0))
    if n >= 3:
        classes.append(('short', '1', 1))
    # a value that declares no usable length (negative, not a number): no byte of the server stream belongs to
    # this request's body
    classes += [('invalid', '-1', 0), ('invalid', 'abc', 0)]
    if n == 3:
        classes.append(('invalid', '-%d' % n, 0))
    for clclass, clh, limit in classes:
        for short in shorts:
            # a body shorter than the declared length: the client stopped sending, the server reports EOF
            trailing = b'' if clclass == 'long' else W_TRAILING
            yield (body, clh, limit, trailing, short, clclass)


def ev(body=None, more=None):
    e = {'type': 'http.request'}
    if body is not None:
        e['body'] = body
    if more is not None:
        e['more_body'] = more
    return e


DISC = {'type': 'http.disconnect'}


def scripts_for(body, chunking):
    """Event scripts for one chunking of one body: every way the server may end / cut the body."""
    chunks, pos = [], 0
    for n in chunking:
        chunks.append(body[pos:pos + n])
        pos += n
    if pos < len(body):
        chunks.append(body[pos:])
    if not chunks:
        chunks = [b'']

    def base(omit_empty_body):
        return [ev(None if (omit_empty_body and not c) else c, True) for c in chunks]

    out = []
    e = base(False)
    e[-1]['more_body'] = False
    out.append(('final-false', e))
    e = base(True)
    del e[-1]['more_body']
    out.append(('final-without-more_body', e))
    out.append(('bare-final-event', base(False) + [ev()]))
    out.append(('empty-final-then-disconnect', base(True) + [ev(b'', False), dict(DISC)]))
    out.append(('disconnect-at-end', base(False) + [dict(DISC)]))
    b = base(False)
    for k in range(1, len(b)):
        out.append(('disconnect-at-%d' % k, b[:k] + [dict(DISC)]))
    if len(b) > 1:
        e = base(False)
        del e[0]['more_body']
        out.append(('early-final-then-stray-events', e))
    out.append(('open-after-content-length', base(False)))
    return out


def asgi_cl_classes(n, open_script):
    out = [('exact', str(n), n)]
    if n >= 1:
        out.append(('short', str(n - 1), n - 1))
        out.append(('zero', '0', 0))
    if n >= 3:
        out.append(('short', '1', 1))
    if not open_script:
        out += [('absent', None, None), ('long', str(n + 2), n + 2), ('empty-header', '', None)]
    return out


def asgi_configs(body, chunkings):
    for chunking in chunkings:
        for tag, events in scripts_for(body, chunking):
            wire, ended = asgi_wire(events)
            for clclass, clh, cl in asgi_cl_classes(len(wire), ended == 'open'):
                if clclass == 'empty-header' and tag != 'final-false':
                    continue        # reads like 'absent'; kept on one script ending per chunking
                yield (events, clh, cl, tag)


def histories(ops, maxlen):
    for L in range(0, maxlen + 1):
        for h in itertools.product(ops, repeat=L):
            yield h


# ---- random phase

def rand_size(rng, n):
    return rng.choice([None, -1, 0, 1, 1, 2, 3, 5, 8, n, n + 1, max(n - 1, 0), 1000, rng.randint(0, n + 2)])


def rand_body(rng):
    n = rng.choice([rng.randint(0, 6), rng.randint(0, 40), rng.randint(0, 40), rng.randint(30, 300)])
    alpha = rng.choice([b'ab\n', b'ab\n\r', b'a\n\n', bytes(range(256)), b'xyz'])
    return bytes(rng.choice(alpha) for _ in range(n))


def rand_cl(rng, n):
    r = rng.random()
    if r < 0.15:
        return 'absent', None, None
    if r < 0.2:
        return 'empty-header', '', None
    if r < 0.45:
        v, c = n, 'exact'
    elif r < 0.7:
        v, c = rng.randint(0, n), 'short'
    elif r < 0.85:
        v, c = n + rng.randint(1, 5), 'long'
    else:
        v, c = rng.randint(0, n + 3), 'any'
    c = 'exact' if v == n else 'short' if v < n else 'long'
    if v == 0 and n > 0:
        c = 'zero'
    return c, ('%d' if rng.random() < 0.9 else '0%d') % v, v


def random_wsgi(rng):
    body = rand_body(rng)
    n = len(body)
    clclass, clh, cl = rand_cl(rng, n)
    limit = 0 if cl is None else cl
    if clclass == 'long':
        trailing = b''
    else:
        trailing = rng.choice([b'', W_TRAILING, b'\n', b'GET / HTTP/1.1\r\n\r\n', b'zz'])
    if rng.random() < 0.06:
        clclass, clh, limit = 'invalid', rng.choice(['-1', '-7', '-%d' % max(n, 1), 'abc', '1e2', '0x10', '1-', '--1']), 0
        trailing = rng.choice([W_TRAILING, b'GET / HTTP/1.1\r\n\r\n'])
    short = rng.choice([None, None, None, 1, 2, 3, 7])
    ops = []
    for _ in range(rng.randint(1, 12)):
        r = rng.random()
        if r < 0.35:
            ops.append(('read', rand_size(rng, n)))
        elif r < 0.55:
            ops.append(('readline', rand_size(rng, n)))
        elif r < 0.65:
            ops.append(('readlines', rng.choice([None, -1, 1, 2, 5, n, 1000])))
        elif r < 0.8:
            ops.append(('next',))
        elif r < 0.86:
            ops.append(('iter',))
        elif r < 0.93:
            ops.append(('exhaust', rng.choice([None, None, 1, 3, 64, -1])))
        elif r < 0.96:
            ops.append(('close',))
        else:
            ops.append(('read', rng.randint(1, 4)))
    return (body, clh, limit, trailing, short, clclass), tuple(ops)


def random_asgi(rng):
    body = rand_body(rng)
    n = len(body)
    chunks, pos = [], 0
    while pos < n:
        c = rng.choice([0, 1, 1, 2, 3, 5, 8, n, rng.randint(1, max(1, n))])
        chunks.append(body[pos:pos + c])
        pos += c
    if not chunks or rng.random() < 0.15:
        chunks.insert(rng.randint(0, len(chunks)), b'')
    events = []
    for c in chunks:
        events.append(ev(None if (not c and rng.random() < 0.5) else c, True))
    style = rng.random()
    if style < 0.3:
        events[-1]['more_body'] = False
        tag = 'final-false'
    elif style < 0.45:
        del events[-1]['more_body']
        tag = 'final-without-more_body'
    elif style < 0.6:
        events.append(ev(rng.choice([None, b'']), rng.choice([None, False])))
        tag = 'empty-final'
    elif style < 0.9:
        k = rng.randint(1, len(events))
        events = events[:k] + [dict(DISC)]
        tag = 'disconnect-at-%d' % k
    else:
        tag = 'open-after-content-length'
    if tag != 'open-after-content-length' and rng.random() < 0.4:
        events.append(dict(DISC))
    wire, ended = asgi_wire(events)
    w = len(wire)
    if ended == 'open':
        cl = rng.choice([w, w, max(w - 1, 0), rng.randint(0, w)])
        clh = str(cl)
    else:
        clclass, clh, cl = rand_cl(rng, w)
    ops = []
    for _ in range(rng.randint(1, 12)):
        r = rng.random()
        if r < 0.55:
            ops.append(('read', rand_size(rng, n)))
        elif r < 0.65:
            ops.append(('readall',))
        elif r < 0.78:
            ops.append(('iter',))
        elif r < 0.86:
            ops.append(('iterk', rng.randint(0, 3), rng.choice(['exhaust', 'close', 'none', 'none', 'break', 'break'])))
        elif r < 0.93:
            ops.append(('exhaust',))
        elif r < 0.97:
            ops.append(('anext',))
        else:
            ops.append(('close',))
    if rng.random() < 0.3:
        # a stretch of stepped iteration with clean-up calls in between
        at = rng.randint(0, len(ops))
        ops[at:at] = [rng.choice([('anext',), ('anext',), ('exhaust',), ('close',)]) for _ in range(rng.randint(2, 5))]
    while not legal_asgi(ops):
        live = False
        for j, op in enumerate(ops):
            if op[0] == 'anext':
                live = True
            elif live and op[0] not in ('exhaust', 'close'):
                ops[j:] = [o for o in ops[j:] if o[0] != 'anext']
                break
    fault = None
    if rng.random() < 0.35:
        fault = (rng.randint(1, 4), rng.choice(['raise', 'cancel']))
    return (events, clh, cl, tag, fault), tuple(ops)


# ------------------------------------------------------------------ run

def nontrivial(hist):
    return len(hist) >= 2


def run(rec):
    rec.rule = ('WSGI: bodies x Content-Length class (absent, empty, 0, exact, short, long, negative / not a number) x server read style '
                '(blocking, short reads) x every history up to length H over 16 operation shapes on req.bounded_stream, '
                'pipelined bytes after the body; ASGI: bodies x every chunking (incl. empty chunks, missing body/more_body '
                'keys) x every way to end or cut the script (final event shapes, http.disconnect at every position, '
                'nothing after Content-Length) x Content-Length class x every history up to length H over 14 operation '
                'shapes on req.stream (incl. sized read -> iteration abandoned after k chunks by break/aclose -> read); each history is followed by a final read(); then random bodies to '
                '300 bytes / histories to 12 operations. non-trivial = history of >= 2 operations (plus the final read); '
                'distinct by (stack, configuration, history)')
    rec.assumptions = ['oracle vlib/models/c07_stream.py (flat cursor over wire[:Content-Length])',
                       'ASGI: read() and iteration are never used while the other is in progress; an `async for` that was '
                       'left with break / an iterator that was closed is over, so reads may follow it (and a sized read may '
                       'precede an iteration); a new iteration after an abandoned one may be refused with OperationNotAllowed',
                       'a PEP 3333 server normally blocks until n bytes or EOF; servers returning short reads are a '
                       'separately reported class',
                       'fault model: one await on receive() fails with an exception or is cancelled by the application\'s '
                       'timeout while parked; the event it waited for is delivered to the next receive(); afterwards the '
                       'application keeps using the stream. An interrupted read returned nothing; an interrupted exhaust '
                       'discarded what had been handed over',
                       'the stepped iterator (anext) is only interleaved with exhaust()/close()/anext; any other operation '
                       'abandons it',
                       'WSGI: a Content-Length that is negative or not a number declares no usable length: nothing of the server stream '
                       'belongs to the body (the stream is empty, or the request is refused with 400); not judged on ASGI',
                       'sizes < -1 are outside the statement; -1/None are the \'everything that is left\' convention, also for '
                       'exhaust(chunk_size)',
                       'after close() only the no-over-read and server-side monitors apply',
                       'one request = one environ/scope: rewriting req.env (wsgi.input, CONTENT_LENGTH) after the Request '
                       'object exists is outside the statement (falcon snapshots req.stream and content_type at '
                       'construction and caches header-derived attributes); in every second case the application reads '
                       'req.content_length before touching the stream']
    quick = rec.tier == 'quick'
    idx = 0
    # ---------------- WSGI bounded-exhaustive (sized by counts: ~80k cases quick, ~0.6M thorough)
    HW = 2
    shorts = (None, 1) if quick else (None, 1, 2)
    w_hists = list(histories(W_OPS, HW))
    if not quick:
        w_hists += list(itertools.product(W_OPS_TRIPLES, repeat=3))
    w_small = list(itertools.product(W_OPS_SMALL, repeat=3 if quick else 4))
    for body in W_BODIES:
        for wi, cfg in enumerate(wsgi_configs(body, shorts)):
            for h in w_hists:
                idx += 1
                if idx % rec.nshards != rec.shard:
                    continue
                wsgi_case(rec, cfg, h)
                rec.case(('w', cfg, h) if nontrivial(h) else None)
            if wi % 2 == 0:
                for h in w_small:
                    idx += 1
                    if idx % rec.nshards != rec.shard:
                        continue
                    wsgi_case(rec, cfg, h)
                    rec.case(('w', cfg, h))
    # ---------------- ASGI bounded-exhaustive
    HA = 2 if quick else 3
    fault_hists = [h for L in (1, 2) for h in itertools.product(A_OPS_FAULT, repeat=L) if legal_asgi(h)]
    fault_js = (1, 2) if quick else (1, 2, 3)
    for body in A_BODIES:
        comps = compositions(len(body), with_empty=True)
        if len(body) >= 5:
            comps = comps[::3] if quick else comps[::2]
        hs = [()] + [(o,) for o in A_OPS]
        hs += list(itertools.product(A_OPS_PAIRS if quick else A_OPS, repeat=2))
        hs = [h for h in hs if legal_asgi(h)] + A_SUSPENDED
        triples = [] if quick else [h for h in itertools.product(A_OPS_TRIPLES, repeat=3) if legal_asgi(h)]
        small_hists = [h for h in itertools.product(A_OPS_SMALL, repeat=HA + 1) if legal_asgi(h)]
        fi = 0
        singles = [h for h in hs if len(h) <= 1] + A_SUSPENDED
        for ci, cfg in enumerate(asgi_configs(body, comps)):
            for h in (singles if (quick and len(body) >= 5 and ci % 2) else hs):
                idx += 1
                if idx % rec.nshards != rec.shard:
                    continue
                asgi_case(rec, cfg, h)
                rec.case(('a', cfg, h) if nontrivial(h) else None)
            if triples and ci % 2 == 0:
                for h in triples:
                    idx += 1
                    if idx % rec.nshards != rec.shard:
                        continue
                    asgi_case(rec, cfg, h)
                    rec.case(('a', cfg, h))
            if ci % (32 if quick else 48) == 0:
                for h in small_hists:
                    idx += 1
                    if idx % rec.nshards != rec.shard:
                        continue
                    asgi_case(rec, cfg, h)
                    rec.case(('a', cfg, h))
            # fault part: the j-th receive() awaited by the stream fails (every script with >= 3 events; quick: every
            # fifth) or is cancelled while parked (every fourth of those), then the application carries on
            if len(cfg[0]) >= 3:
                fi += 1
                if quick and fi % 5:
                    continue
                modes = ('raise', 'cancel') if fi % (20 if quick else 4) == 0 else ('raise',)
                for mode in modes:
                    for j in fault_js:
                        fcfg = cfg + ((j, mode),)
                        for h in fault_hists:
                            idx += 1
                            if idx % rec.nshards != rec.shard:
                                continue
                            asgi_case(rec, fcfg, h)
                            rec.case(('a', fcfg, h))
    rec.exhaustive = True
    if rec.shard == 0:
        rec.note('exhaustive within bounds: WSGI %d bodies x Content-Length classes x server styles %r: histories <= 2 over %d '
                 'op shapes%s, length %d over %d shapes%s; ASGI %d bodies, all chunkings (every %s for the 5-byte body) x all '
                 'script endings x Content-Length classes: single operations over %d shapes, pairs over %d shapes%s, '
                 'length %d over %d shapes on every %dth script, %d histories with an operation issued while the stepped '
                 'iterator is suspended; fault part: receive() number j in %r interrupted (raise; cancel on a subset) x '
                 'histories <= 2 over %d shapes on scripts with >= 3 events'
                 % (len(W_BODIES), shorts, len(W_OPS), '' if quick else ', triples over %d shapes' % len(W_OPS_TRIPLES),
                    3 if quick else 4, len(W_OPS_SMALL), ' on every 2nd configuration', len(A_BODIES),
                    'third' if quick else 'second', len(A_OPS), len(A_OPS_PAIRS if quick else A_OPS),
                    '' if quick else ', triples over %d shapes on every 2nd script' % len(A_OPS_TRIPLES),
                    HA + 1, len(A_OPS_SMALL), 32 if quick else 48, len(A_SUSPENDED), fault_js, len(A_OPS_FAULT)))
    # ---------------- random
    rng = rec.rng
    k = 0
    t_rand = time.monotonic()
    rand_budget = max(rec.budget_s * 0.15, rec.time_left() * 0.9)     # a guaranteed share, whatever the machine load
    while k < 50 or time.monotonic() - t_rand < rand_budget:      # at least two batches, however loaded the machine is
        for _ in range(25):
            cfg, h = random_wsgi(rng)
            wsgi_case(rec, cfg, h)
            rec.case(('w', cfg, h) if nontrivial(h) else None)
            rec.count('random.wsgi')
            cfg2, h2 = random_asgi(rng)
            asgi_case(rec, cfg2, h2)
            rec.case(('a', cfg2, h2) if nontrivial(h2) else None)
            rec.count('random.asgi')
            k += 1
            if k <= 2:
                rec.sample(_wsgi_wit(cfg, h))
                rec.sample(_asgi_wit(cfg2, h2))
    # ---------------- floors
    for name, n in [('mon.wsgi.op.read', 2000), ('mon.wsgi.op.readline', 500), ('mon.wsgi.op.readlines', 300),
                    ('mon.wsgi.op.next', 300), ('mon.wsgi.op.iter', 100), ('mon.wsgi.op.exhaust', 100),
                    ('mon.wsgi.eof', 2000), ('mon.wsgi.server_call', 2000),
                    ('class.wsgi.cl.absent', 50), ('class.wsgi.cl.exact', 50), ('class.wsgi.cl.short', 50),
                    ('class.wsgi.cl.long', 50), ('class.wsgi.cl.invalid', 50), ('class.wsgi.short_read_server', 50),
                    ('class.wsgi.pipelined_bytes_after_body', 500),
                    ('mon.asgi.op.read', 2000), ('mon.asgi.op.readall', 200), ('mon.asgi.op.iter', 200),
                    ('mon.asgi.op.iterk', 100), ('branch.asgi.iteration_abandoned', 300),
                    ('branch.asgi.iteration_abandoned_after_reads', 100), ('mon.asgi.op.anext', 300),
                    ('branch.asgi.iterator_resumed_after_exhaust_or_close', 100),
                    ('class.asgi.fault.raise', 500), ('class.asgi.fault.cancel', 100),
                    ('fault.asgi.interrupted.read', 200), ('fault.asgi.interrupted.exhaust', 50),
                    ('fault.asgi.interrupted.iter', 20), ('fault.asgi.interrupted.anext', 20),
                    ('fault.asgi.interrupted_before_anything_was_taken', 50), ('mon.asgi.op.exhaust', 200), ('mon.asgi.liveness', 2000),
                    ('mon.asgi.eof', 2000), ('mon.asgi.tell', 2000), ('mon.asgi.eof_is_final', 2000),
                    ('mon.asgi.eof_is_final_on_closed_stream', 300), ('mon.wsgi.eof_is_final', 1000),
                    ('class.asgi.cl.absent', 50), ('class.asgi.cl.exact', 50), ('class.asgi.cl.short', 50),
                    ('class.asgi.cl.long', 50), ('class.asgi.ended_by.disconnect', 100),
                    ('class.asgi.ended_by.open', 50), ('class.asgi.armed_for_blocking', 500),
                    ('class.asgi.oversized_chunk_crossing_content_length', 50),
                    ('class.asgi.event_without_body', 50), ('class.asgi.event_without_more_body', 50),
                    ('class.asgi.event_empty_chunk', 50),
                    ('random.wsgi', 25), ('random.asgi', 25)]:
        rec.floor(name, n)


# ------------------------------------------------------------------ replay

def _decode(o):
    if isinstance(o, list):
        return tuple(_decode(x) for x in o)
    if isinstance(o, dict):
        return {k: _decode(v) for k, v in o.items()}
    if isinstance(o, str) and o.startswith('b:'):
        return o[2:].encode('ascii').decode('unicode_escape').encode('latin-1')
    return o


def replay(rec, w):
    wit = _decode(w['witness'])
    hist = [tuple(op) for op in wit['history']]
    if hist and hist[-1] == ('read', None):
        hist = hist[:-1]
    if wit['stack'] == 'wsgi':
        clh = wit['content_length']
        try:
            limit = max(int(clh), 0) if clh else 0
        except ValueError:
            limit = 0
        clclass = 'replay'
        if clh:
            try:
                if int(clh) < 0:
                    clclass = 'invalid'
            except ValueError:
                clclass = 'invalid'
        cfg = (wit['body'], clh, limit, wit['trailing'], wit['short'], clclass)
        ok = wsgi_case(rec, cfg, hist)
    else:
        clh = wit['content_length']
        fault = wit.get('fault')
        cfg = (list(wit['events']), clh, int(clh) if clh else None, wit.get('script', 'replay'),
               tuple(fault) if fault else None)
        ok = asgi_case(rec, cfg, hist)
    print('replay: case', 'passed' if ok else 'failed again')
    rec.case(('replay', 1))
    rec.case(('replay', 2))
