"""C09 - typed request-header accessors agree with the RFC reading or answer 400.  DESIGN.md section 4, C09.

Workload: abstract requests (request line parts + header list) are generated from the header ABNFs
and from mutations of valid values, turned into a PEP 3333 environ and an ASGI scope by the
framework drivers, and given to the REAL falcon.Request / falcon.asgi.Request (directly, and every
few cases through a real falcon.App / falcon.asgi.App behind the protocol drivers).

Monitors (oracle: vlib/models/c09_headers.py, strict RFC recognisers + evaluators):
  value     accessor == reference value whenever the reference says the header is grammar-valid
  free      on any other input: a value or an HTTPError with a 4xx status, never another exception
  repeat    second read of every accessor on the same object == first read
  fresh     same accessors read in another order on a new object, and memoised accessors read alone
            on a brand-new object == first read (cached value == fresh computation)
  casing    get_header() in three casings; sent header names in four casings
  e2e       the same reads inside a responder behind the real App: same snapshot, HTTPError -> 4xx
            response, value -> 200
  roundtrip resp.last_modified / expires / etag written through the response API of a real app and
            sent back as If-Modified-Since / If-Unmodified-Since / If-(None-)Match read back equal
"""

import datetime
import contextlib
import itertools
import operator
import os
import random
import re
import time
import traceback

import falcon
import falcon.asgi
from falcon.forwarded import Forwarded
from falcon.util.structures import ETag

from vlib.drivers import asgi as A
from vlib.drivers import wsgi as W
from vlib.models import c09_headers as M

LEVEL = 'exploration'
SHARDS = {'quick': 4, 'thorough': 16}
BUDGET = {'quick': 15, 'thorough': 150}

UTC = datetime.timezone.utc
STACKS = ('wsgi', 'asgi')

# process time zones the cases run under (the property does not depend on where the server runs): POSIX TZ
# strings need no tz database; the named ones use it when present.
TZS = ['UTC', 'JST-9', 'EST5EDT,M3.2.0,M11.1.0', 'NPT-5:45', 'Asia/Tokyo', 'America/New_York', 'Pacific/Chatham']


@contextlib.contextmanager
def process_tz(tz):
    """run a block with the process-local time zone set to tz (None: leave it alone)."""
    if tz is None:
        yield
        return
    old = os.environ.get('TZ')
    os.environ['TZ'] = tz
    time.tzset()
    try:
        yield
    finally:
        if old is None:
            os.environ.pop('TZ', None)
        else:
            os.environ['TZ'] = old
        time.tzset()

# proposed known-finding keys (narrow classifiers below)
K_PARSE_HOST = 'parse-host-port-valueerror'
K_ACCEPT_CASE = 'accept-media-type-case-sensitive'
K_ROUTE_CACHE = 'access-route-cache-left-partial-after-error'

SIMPLE = ['content_length', 'range', 'range_unit', 'date', 'if_modified_since', 'if_unmodified_since',
          'if_match', 'if_none_match', 'cookies', 'forwarded', 'access_route', 'remote_addr',
          'forwarded_scheme', 'forwarded_host', 'forwarded_uri', 'forwarded_prefix', 'host', 'port', 'netloc',
          'scheme', 'uri', 'url', 'prefix', 'relative_uri', 'root_path', 'subdomain', 'accept',
          'client_accepts_json', 'client_accepts_xml', 'client_accepts_msgpack', 'user_agent', 'auth', 'expect',
          'if_range', 'referer', 'content_type', 'headers', 'headers_lower']
MEMOISED = ['uri', 'url', 'prefix', 'relative_uri', 'forwarded_uri', 'forwarded_prefix', 'access_route',
            'forwarded', 'cookies', 'if_match', 'if_none_match', 'netloc', 'remote_addr', 'headers_lower']
FAMILY = {}
for _k, _f in [('content_length', 'cl'), ('range', 'range'), ('range_unit', 'range'), ('date', 'date'),
               ('if_modified_since', 'date'), ('if_unmodified_since', 'date'), ('if_match', 'etag'),
               ('if_none_match', 'etag'), ('cookies', 'cookie'), ('forwarded', 'forwarded'),
               ('access_route', 'route'), ('remote_addr', 'route'), ('forwarded_scheme', 'fscheme'),
               ('forwarded_host', 'fhost'), ('forwarded_uri', 'url'), ('forwarded_prefix', 'url'), ('host', 'host'),
               ('port', 'host'), ('netloc', 'host'), ('subdomain', 'host'), ('uri', 'url'), ('url', 'url'),
               ('prefix', 'url'), ('relative_uri', 'url'), ('accept', 'accept'), ('client_accepts_json', 'accept'),
               ('client_accepts_xml', 'accept'), ('client_accepts_msgpack', 'accept')]:
    FAMILY[_k] = _f


def family(key):
    head = key.split(':', 1)[0]
    return {'hdt_obs': 'date', 'cookie_values': 'cookie', 'client_accepts': 'accept', 'client_prefers': 'accept',
            'get_header': 'lookup', 'get_header_as_int': 'int'}.get(head) or FAMILY.get(key, 'plain')


# =====================================================================================
# reading the real objects
# =====================================================================================

def style_name(name, style):
    if style == 0:
        return name
    if style == 1:
        return name.lower()
    if style == 2:
        return name.upper()
    return ''.join(c.upper() if (i * 7 + style) % 3 else c.lower() for i, c in enumerate(name))


def make_table(case):
    ls = case.get('lookup_style', 0)
    T = [(n, operator.attrgetter(n)) for n in SIMPLE]
    for name in M.OBS_DATE_HEADERS:
        T.append(('hdt_obs:' + name, lambda r, n=style_name(name, ls): r.get_header_as_datetime(n, obs_date=True)))
    for name in M.INT_HEADERS:
        T.append(('get_header_as_int:' + name, lambda r, n=style_name(name, ls): r.get_header_as_int(n)))
    for n in case.get('cookie_probe', []):
        T.append(('cookie_values:' + n, lambda r, n=n: r.get_cookie_values(n)))
    for mt in M.ACCEPT_PROBES:
        T.append(('client_accepts:' + mt, lambda r, mt=mt: r.client_accepts(mt)))
    for s in M.PREFER_SETS:
        T.append(('client_prefers:' + ','.join(s), lambda r, s=s: r.client_prefers(list(s))))
    for name in case.get('lookup', []):
        T.append(('get_header:' + name, lambda r, n=name: r.get_header(n)))
    return T


def canon(v):
    if isinstance(v, ETag):
        return (str(v), bool(v.is_weak))
    if isinstance(v, Forwarded):
        return (v.src, v.dest, v.host, v.scheme)
    if isinstance(v, (list,)):
        return [canon(x) for x in v]
    if isinstance(v, dict):
        return {k: canon(x) for k, x in v.items()}
    return v


def innermost(ex):
    tb = traceback.extract_tb(ex.__traceback__)
    if not tb:
        return ''
    f = tb[-1]
    return '%s:%s:%d' % (f.filename.rsplit('/falcon/', 1)[-1], f.name, f.lineno)


def read(req, fn):
    try:
        v = fn(req)
    except falcon.HTTPError as ex:
        return ('http', ex.status_code, type(ex).__name__)
    except Exception as ex:  # noqa
        return ('exc', type(ex).__name__, str(ex)[:160], innermost(ex))
    return ('val', canon(v))


def same(a, b):
    if a[0] != b[0]:
        return False
    if a[0] == 'val':
        return type(a[1]) is type(b[1]) and a[1] == b[1]
    return a[:3] == b[:3]


def build_request(case, stack, app_options=None):
    ns = case.get('name_style', 0)
    headers = [(style_name(n, ns), v) for n, v in case['headers']]
    server = tuple(case['server'])
    client = tuple(case['client']) if case.get('client') else None
    if stack == 'wsgi':
        if case.get('wsgi_server_bracketed') and ':' in server[0]:
            server = ('[%s]' % server[0], server[1])      # RFC 3875 form of an IPv6 SERVER_NAME
        env = W.make_environ('GET', case['path'], case['query'], headers=headers, scheme=case['scheme'],
                             server=server, client=client or ('0.0.0.0', 0), root_path=case['root_path'])
        if client is None:
            del env['REMOTE_ADDR']
            del env['REMOTE_PORT']
        return env
    ws = bool(case.get('asgi_ws'))
    scope = A.make_scope('GET', case['path'], case['query'], headers=headers,
                         scheme={'http': 'ws', 'https': 'wss'}[case['scheme']] if ws else case['scheme'],
                         server=server, client=client, root_path=case['root_path'],
                         typ='websocket' if ws else 'http')
    if client is None:
        del scope['client']
    if case.get('asgi_no_server'):
        scope['server'] = None
    if ws:
        scope['subprotocols'] = ['chat', 'v2.chat']
    # The ASGI spec only promises *iterables* for client, server, headers (of 2-item iterables) and subprotocols:
    # hand them over as forward-only iterators (every Request object gets a freshly built scope then).
    for f in case.get('asgi_oneshot', ()):
        if f == 'headers':
            scope['headers'] = iter([iter(p) for p in scope['headers']])
        elif scope.get(f) is not None:
            scope[f] = iter(scope[f])
    return scope


_OPTS = []


def request_from(x, stack):
    """a new Request object over an already built environ/scope (one shared RequestOptions, as an App has)."""
    if not _OPTS:
        _OPTS.append(falcon.RequestOptions())
    if stack == 'wsgi':
        return falcon.Request(x, options=_OPTS[0])
    return falcon.asgi.Request(x, None, options=_OPTS[0])


def new_request(case, stack):
    return request_from(build_request(case, stack), stack)


def snapshot(req, table, order):
    out = {}
    for i in order:
        k, fn = table[i]
        out[k] = read(req, fn)
    return out


# =====================================================================================
# judging
# =====================================================================================

def judge(exp, got):
    """None when `got` is allowed by `exp`, else a short reason."""
    if got[0] == 'exc':
        return 'other-exception'
    if got[0] == 'http':
        if not (400 <= got[1] <= 499):
            return 'http-error-not-4xx'
        if exp[0] in ('free', '4xx'):
            return None
        return 'raised-4xx-on-valid'
    v = got[1]
    kind = exp[0]
    if kind == 'free':
        return None
    if kind == '4xx':
        return 'value-where-400-documented'
    if kind == 'eq':
        w = exp[1]
        if w is None:
            return None if v is None else 'value-mismatch'
        if isinstance(w, bool):
            return None if (isinstance(v, bool) and v == w) else 'value-mismatch'
        return None if (v == w and isinstance(v, type(w))) else 'value-mismatch'
    if kind == 'in':
        return None if any(v == w and isinstance(v, type(w)) for w in exp[1]) else 'value-mismatch'
    if kind == 'hosti':
        return None if (isinstance(v, str) and v.lower() in [w.lower() for w in exp[1]]) else 'value-mismatch'
    if kind == 'pred':
        try:
            return None if exp[2](v) else 'value-mismatch'
        except Exception:  # noqa
            return 'value-mismatch'
    raise AssertionError(exp)


def show_exp(exp):
    return list(exp[:2]) if exp[0] == 'pred' else list(exp)


_INT_MSG = re.compile(r"invalid literal for int\(\) with base 10: (.*)\Z", re.S)


def classify(case, stack, key, reason, got):
    """Narrow classifiers for defects of the unchanged tree (proposed known_findings keys)."""
    hdr, _ = M.combine_headers(case['headers'])
    if reason == 'other-exception' and got[1] == 'ValueError' and got[3].startswith('util/uri.py:parse_host:') \
            and _INT_MSG.match(got[2]):
        # falcon/util/uri.py parse_host(): int(port) on a port text that is not a decimal number, reached from
        # the Host header (host/port/subdomain) or from a Forwarded "for" node (access_route/remote_addr)
        if (key in ('host', 'port', 'subdomain') and 'host' in hdr) or \
                (key in ('access_route', 'remote_addr') and 'forwarded' in hdr):
            return K_PARSE_HOST
    if reason == 'value-mismatch' and family(key) == 'accept' and 'accept' in hdr:
        ac = hdr['accept']
        types = ','.join(p.split(';')[0] for p in ac.split(','))
        if types != types.lower():
            # re-run on the same header with lower-cased type/subtype: if falcon then agrees with the
            # reference, the only cause is case-sensitive type matching (falcon/util/mediatypes.py match_score)
            c2 = dict(case, headers=[[n, (','.join(_lower_type(p) for p in v.split(',')) if n.lower() == 'accept' else v)]
                                     for n, v in case['headers']])
            E2, _ = M.expectations(c2, stack)
            tab = dict(make_table(c2))
            if key in tab and key != 'accept' and judge(E2[key], read(new_request(c2, stack), tab[key])) is None:
                return K_ACCEPT_CASE
    return None


def _lower_type(part):
    head, semi, rest = part.partition(';')
    return head.lower() + semi + rest


def calibrate_cookie_quoting():
    """Which reading does this tree apply to DQUOTE-wrapped cookie-values?  Decided once per stack on a
    non-empty quoted canary; every quoted value (the empty one included) is then held to that reading.
    Returns findings (a canary that yields neither reading)."""
    findings = []
    for stack in STACKS:
        if stack in M.QUOTED_COOKIE_READING:
            continue
        c = base_case()
        c['headers'] = [['Cookie', 'k="v"; p=1; z="xyz"']]
        req = new_request(c, stack)
        got = read(req, lambda r: (r.get_cookie_values('k'), r.get_cookie_values('z'), r.cookies.get('k')))
        if got == ('val', (['v'], ['xyz'], 'v')):
            M.QUOTED_COOKIE_READING[stack] = 'strip'
        elif got == ('val', (['"v"'], ['"xyz"'], '"v"')):
            M.QUOTED_COOKIE_READING[stack] = 'keep'
        else:
            findings.append({'kind': 'value-mismatch', 'stack': stack, 'accessor': 'cookies', 'got': list(got),
                             'want': ['quoted canary read as v/xyz or "v"/"xyz"'], 'known': None, 'case': c})
    return findings


def evaluate(case, stacks=STACKS):
    """Run all direct monitors on one abstract request. Returns (findings, counters, branch labels, snaps)."""
    findings, C, BR, snaps = [], {}, set(), {}

    def cnt(k, n=1):
        C[k] = C.get(k, 0) + n

    table = make_table(case)
    n = len(table)
    seed = case.get('order_seed', 0)
    for stack in stacks:
        E, B = M.expectations(case, stack)
        BR |= B
        assert set(E) == set(k for k, _ in table), (sorted(set(E) ^ set(k for k, _ in table)))
        r = random.Random(seed * 2 + (stack == 'asgi'))
        o1 = list(range(n))
        r.shuffle(o1)
        o2 = list(reversed(o1))
        o3 = list(range(n))
        r.shuffle(o3)
        try:
            built = build_request(case, stack)
            if stack == 'asgi' and case.get('asgi_oneshot'):
                def fresh(case=case, stack=stack):      # a forward-only scope serves one Request object only
                    return request_from(build_request(case, stack), stack)
            else:
                def fresh(built=built, stack=stack):
                    return request_from(built, stack)
            reqA = fresh()
            reqB = fresh()
        except Exception as ex:  # noqa
            findings.append({'kind': 'constructor-raised', 'stack': stack, 'accessor': '__init__',
                             'got': ['exc', type(ex).__name__, str(ex)[:160], innermost(ex)], 'known': None})
            continue
        s1 = snapshot(reqA, table, o1)
        s2 = snapshot(reqA, table, o2)
        light = bool(case.get('light'))     # light: value/free/repeat monitors only (no fresh-object reads)
        s3 = s1 if light else snapshot(reqB, table, o3)
        snaps[stack] = s1
        cnt('stack.' + stack)
        if stack == 'asgi':
            for f in case.get('asgi_oneshot', ()):
                cnt('oneshot.' + f)
        for k, fn in table:
            got, exp = s1[k], E[k]
            fam = family(k)
            reason = judge(exp, got)
            if exp[0] == 'free':
                cnt('mon.free.' + fam)
            elif exp[0] == '4xx':
                cnt('mon.documented400.' + fam)
            elif exp == ('eq', None):
                cnt('mon.none.' + fam)
            else:
                cnt('mon.value.' + fam)
            if got[0] == 'http':
                cnt('raised.4xx.' + fam)
            if reason:
                findings.append({'kind': reason, 'stack': stack, 'accessor': k, 'got': list(got),
                                 'want': show_exp(exp), 'known': classify(case, stack, k, reason, got)})
                continue
            cnt('mon.repeat')
            if not same(s1[k], s2[k]):
                findings.append({'kind': 'repeat-access-differs', 'stack': stack, 'accessor': k,
                                 'got': list(s1[k]), 'second': list(s2[k]), 'known': None})
            if light:
                continue
            cnt('mon.fresh_other_order')
            if not same(s1[k], s3[k]):
                findings.append({'kind': 'fresh-object-differs', 'stack': stack, 'accessor': k,
                                 'got': list(s1[k]), 'fresh': list(s3[k]), 'known': None})
        tab = dict(table)
        pending = [f for f in findings if f['stack'] == stack and f['known'] is None and
                   f['accessor'] in ('access_route', 'remote_addr')]
        if pending:
            # access_route stores its (still empty / partial) list in the cache before parsing the hops; when
            # parsing raises, every later read on that object returns the partial list (and ASGI remote_addr
            # indexes into it).  Attribute findings on these two accessors to that mechanism only when a lone
            # read of access_route on a fresh object raises.
            root = read(fresh(), tab['access_route'])
            if root[0] in ('exc', 'http'):
                for f in pending:
                    f['known'] = K_ROUTE_CACHE
                    f['root'] = list(root)
        for k in ([] if light else MEMOISED):
            alone = read(fresh(), tab[k])
            cnt('mon.fresh_alone')
            if not same(alone, s1[k]) and judge(E[k], s1[k]) is None:
                known = None
                if k in ('access_route', 'remote_addr') and \
                        read(fresh(), tab['access_route'])[0] in ('exc', 'http'):
                    known = K_ROUTE_CACHE
                findings.append({'kind': 'memoised-differs-from-fresh', 'stack': stack, 'accessor': k,
                                 'got': list(s1[k]), 'fresh': list(alone), 'known': known})
    return findings, C, BR, snaps


# =====================================================================================
# end-to-end through real apps
# =====================================================================================

class _Sink:
    def __init__(self):
        self.table = self.order = self.probe = None
        self.snap = None
        self.rt = None

    def _work(self, req, resp):
        if self.rt is not None:
            self.rt(req, resp)
            return
        self.snap = snapshot(req, self.table, self.order)
        if self.probe is not None:
            self.probe(req)
        resp.text = 'ok'

    def sync(self, req, resp, **kw):
        self._work(req, resp)

    async def asynch(self, req, resp, **kw):
        self._work(req, resp)


_APPS = {}


def _plain_error(req, resp, exception):
    resp.text = exception.title or ''
    resp.content_type = 'text/plain'


def apps():
    if not _APPS:
        ws, as_ = _Sink(), _Sink()
        wa = falcon.App()
        wa.add_sink(ws.sync, '/')
        aa = falcon.asgi.App()
        aa.add_sink(as_.asynch, '/')
        # The default error serializer negotiates the error body against Accept (and can itself fail for some
        # Accept values: multipart handler chosen through */* -> NotImplementedError -> 500).  That is error
        # rendering (C04/C11), not an accessor; keep it out of the status monitor.
        wa.set_error_serializer(_plain_error)
        aa.set_error_serializer(_plain_error)
        _APPS.update(wsgi=(wa, ws), asgi=(aa, as_))
    return _APPS


def run_app(stack, case):
    app, sink = apps()[stack]
    x = build_request(case, stack)
    if stack == 'wsgi':
        return W.run_wsgi(app, x)
    return A.run_asgi_http(app, x)


def e2e(case, snaps, rng, tainted=()):
    """Same reads inside a responder behind the real App. Returns (findings, counters).

    tainted: (stack, accessor) pairs that already have a direct finding (not compared again)."""
    findings, C = [], {}
    tainted = set(tainted)
    for st, k in list(tainted):
        if k in ('access_route', 'remote_addr'):
            tainted |= {(st, 'access_route'), (st, 'remote_addr')}
    table = make_table(case)
    tab = dict(table)
    for stack in STACKS:
        if stack not in snaps or (stack == 'asgi' and case.get('asgi_ws')):
            continue
        direct = snaps[stack]
        app, sink = apps()[stack]
        raising = [k for k, g in direct.items() if g[0] == 'http']
        pk = rng.choice(raising) if raising and rng.random() < 0.8 else rng.choice(sorted(direct))
        order = list(range(len(table)))
        rng.shuffle(order)
        sink.table, sink.order, sink.probe, sink.snap, sink.rt = table, order, tab[pk], None, None
        res = run_app(stack, case)
        C['mon.e2e.' + stack] = C.get('mon.e2e.' + stack, 0) + 1
        if sink.snap is None:
            findings.append({'kind': 'e2e-responder-not-reached', 'stack': stack, 'accessor': pk,
                             'status': res.status, 'exc': repr(res.exc), 'known': None})
            continue
        for k in direct:
            if (stack, k) not in tainted and not same(direct[k], sink.snap[k]):
                findings.append({'kind': 'e2e-differs-from-direct', 'stack': stack, 'accessor': k,
                                 'got': list(sink.snap[k]), 'direct': list(direct[k]), 'known': None})
                break
        g = direct[pk]
        if (stack, pk) in tainted:
            C['mon.e2e.status_skipped_tainted'] = C.get('mon.e2e.status_skipped_tainted', 0) + 1
            continue
        if res.problems:
            findings.append({'kind': 'e2e-protocol-problem', 'stack': stack, 'accessor': pk,
                             'problems': res.problems[:3], 'known': None})
        if g[0] == 'http':
            C['mon.e2e.status4xx'] = C.get('mon.e2e.status4xx', 0) + 1
            if res.status != g[1]:
                findings.append({'kind': 'e2e-status-not-the-4xx-raised', 'stack': stack, 'accessor': pk,
                                 'status': res.status, 'raised': list(g), 'known': None})
        elif g[0] == 'val':
            C['mon.e2e.status200'] = C.get('mon.e2e.status200', 0) + 1
            if res.status != 200:
                findings.append({'kind': 'e2e-status-not-200', 'stack': stack, 'accessor': pk,
                                 'status': res.status, 'exc': repr(res.exc), 'known': None})
        else:
            C['mon.e2e.status500_seen'] = C.get('mon.e2e.status500_seen', 0) + 1
    return findings, C


# ---- response API -> request accessors

def roundtrip(rt_case):
    """rt_case: {'lm': iso, 'lm_aware': bool, 'ex': iso, 'etag_in': str, 'etag_want': [opaque, weak]}."""
    with process_tz(rt_case.get('tz')):
        return _roundtrip(rt_case)


def _roundtrip(rt_case):
    findings, C = [], {}
    tzc = 'utc' if rt_case.get('tz') in (None, 'UTC') else 'other'
    C['mon.roundtrip.tz_%s.%s' % (tzc, 'aware' if rt_case.get('aware') else 'naive')] = 1
    lm = datetime.datetime.fromisoformat(rt_case['lm'])
    ex = datetime.datetime.fromisoformat(rt_case['ex'])
    want_lm = lm.replace(microsecond=0, tzinfo=UTC)
    want_ex = ex.replace(microsecond=0, tzinfo=UTC)
    if rt_case.get('aware'):
        lm, ex = lm.replace(tzinfo=UTC), ex.replace(tzinfo=UTC)
    want_tag = [(rt_case['etag_want'][0], bool(rt_case['etag_want'][1]))]
    base = {'scheme': 'http', 'server': ['example.org', 80], 'client': ['10.0.0.9', 1], 'root_path': '',
            'path': '/rt', 'query': '', 'headers': []}
    for stack in STACKS:
        app, sink = apps()[stack]
        err = []

        def writer(req, resp):
            try:
                resp.last_modified = lm
                resp.expires = ex
                resp.etag = rt_case['etag_in']
            except Exception as e:  # noqa
                err.append(repr(e))
                raise
        sink.rt = writer
        res = run_app(stack, base)
        hl, he, ht = res.header('Last-Modified'), res.header('Expires'), res.header('ETag')
        if err or res.status != 200 or None in (hl, he, ht):
            findings.append({'kind': 'roundtrip-write-failed', 'stack': stack, 'err': err, 'status': res.status,
                             'headers': [hl, he, ht], 'known': None})
            sink.rt = None
            continue
        got = {}

        def reader(req, resp):
            for k in ('if_modified_since', 'if_unmodified_since', 'date', 'if_none_match', 'if_match'):
                got[k] = read(req, operator.attrgetter(k))
        sink.rt = reader
        c2 = dict(base, headers=[['If-Modified-Since', hl], ['If-Unmodified-Since', he], ['Date', hl],
                                 ['If-None-Match', ht], ['If-Match', ht]])
        res2 = run_app(stack, c2)
        sink.rt = None
        wants = {'if_modified_since': want_lm, 'if_unmodified_since': want_ex, 'date': want_lm,
                 'if_none_match': want_tag, 'if_match': want_tag}
        for k, w in wants.items():
            kind = 'date' if isinstance(w, datetime.datetime) else 'etag'
            C['mon.roundtrip.' + kind] = C.get('mon.roundtrip.' + kind, 0) + 1
            g = got.get(k)
            if g is None or g[0] != 'val' or g[1] != w or (kind == 'date' and g[1].utcoffset() is None):
                findings.append({'kind': 'roundtrip-' + kind + '-differs', 'stack': stack, 'accessor': k,
                                 'got': list(g) if g else None, 'want': w, 'sent': [hl, he, ht],
                                 'status': res2.status, 'known': None})
    return findings, C


# =====================================================================================
# generators (from the ABNFs) and mutations
# =====================================================================================

TOKCH = "!#$%&'*+-.^_`|~" + 'abcxyzABC019'
ETAGC = ''.join(chr(c) for c in range(0x21, 0x7F) if c != 0x22)


def gen_int(rng):
    return rng.choice([str(rng.randint(0, 9)), str(rng.randint(0, 5000)), '0', '00%d' % rng.randint(0, 99),
                       str(2 ** 31), str(2 ** 63), str(10 ** 20 + rng.randint(0, 99)), str(rng.randint(0, 10 ** 6))])


def gen_range(rng):
    unit = rng.choice(['bytes'] * 6 + ['items', 'BYTES', 'Bytes', 'x-rows', "r!#$%&'*+.^_`|~"])
    kind = rng.choice(['int', 'int', 'eq', 'open', 'suffix', 'multi', 'rev', 'suffix0'])

    def spec(k):
        if k == 'int':
            a = int(gen_int(rng))
            return '%s-%d' % (rng.choice(['%d', '0%d', '%d']) % a, a + rng.choice([0, 1, 1, 7, 10 ** 6, 10 ** 19]))
        if k == 'eq':
            a = gen_int(rng)
            return '%s-%s' % (a, a)
        if k == 'open':
            return gen_int(rng) + '-'
        if k == 'suffix':
            return '-' + str(int(gen_int(rng)) + 1)
        if k == 'rev':
            a = int(gen_int(rng)) + 1
            return '%d-%d' % (a, a - 1)
        return '-0'
    if kind == 'multi':
        sep = rng.choice([',', ', ', ' , ', ',\t'])
        return unit + '=' + sep.join(spec(rng.choice(['int', 'open', 'suffix', 'eq'])) for _ in range(rng.randint(2, 3)))
    return unit + '=' + spec(kind)


def days_in(y, m):
    if m == 2:
        return 29 if (y % 4 == 0 and (y % 100 != 0 or y % 400 == 0)) else 28
    return 30 if m in (4, 6, 9, 11) else 31


def gen_dt(rng, lo=1):
    y = rng.choice([lo, 1000, 1582, 1900, 1969, 1970, 1999, 2000, 2024, 2038, 2068, 2069, 9999,
                    rng.randint(lo, 9999), rng.randint(1900, 2100), rng.randint(1900, 2100)])
    y = max(y, lo)
    m = rng.randint(1, 12)
    d = rng.choice([1, days_in(y, m), rng.randint(1, days_in(y, m))])
    if rng.random() < 0.1:
        y4 = [yy for yy in (2000, 2024, 1996, 2400, 1600) if yy >= lo]
        y, m, d = rng.choice(y4), 2, 29
    return datetime.datetime(y, m, d, rng.choice([0, 23, rng.randint(0, 23)]), rng.choice([0, 59, rng.randint(0, 59)]),
                             rng.choice([0, 59, rng.randint(0, 59)]))


def fmt_date(dt, style, wrong_day=False, pad=True):
    wd = (dt.weekday() + (3 if wrong_day else 0)) % 7
    t = '%02d:%02d:%02d' % (dt.hour, dt.minute, dt.second)
    mon = M.MONTH[dt.month - 1]
    if style == 'imf':
        return '%s, %02d %s %04d %s GMT' % (M.DAY3[wd], dt.day, mon, dt.year, t)
    if style == 'rfc850':
        return '%s, %02d-%s-%02d %s GMT' % (M.DAYL[wd], dt.day, mon, dt.year % 100, t)
    return '%s %s %s %s %04d' % (M.DAY3[wd], mon, ('%02d' if pad else '%2d') % dt.day, t, dt.year)


def gen_date(rng):
    style = rng.choice(['imf', 'imf', 'imf', 'rfc850', 'asctime'])
    return fmt_date(gen_dt(rng), style, wrong_day=rng.random() < 0.1, pad=rng.random() < 0.5)


def gen_opaque(rng):
    n = rng.choice([0, 1, 1, 2, 3, 5, 8])
    pool = rng.choice(['abcxyz019', ETAGC, ',W/*\\;=ab', 'a\xe9\xff,'])
    return ''.join(rng.choice(pool) for _ in range(n))


def gen_etags(rng):
    if rng.random() < 0.1:
        return '*'
    k = rng.choice([1, 1, 2, 3, 4])
    sep = rng.choice([',', ', ', ' , ', ',\t', ' ,'])
    return sep.join(('W/' if rng.random() < 0.4 else '') + '"' + gen_opaque(rng) + '"' for _ in range(k))


def gen_cookie(rng):
    names = [''.join(rng.choice(TOKCH) for _ in range(rng.randint(1, 5))) for _ in range(3)] + ['sid', 'SID', 'a']
    octets = sorted(M.COOKIE_OCTET)
    pairs = []
    for _ in range(rng.choice([1, 1, 2, 3, 5])):
        n = rng.choice(names)
        v = ''.join(rng.choice(rng.choice(['abc019', octets, '=%+/'])) for _ in range(rng.choice([0, 1, 3, 6, 12])))
        if rng.random() < 0.25:
            v = '"' + v + '"'
        if rng.random() < 0.1:
            v = '""'          # empty quoted value: same reading as every other quoted value
        pairs.append(n + '=' + v)
    return '; '.join(pairs)


IPV4S = ['192.0.2.43', '198.51.100.17', '10.0.0.1', '127.0.0.1', '203.0.113.255', '0.0.0.0']
IPV6S = ['::1', '2001:db8:cafe::17', '2001:DB8::8a2e:370:7334', '::ffff:192.0.2.1', 'fe80::1',
         '2001:db8:0:0:0:0:2:1', '::']
REGNAMES = ['example.com', 'a.b.example.org', 'localhost', 'EXAMPLE.Com', 'xn--bcher-kva.example', 'a-b.c-d.io',
            'api.example.co.uk', 'h_1.test', 'a~b.test', "x!$&'()*+,;=.test", '1.example', 'example.com.']


def gen_node(rng):
    k = rng.choice(['v4', 'v4', 'v4port', 'v6', 'v6port', 'unknown', 'obf', 'obfport', 'v4obfport', 'v6obfport'])
    if k == 'v4':
        return rng.choice(IPV4S)
    if k == 'v4port':
        return '%s:%d' % (rng.choice(IPV4S), rng.randint(0, 65535))
    if k == 'v6':
        return '[%s]' % rng.choice(IPV6S)
    if k == 'v6port':
        return '[%s]:%d' % (rng.choice(IPV6S), rng.randint(0, 65535))
    if k == 'unknown':
        return 'unknown'
    obf = '_' + ''.join(rng.choice('abcXYZ019._-') for _ in range(rng.randint(1, 8)))
    if k == 'obf':
        return obf
    if k == 'obfport':
        return obf + ':' + rng.choice([str(rng.randint(1, 65535)), '_p0rt'])
    if k == 'v4obfport':
        return rng.choice(IPV4S) + ':_' + rng.choice(['x', 'port1', 'a.b'])
    return '[%s]:_%s' % (rng.choice(IPV6S), rng.choice(['x', 'p-1']))


def quote(s, rng, p_escape=0.1):
    out = []
    for c in s:
        if c in '"\\' or (rng.random() < p_escape and (0x20 <= ord(c) <= 0x7E)):
            out.append('\\' + c)
        else:
            out.append(c)
    return '"' + ''.join(out) + '"'


def gen_authority(rng, ports=None):
    h = rng.choice([rng.choice(REGNAMES)] * 3 + [rng.choice(IPV4S), '[%s]' % rng.choice(IPV6S)])
    p = rng.choice(ports or ['', '', '', ':80', ':443', ':8080', ':0', ':65535', ':080', ':99999', ':'])
    return h + p


def gen_forwarded(rng):
    elements = []
    for _ in range(rng.choice([1, 1, 2, 3])):
        names = rng.sample(['for', 'by', 'host', 'proto', 'ext'], rng.randint(1, 4))
        pairs = []
        for n in names:
            if n in ('for', 'by'):
                v = gen_node(rng)
            elif n == 'host':
                v = gen_authority(rng, ports=['', '', ':8080', ':443'])
            elif n == 'proto':
                v = rng.choice(['http', 'https', 'HTTPS', 'Http', 'ws'])
            else:
                n, v = rng.choice([('secret', 'x1'), ('Foo', 'a b;c,d'), ('ext', 'q"uo\\te'), ('x-y', '')])
            if n in ('for', 'by', 'host') and rng.random() < 0.08:
                # any quoted-string is a valid value; Forwarded.src/dest/host must carry the unquoted text
                v = ''.join(rng.choice('ab\\\\"" ,;=\t_:[]') for _ in range(rng.randint(0, 8)))
            if not M.is_token(v) or rng.random() < 0.2:
                v = quote(v, rng, p_escape=rng.choice([0, 0, 0.3]))
            n = rng.choice([n, n, n.upper(), n.capitalize()])
            pairs.append(n + '=' + v)
        sep = ';' if rng.random() < 0.95 else ';;'
        el = sep.join(pairs)
        if rng.random() < 0.03:
            el = ';' + el
        elements.append(el)
    return rng.choice([',', ', ', ' , ', ',\t']).join(elements)


MTYPES = ['application/json', 'application/xml', 'text/html', 'image/png', 'application/x-msgpack',
          'application/msgpack', 'text/plain', 'application/*', 'text/*', 'image/*', '*/*']


def gen_accept(rng):
    k = rng.choice([1, 1, 2, 3, 4])
    parts = []
    for mt in rng.sample(MTYPES, k):
        if rng.random() < 0.04:
            mt = rng.choice([mt.upper(), mt.title()])
        q = rng.choice(['', '', '', 'q=0', 'q=0.0', 'q=0.000', 'q=1', 'q=1.000', 'q=0.5', 'q=0.001', 'q=0.9', 'Q=0.3', 'q=0.'])
        if q:
            mt = mt + rng.choice([';', '; ', ' ;', ' ; ']) + q
        elif rng.random() < 0.05:
            mt = mt + ';charset=utf-8'
        parts.append(mt)
    return rng.choice([',', ', ', ' , ']).join(parts)


def gen_xff(rng):
    return rng.choice([',', ', ', ' , ']).join(
        rng.choice(IPV4S + IPV6S + ['unknown']) for _ in range(rng.choice([1, 1, 2, 3])))


DELIMS = ',;=":-/[]\\ \t*W'
HOSTILE = ['\x00', '\x0b', '\x7f', '\xe9', '\xff', '\xa0', '\r', '\n', '\xb2', '\x1f', '\x85']


def swapcase_ascii(s):
    return ''.join(c.swapcase() if c.isascii() else c for c in s)


def mutate(rng, s):
    ops = rng.randint(1, 2)
    for _ in range(ops):
        op = rng.choice(['del', 'dup', 'ins', 'case', 'ctl', 'trunc', 'junk', 'digit', 'wrap', 'swap', 'delim_del',
                         'delim_dup'])
        i = rng.randrange(len(s)) if s else 0
        if op == 'del' and s:
            s = s[:i] + s[i + 1:]
        elif op == 'dup' and s:
            s = s[:i] + s[i] + s[i:]
        elif op == 'ins':
            s = s[:i] + rng.choice(DELIMS) + s[i:]
        elif op == 'case':
            s = swapcase_ascii(s) if rng.random() < 0.5 else s[:i] + swapcase_ascii(s[i:])
        elif op == 'ctl':
            s = s[:i] + rng.choice(HOSTILE) + s[i:]
        elif op == 'trunc' and s:
            s = s[:i]
        elif op == 'junk':
            s = s + rng.choice([' ', ',', ';', '=', '"', 'x', ':', ':x', '-', ' GMT', '\\', ',,', '; ', '=""'])
        elif op == 'digit':
            ds = [j for j, c in enumerate(s) if c.isdigit()]
            if ds:
                j = rng.choice(ds)
                s = s[:j] + rng.choice(['x', '-', '+', ' ', '', '_', '\xb2', '99', '.']) + s[j + 1:]
        elif op == 'wrap':
            s = rng.choice(['"%s"', ' %s', '%s ', '[%s]', '(%s)', '%s,%s' % ('%s', '%s')]).replace('%s', s)
        elif op == 'swap' and len(s) > 1:
            j = rng.randrange(len(s) - 1)
            s = s[:j] + s[j + 1] + s[j] + s[j + 2:]
        elif op in ('delim_del', 'delim_dup'):
            ds = [j for j, c in enumerate(s) if c in DELIMS]
            if ds:
                j = rng.choice(ds)
                s = s[:j] + (s[j] * 2 if op == 'delim_dup' else '') + s[j + 1:]
    return s


GENS = {
    'Content-Length': gen_int, 'X-Count': gen_int, 'Range': gen_range, 'Date': gen_date, 'If-Modified-Since': gen_date,
    'If-Unmodified-Since': gen_date, 'X-When': gen_date, 'If-Match': gen_etags, 'If-None-Match': gen_etags,
    'Cookie': gen_cookie, 'Forwarded': gen_forwarded, 'Host': gen_authority, 'Accept': gen_accept,
    'X-Forwarded-For': gen_xff, 'X-Real-IP': lambda rng: rng.choice(IPV4S + IPV6S),
    'X-Forwarded-Proto': lambda rng: rng.choice(['http', 'https', 'HTTPS', 'Https']),
    'X-Forwarded-Host': lambda rng: gen_authority(rng, ports=['', ':8443']),
    'User-Agent': lambda rng: rng.choice(['curl/8.0', 'Mozilla/5.0 (X11; Linux) \xe9', '', 'a, b; c="d"']),
    'Authorization': lambda rng: rng.choice(['Basic dXNlcjpwYXNz', 'Bearer a.b.c', '']),
    'Expect': lambda rng: '100-continue', 'If-Range': lambda rng: rng.choice(['"abc"', 'W/"x"', gen_date(rng)]),
    'Referer': lambda rng: 'https://example.com/a?b=c', 'Content-Type': lambda rng: rng.choice(
        ['application/json', 'text/plain; charset=utf-8', 'multipart/form-data; boundary="x y"']),
}
P_PRESENT = {'Host': 0.75, 'Forwarded': 0.4, 'X-Forwarded-For': 0.3, 'X-Real-IP': 0.2, 'X-Forwarded-Proto': 0.3,
             'X-Forwarded-Host': 0.3, 'Accept': 0.5, 'Cookie': 0.4, 'Range': 0.4, 'Content-Length': 0.4}


def base_case(rng=None):
    return {'scheme': 'http', 'server': ['falconframework.org', 80], 'client': ['10.1.2.3', 40000], 'root_path': '',
            'path': '/', 'query': '', 'headers': [], 'cookie_probe': [], 'lookup': [], 'order_seed': 0,
            'name_style': 0, 'lookup_style': 0}


def finish_case(case, rng):
    """choose probes (cookie names, lookup names/casings) for a case whose headers are fixed."""
    hdr, _ = M.combine_headers(case['headers'])
    probe = []
    for tok in hdr.get('cookie', '').split(';')[:6]:
        n = tok.partition('=')[0].strip()
        if n and n not in probe:
            probe.append(n)
    case['cookie_probe'] = probe[:3] + ['nope']
    present = []
    for n, _ in case['headers']:
        if n not in present:
            present.append(n)
    if case.get('lookup_first'):
        present.remove(case['lookup_first'])
        rng.shuffle(present)
        present.insert(0, case.pop('lookup_first'))
    else:
        rng.shuffle(present)
    look = []
    for n in present[:2] + ['X-Absent']:
        for st in (1, 2, 3):
            v = style_name(n, st)
            if v not in look:
                look.append(v)
    case['lookup'] = look
    case['order_seed'] = rng.randrange(1 << 30)
    case['name_style'] = rng.randrange(4)
    case['lookup_style'] = rng.randrange(4)
    return case


def random_case(rng, p_mut=0.35):
    c = base_case()
    c['scheme'] = rng.choice(['http', 'https'])
    c['server'] = rng.choice([['falconframework.org', 80], ['falconframework.org', 443], ['localhost', 8000],
                              ['10.0.0.5', 8080], ['api.internal.example', 443], ['srv', 80], ['::1', 8000],
                              ['2001:db8::8', 80], ['2001:db8::8', 443], ['::1', 8443]])
    if rng.random() < 0.4:
        c['wsgi_server_bracketed'] = True
    c['client'] = rng.choice([['10.1.2.3', 40000], ['192.0.2.43', 1], ['2001:db8::9', 5], ['127.0.0.1', 9], None,
                              [rng.choice(IPV4S), 7]])
    c['root_path'] = rng.choice(['', '', '/api', '/a/b'])
    c['path'] = rng.choice(['/', '/items', '/a/b/c', '/x.y-z_~', '/items/'])
    c['query'] = rng.choice(['', '', 'a=1', 'a=1&b=2,3', 'q=%20x', 'flag'])
    if rng.random() < 0.05:
        c['asgi_no_server'] = True
    if rng.random() < 0.2:
        c['asgi_ws'] = True
    if rng.random() < 0.3:
        c['tz'] = rng.choice(TZS)
    if rng.random() < 0.2:
        c['asgi_oneshot'] = oneshot_subset(rng.randrange(15))
    for name, g in GENS.items():
        if rng.random() < P_PRESENT.get(name, 0.25):
            v = g(rng)
            if rng.random() < p_mut:
                v = mutate(rng, v)
            if name.lower() in M.LIST_FIELDS and rng.random() < 0.3:
                # list-based field sent on several field lines (RFC 9110 5.3)
                lines = split_lines(v, rng)
                if len(lines) > 1:
                    c['lookup_first'] = name
                for ln in lines:
                    c['headers'].append([name, ln])
            else:
                c['headers'].append([name, v])
    rng.shuffle(c['headers'])      # also permutes the lines of a split field: the expectation follows the order sent
    return finish_case(c, rng)


def split_lines(v, rng=None, every=False):
    """cut a list value at commas outside DQUOTEs into field lines; the cut comma is dropped, nothing else."""
    lines, cur, inq = [], '', False
    for ch in v:
        if ch == '"':
            inq = not inq
        if ch == ',' and not inq and (every or rng.random() < 0.6):
            lines.append(cur)
            cur = ''
        else:
            cur += ch
    lines.append(cur)
    return lines


# ---- bounded-exhaustive atomic cases (index-sharded)

def exhaustive_values(tier):
    """yield (header name(s), value, extra) - deterministic order; every family enumerated to a bound."""
    deep = tier != 'quick'
    # Range: all bodies of <= L pieces over 8 pieces x 4 units
    pieces = ['0', '12', '007', '-', ',', ' ', '5-9']
    for unit in (('bytes', 'items', 'BYTES', '') if deep else ('bytes', 'Items', '')):
        for L in range(0, ((6 if unit == 'bytes' else 5) if deep else 4)):
            for tup in itertools.product(pieces, repeat=L):
                yield ('Range',), unit + '=' + ''.join(tup), None
    for v in ('bytes', 'bytes 0-5', '0-5', '', '=', 'bytes=0-5=', 'a b=0-5'):
        yield ('Range',), v, None
    # Content-Length
    for v in ['0', '1', '42', '007', '18446744073709551616', '', ' 5', '5 ', '+5', '-1', '-0', '1_0', '5,5', '5, 5',
              'abc', '0x10', '1.0', '\xb2', '1e3', '٣'.encode('utf-8').decode('latin-1'), '\x00', '9' * 30]:
        yield ('Content-Length', 'X-Count'), v, None
    for i in range(40):
        yield ('Content-Length', 'X-Count'), str(i * i * 37), None
    # rarely generated but important classes, a fixed number each
    for i in range(16):
        yield ('If-Match',), '*', None
        yield ('If-None-Match',), ['"t%d"', 'W/"t%d"'][i % 2] % i, None
        yield ('Host',), ['localhost', 'srv', 'intranet:8080', 'db-1'][i % 4], {'scheme': ['http', 'https'][i % 2]}
        yield ('Host',), ['chat.example.com', '[2001:db8::7]', '192.0.2.7', 'chat.example.com:'][i % 4], \
            {'scheme': ['http', 'https'][(i // 4) % 2], 'asgi_ws': True}
        yield (), '', {'scheme': ['http', 'https'][i % 2], 'asgi_ws': True,
                       'server': [['ws.example', 80], ['ws.example', 443], ['ws.example', 8000]][i % 3]}
        yield ('X-Real-IP',), IPV4S[i % len(IPV4S)], None
        yield ('X-Forwarded-For',), ', '.join(IPV4S[:1 + i % 3] + (['10.1.2.3'] if i % 2 else [])), None
        yield ('Range',), 'bytes=%d-%d' % (i, i), None
        yield ('Range',), ['bytes=%d-%d,%d-', 'bytes=%d-%d, -%d', 'items=%d-%d ,%d-'][i % 3] % (i, i + 5, i + 9), None
        yield ('Range',), ['bytes=-%d', 'bytes=%d-'][i % 2] % (i + 1), None
    # Host forms x port forms x scheme
    hosts = REGNAMES + IPV4S[:3] + ['[%s]' % a for a in IPV6S] + ['::1', '2001:db8::1', '', '[::1', '::1]', '[v1.x]',
                                                                 '[::g]', 'a b', 'a/b', 'user@h', '[]']
    ports = ['', ':', ':80', ':443', ':8080', ':080', ':0', ':65535', ':99999', ':abc', ':-1', ':8a', ': 80', ':80 ',
             ':+80', ':8_0', ':\xb2', '::', ':80:90', ':_p']
    for i, h in enumerate(hosts):
        for j, p in enumerate(ports):
            for scheme in (('http', 'https') if deep else (('http', 'https')[(i + j) % 2],)):
                yield ('Host',), h + p, {'scheme': scheme}
            # the same table with a WebSocket connection scope on the ASGI side (ws for http, wss for https)
            for scheme in (('http', 'https') if deep else (('http', 'https')[(i + j + 1) % 2],)):
                yield ('Host',), h + p, {'scheme': scheme, 'asgi_ws': True}
    # entity-tag lists: sequences of <= 3 atoms
    atoms = ['"a"', 'W/"a"', '""', '"a,b"', 'W/"x y"', '*', 'w/"a"', 'a', '"\xe9"', '"a\\"', '', 'W/""']
    seps = [',', ', ', ' , '] if deep else [',', ', ']
    for a in atoms:
        yield ('If-Match', 'If-None-Match'), a, None
    for a, b in itertools.product(atoms, repeat=2):
        for s in seps:
            yield ('If-Match', 'If-None-Match'), a + s + b, None
    for a, b, c in itertools.product(atoms if deep else atoms[:8], repeat=3):
        for s in (seps if deep else [', ']):
            yield ('If-None-Match',), a + s + b + s + c, None
    # the same entity-tag lists delivered on several field lines (RFC 9110 5.3), also unevenly filled lines
    for a, b in itertools.product(atoms, repeat=2):
        yield ('If-Match', 'If-None-Match'), None, {'lines': [a, b]}
    for n3, (a, b, c) in enumerate(itertools.product(atoms if deep else atoms[:8], repeat=3)):
        if deep or n3 % 4 == 0:
            yield ('If-None-Match',), None, {'lines': [a, b, c]}
            yield ('If-Match',), None, {'lines': [[a + ', ' + b, c], [a, b + ',' + c]][n3 % 2]}
    # dates: boundary enumeration x three formats
    years = [1, 999, 1000, 1582, 1900, 1969, 1970, 1999, 2000, 2024, 2038, 2068, 2069, 2100, 9999] if deep else \
        [1, 2000, 9999]
    times = ['00:00:00', '23:59:59', '12:30:60', '24:00:00', '07:08:09'] if deep else ['00:00:00', '23:59:59', '12:30:60']
    for y in years:
        for mo in range(1, 13):
            for d in (1, 28, 29, 30, 31):
                for t in times:
                    mon = M.MONTH[mo - 1]
                    wd = (y + mo + d) % 7
                    yield ('Date', 'X-When'), '%s, %02d %s %04d %s GMT' % (M.DAY3[wd], d, mon, y, t), None
                    yield ('If-Modified-Since', 'X-When'), '%s, %02d-%s-%02d %s GMT' % (M.DAYL[wd], d, mon, y % 100, t), None
                    yield ('If-Unmodified-Since', 'X-When'), '%s %s %2d %s %04d' % (M.DAY3[wd], mon, d, t, y), None
    # cookies: sequences of <= 3 pairs
    cp = ['a=1', 'a=2', 'b=', 'c="q"', 'd=""', 'a=""', 'e=x=y', 'bad name=1', '=v', 'f', 'g="a b"', 'h=\xe9', 'i="']
    for k in (1, 2, 3):
        for tup in itertools.product(cp if (deep or k < 3) else cp[:8], repeat=k):
            for s in (['; ', ';'] if (deep or k < 3) else ['; ']):
                yield ('Cookie',), s.join(tup), None
    # Forwarded: elements of 1..2 pairs, 1..2 hops
    fp = ['for=192.0.2.60', 'for="[2001:db8::1]:4711"', 'for="192.0.2.60:_p"', 'for=_hidden', 'for=unknown',
          'by=203.0.113.43', 'proto=https', 'PROTO=HTTP', 'host=example.com', 'host="h.example:8080"', 'secret=x',
          'for="a\\"b"', 'for=[::1]', 'For="[::1]"', 'for="198.51.100.17:80"', 'for="\xe9"', 'for=', 'for']
    els = list(fp) + [a + ';' + b for a, b in itertools.product(fp, repeat=2)]
    for e in els:
        yield ('Forwarded',), e, None
    hop2 = els if deep else els[::7]
    for a in hop2[::3]:
        for b in fp:
            yield ('Forwarded',), a + ', ' + b, None
            yield ('Forwarded',), None, {'lines': [a, b]}
    for i in range(12):
        xs = [IPV4S[i % 4], ['10.1.2.3', IPV6S[i % 5]][i % 2], IPV4S[(i + 1) % 4]]
        yield ('X-Forwarded-For',), None, {'lines': xs[:2 + i % 2]}
        yield ('X-Forwarded-For',), None, {'lines': [xs[0] + ', ' + xs[1], xs[2]]}
    # Accept
    ar = ['application/json', 'application/*', '*/*', 'text/html', 'application/json;q=0', 'application/*;q=0',
          '*/*;q=0', 'application/json;q=0.5', '*/*;q=0.1', 'application/xml;q=1.000', 'application/msgpack',
          'Application/JSON', 'application/json;charset=utf-8', '*', 'json', 'application/json;q=2', '']
    for a in ar:
        yield ('Accept',), a, None
    for a, b in itertools.product(ar, repeat=2):
        yield ('Accept',), a + ', ' + b, None
    for a, b in itertools.product(ar if deep else ar[:11], repeat=2):
        yield ('Accept',), None, {'lines': [a, b]}
    # requests without a Host header (HTTP/1.0 clients): every kind of server address x port x scheme, alone and with
    # a Forwarded header that falls back on the own netloc
    n1 = 0
    for sname in ['falconframework.org', 'srv', '10.0.0.5', '::1', '2001:db8::8', '::ffff:192.0.2.1']:
        for br in ((False, True) if ':' in sname else (False,)):
            for sport in (80, 443, 8000):
                for scheme in ('http', 'https'):
                    for ws in (False, True):
                        ex = {'scheme': scheme, 'server': [sname, sport], 'wsgi_server_bracketed': br, 'asgi_ws': ws}
                        yield (), '', ex
                        yield ('Forwarded',), 'for=192.0.2.60;proto=https', ex
                        n1 += 1
                        yield ('X-Forwarded-For',), '192.0.2.60', dict(ex, asgi_oneshot=oneshot_subset(n1))
    if deep:
        for a, b, c in itertools.product(ar[:11], repeat=3):
            yield ('Accept',), ','.join((a, b, c)), None


ONESHOT_FIELDS = ['client', 'server', 'headers', 'subprotocols']


def oneshot_subset(i):
    """the i-th non-empty subset of the scope fields the ASGI spec calls iterables (15 of them, cycling)."""
    m = i % 15 + 1
    return [f for b, f in enumerate(ONESHOT_FIELDS) if m >> b & 1]


def decision_table(deep=True):
    """presence table of the forwarded family x remote position x scheme."""
    fwd_opts = [None, 'for=192.0.2.60;proto=https;host=fw.example', 'for=192.0.2.60', 'proto=http',
                'for=192.0.2.60, for=10.1.2.3', 'for=10.1.2.3, for=192.0.2.60', 'for=10.1.2.3', 'by=203.0.113.43',
                'host="fw.example:8443"']
    hosts = [None, 'h.example:8080', 'h.example']
    if not deep:
        fwd_opts, hosts = fwd_opts[:6], hosts[:2]
    for fw, xff, xri, xfp, xfh, host, scheme in itertools.product(
            fwd_opts, [None, '192.0.2.60', '192.0.2.60, 10.1.2.3', '10.1.2.3, 192.0.2.60'], [None, '198.51.100.17'],
            [None, 'HTTPS'], [None, 'xfh.example:8443'], hosts, ['http', 'https']):
        hs = []
        for n, v in (('Forwarded', fw), ('X-Forwarded-For', xff), ('X-Real-IP', xri), ('X-Forwarded-Proto', xfp),
                     ('X-Forwarded-Host', xfh), ('Host', host)):
            if v is not None:
                hs.append([n, v])
        yield hs, scheme


def atomic_case(names, value, extra, idx):
    c = base_case()
    r = random.Random(idx)
    c['scheme'] = 'https' if idx % 2 else 'http'
    c['server'] = [['falconframework.org', 80], ['falconframework.org', 443], ['localhost', 8000]][idx % 3]
    c['root_path'] = ['', '/api'][(idx // 2) % 2]
    c['path'] = ['/', '/items/7'][(idx // 3) % 2]
    c['query'] = ['', 'a=1&b=2'][(idx // 5) % 2]
    lines = None
    if extra:
        extra = dict(extra)
        lines = extra.pop('lines', None)
        c.update(extra)
    if lines is not None:
        c['headers'] = [[n, ln] for n in names for ln in lines]      # one field on several field lines
    else:
        c['headers'] = [[n, value] for n in names]
    if names and names[0] in ('Date', 'If-Modified-Since', 'If-Unmodified-Since'):
        c['tz'] = TZS[idx % len(TZS)]
    return finish_case(c, r)


# =====================================================================================
# driving
# =====================================================================================

def nontrivial(case):
    return any(v for _, v in case['headers']) or ':' in case['server'][0]


class Runner:
    def __init__(self, rec):
        self.rec = rec
        self.reported_known = set()
        self.shrunk = 0
        self.n = 0

    def merge(self, C):
        for k, v in C.items():
            self.rec.count(k, v)

    def report(self, case, findings):
        rec = self.rec
        for f in findings:
            known = f.get('known')
            if known is not None and known not in rec.known_keys:
                # proposed key not (yet) in known_findings.json: report once per shard, not 50 times
                if known in self.reported_known:
                    rec.count('proposed_known.' + known)
                    continue
                self.reported_known.add(known)
            w = {'case': case, 'finding': {k: v for k, v in f.items() if k != 'known'}}
            if known is None and self.shrunk < 3 and len(case['headers']) > 1:
                # the finding is decided and classified on the request exactly as generated ('case', which is
                # what --replay re-runs); the greedily reduced request is only a reading aid
                self.shrunk += 1
                w['shrunk_case'] = shrink(case, f)
            if known:
                w['proposed_known_key'] = known
            rec.violation(f['kind'] + ':' + family(f['accessor']), w, known_key=known)

    def run_case(self, case, do_e2e=False):
        with process_tz(case.get('tz')):
            return self._run_case(case, do_e2e)

    def _run_case(self, case, do_e2e=False):
        rec = self.rec
        if case.get('tz'):
            rec.count('tz.' + ('utc' if case['tz'] == 'UTC' else 'other') + '.cases')
        findings, C, BR, snaps = evaluate(case)
        self.merge(C)
        for b in BR:
            rec.count('branch.' + b)
        if do_e2e:
            f2, C2 = e2e(case, snaps, rec.rng, tainted=[(f['stack'], f['accessor']) for f in findings])
            self.merge(C2)
            findings += f2
        rec.case(repr((case['scheme'], case['server'], case['client'], case['root_path'], case['path'], case['query'],
                       case['headers'], case.get('asgi_no_server'), case.get('asgi_ws'), case.get('tz'),
                       case.get('wsgi_server_bracketed'), case.get('asgi_oneshot'))) if nontrivial(case) else None)
        self.n += 1
        if findings:
            self.report(case, findings)
        return findings


def shrink(case, f):
    """greedy: drop headers while the same monitor keeps firing on the same accessor."""
    def fires(c):
        fs, _, _, _ = evaluate(c, stacks=(f['stack'],))
        return any(g['kind'] == f['kind'] and g['accessor'] == f['accessor'] for g in fs)
    if f['kind'].startswith('e2e') or f['kind'].startswith('roundtrip'):
        return case
    cur = dict(case)
    for h in list(case['headers']):
        trial = dict(cur, headers=[x for x in cur['headers'] if x is not h])
        try:
            if fires(trial):
                cur = trial
        except AssertionError:
            pass
    return cur


# naive UTC wall times that do not exist / are ambiguous as LOCAL times in the DST zones above
DST_EDGE = ['2024-03-10T02:30:00', '2024-11-03T01:30:00', '2024-03-10T07:00:00', '2024-04-07T02:50:00',
            '2024-09-29T02:50:00', '1970-01-01T00:00:00', '2038-01-19T03:14:08']


def gen_roundtrip(rng, i=None):
    lm, ex = gen_dt(rng, lo=1000), gen_dt(rng, lo=1000)
    if rng.random() < 0.25:
        lm = datetime.datetime.fromisoformat(rng.choice(DST_EDGE))
    if rng.random() < 0.25:
        ex = datetime.datetime.fromisoformat(rng.choice(DST_EDGE))
    if rng.random() < 0.3:
        lm = lm.replace(microsecond=rng.randrange(1000000))
    pool = rng.choice(['abcxyz019', ETAGC, ',W/*\\;=ab'])
    opaque = ''.join(rng.choice(pool) for _ in range(rng.choice([1, 2, 3, 8])))
    form = rng.choice(['bare', 'quoted', 'weak', 'dumps', 'dumps_weak'])
    weak = form in ('weak', 'dumps_weak')
    if form == 'bare':
        if opaque.endswith('"'):
            opaque += 'x'
        etag_in = opaque
    elif form == 'quoted':
        etag_in = '"' + opaque + '"'
    elif form == 'weak':
        etag_in = 'W/"' + opaque + '"'
    else:
        t = ETag(opaque)
        t.is_weak = weak
        etag_in = t.dumps()
    rt = {'lm': lm.isoformat(), 'ex': ex.isoformat(), 'aware': rng.random() < 0.5, 'etag_in': etag_in,
          'etag_want': [opaque, weak], 'tz': rng.choice(TZS)}
    if i is not None:
        # deterministic sweep: every zone with naive and with aware datetimes
        rt['tz'] = TZS[i % len(TZS)]
        rt['aware'] = bool((i // len(TZS)) % 2)
    return rt


FLOORS_COMMON = {
    'stack.wsgi': 500, 'stack.asgi': 500,
    'mon.value.cl': 50, 'mon.value.range': 200, 'mon.value.date': 200, 'mon.value.etag': 200, 'mon.value.cookie': 200,
    'mon.value.forwarded': 100, 'mon.value.route': 200, 'mon.value.fscheme': 200, 'mon.value.fhost': 200,
    'mon.value.host': 400, 'mon.value.url': 500, 'mon.value.accept': 300, 'mon.value.lookup': 500,
    'mon.value.int': 100, 'mon.value.plain': 500,
    'mon.free.range': 100, 'mon.free.date': 100, 'mon.free.etag': 100, 'mon.free.cookie': 100, 'mon.free.forwarded': 50,
    'mon.free.host': 100, 'mon.free.route': 30, 'mon.free.accept': 50, 'mon.free.cl': 10,
    'mon.documented400.range': 20,
    'mon.repeat': 10000, 'mon.fresh_other_order': 10000, 'mon.fresh_alone': 5000,
    'mon.e2e.wsgi': 50, 'mon.e2e.asgi': 50, 'mon.e2e.status4xx': 10, 'mon.e2e.status200': 20,
    'mon.roundtrip.date': 100, 'mon.roundtrip.etag': 60,
    'mon.roundtrip.tz_other.naive': 40, 'mon.roundtrip.tz_other.aware': 40, 'mon.roundtrip.tz_utc.naive': 8,
    'tz.other.cases': 300,
    'oneshot.client': 60, 'oneshot.server': 60, 'oneshot.headers': 60, 'oneshot.subprotocols': 60,
    'raised.4xx.range': 20, 'raised.4xx.date': 20, 'raised.4xx.cl': 5,
}
BRANCH_FLOORS = [
    'range.int', 'range.open', 'range.suffix', 'range.multi', 'range.invalid', 'range.first_eq_last',
    'date.imf', 'date.rfc850', 'date.asctime', 'date.invalid',
    'etag.star', 'etag.single', 'etag.list', 'etag.weak', 'etag.comma_inside', 'etag.empty_opaque', 'etag.invalid',
    'cookie.valid', 'cookie.duplicate_name', 'cookie.quoted', 'cookie.empty_quoted', 'cookie.multi', 'cookie.invalid',
    'fwd.valid', 'fwd.multi_hop', 'fwd.ext_param', 'fwd.quoted_pair', 'fwd.ipv6_port', 'fwd.ipv6', 'fwd.obfnode',
    'fwd.obfport', 'fwd.invalid',
    'host.reg', 'host.ipv4', 'host.ipv6', 'host.port', 'host.noport', 'host.empty_port', 'host.invalid', 'host.absent',
    'host.absent_ipv6_bracketed', 'host.absent_ipv6_bare_default_port', 'host.absent_ipv6_bare_other_port',
    'multiline.if-match', 'multiline.if-none-match', 'multiline.accept', 'multiline.forwarded',
    'multiline.x-forwarded-for',
    'host.default_port_http', 'host.default_port_https', 'host.default_port_ws', 'host.default_port_wss',
    'ws.host_header', 'ws.no_host_header', 'netloc.server_default_port', 'netloc.server_other_port',
    'subdomain.some', 'subdomain.none', 'uri.composed', 'uri.with_query', 'uri.with_root_path',
    'fscheme.forwarded_proto', 'fscheme.forwarded_fallback', 'fscheme.xfp', 'fscheme.own',
    'fhost.forwarded_host', 'fhost.forwarded_fallback', 'fhost.xfh', 'fhost.own',
    'route.forwarded', 'route.xff', 'route.x_real_ip', 'route.remote_only', 'route.remote_is_last',
    'route.remote_appended',
    'accept.absent', 'accept.modelled', 'accept.unmodelled', 'accept.yes', 'accept.no', 'accept.q0',
    'accept.subtype_wildcard', 'cl.valid', 'cl.invalid',
]


def run(rec):
    rec.rule = ('abstract request = scheme/server/client/root_path/path/query + header list; each is read through '
                '~60 accessors on falcon.Request and falcon.asgi.Request (3 snapshots + memoised accessors alone on '
                'fresh objects) and judged against vlib/models/c09_headers.py. Part 1: bounded-exhaustive value '
                'spaces per header family (Range bodies over 8 pieces, Host forms x port forms, entity-tag atom '
                'sequences, boundary dates x 3 formats, cookie-pair sequences, Forwarded pair/hop products, Accept '
                'range products) and the presence table of the forwarded family, sharded by index. Part 2: random '
                'requests with ABNF-generated and mutated values. non-trivial = at least one non-empty header or an IPv6 server address; '
                'distinct by full abstract request')
    rec.assumptions = [
        'reference readers in vlib/models/c09_headers.py are correct readings of RFC 9110/6265/7239/3986',
        'date/if_modified_since/if_unmodified_since are documented as RFC 1123 only: obs-date forms are demanded '
        'only from get_header_as_datetime(obs_date=True); two-digit rfc850 years are demanded modulo 100',
        'a DQUOTE-wrapped cookie-value may be read with or without its quotes, but with ONE reading for all quoted '
        'values incl. the empty one (calibrated per stack on a non-empty canary); an IPv6 host with or without brackets',
        'Accept media-range parameters other than q, duplicate ranges and quoted strings are left to C11',
        'header values are latin-1 texts (PEP 3333 native strings / ASGI bytes); query strings are ASCII',
        'response round trip uses years 1000-9999 (strftime does not zero-pad smaller years); naive datetimes are '
        'UTC as documented; round trips and date cases run under several process time zones (TZ + time.tzset())',
        'a grammar-valid set of two or more ranges must raise a 4xx (documented for Request.range); "-0", last<first, '
        'empty list elements and second=60 are left open (value or 4xx)',
        'the e2e apps use a plain error serializer: negotiating the error body against Accept is error rendering '
        '(C04/C11), only the status code is monitored here',
        'ASGI scope shapes other than header values (client=None, empty client address) are outside the quantifier; '
        'client/server/headers/subprotocols may arrive as forward-only iterators (the spec promises iterables only)',
    ]
    R = Runner(rec)
    deep = rec.tier != 'quick'
    e2e_every = 7
    for f in calibrate_cookie_quoting():
        c = f.pop('case')
        R.report(c, [f])
    for stack in STACKS:
        rec.count('calibrated.cookie_quoting.' + M.QUOTED_COOKIE_READING.get(stack, 'none') + '.' + stack)
    idx = 0
    # ---- part 1a: per-family value spaces
    for names, value, extra in exhaustive_values(rec.tier):
        idx += 1
        if idx % rec.nshards != rec.shard:
            continue
        case = atomic_case(names, value, extra, idx)
        if not deep and (idx // rec.nshards) % 2 == 1:
            case['light'] = True      # quick tier: every other atomic request skips the fresh-object reads
        R.run_case(case, do_e2e=(idx // rec.nshards) % 23 == 0)
        if idx % 4001 == 0:
            rec.sample({'headers': case['headers'], 'scheme': case['scheme']})
    if rec.shard == 0:
        rec.count('exhaustive.values', idx)
    # ---- part 1b: decision table of the forwarded family
    for hs, scheme in decision_table(deep):
        idx += 1
        if idx % rec.nshards != rec.shard:
            continue
        c = base_case()
        c['scheme'] = scheme
        c['headers'] = hs
        c['root_path'] = '/api' if idx % 2 else ''
        c['query'] = 'a=1' if idx % 3 == 0 else ''
        if idx % 5 == 0:
            c['asgi_ws'] = True
        if (idx // rec.nshards) % 3 == 0:
            c['asgi_oneshot'] = oneshot_subset(idx // rec.nshards // 3)
        R.run_case(finish_case(c, random.Random(idx)), do_e2e=(idx // rec.nshards) % 23 == 0)
    rec.exhaustive = True
    if rec.shard == 0:
        rec.note('exhaustive part: %d atomic requests (all shards together)' % idx)
    # ---- part 1c: response -> request round trips
    rng = rec.rng
    for i in range(42 if not deep else 154):
        rt = gen_roundtrip(rng, i)
        f, C = roundtrip(rt)
        R.merge(C)
        rec.case(('rt', rt['lm'], rt['etag_in']))
        for x in f:
            rec.violation(x['kind'], {'roundtrip': rt, 'finding': {k: v for k, v in x.items() if k != 'known'}})
    # ---- part 2: random requests
    n = 0
    n_min = 400 if deep else 150          # per shard, independent of the machine's load
    while n < n_min or rec.budget_ok(0.8):
        for _ in range(25):
            case = random_case(rng, p_mut=rng.choice([0.0, 0.2, 0.5, 0.9]))
            R.run_case(case, do_e2e=(n % e2e_every == 0))
            n += 1
            if n <= 2:
                rec.sample({'headers': case['headers'], 'scheme': case['scheme'], 'client': case['client']})
        rt = gen_roundtrip(rng)
        f, C = roundtrip(rt)
        R.merge(C)
        for x in f:
            rec.violation(x['kind'], {'roundtrip': rt, 'finding': {k: v for k, v in x.items() if k != 'known'}})
    rec.count('random.cases', n)
    rec.floor('random.cases', 500 if not deep else 5000)
    for k, v in FLOORS_COMMON.items():
        rec.floor(k, v)
    for b in BRANCH_FLOORS:
        rec.floor('branch.' + b, 12)


def replay(rec, w):
    wit = w['witness']
    R = Runner(rec)
    if 'roundtrip' in wit:
        f, C = roundtrip(wit['roundtrip'])
        R.merge(C)
        for x in f:
            rec.violation(x['kind'], {'roundtrip': wit['roundtrip'], 'finding': {k: v for k, v in x.items() if k != 'known'}})
            print('REPLAY', x)
        rec.case(('rt', 1))
        rec.case(('rt', 2))
        return
    case = _unjson(wit['case'])
    for f in calibrate_cookie_quoting():
        print('REPLAY', f)
    fs = R.run_case(case, do_e2e=True)
    for f in fs:
        print('REPLAY', {k: v for k, v in f.items()})
    if not fs:
        print('REPLAY: no monitor fired')
    rec.case('replay-a')
    rec.case('replay-b')


def _unjson(case):
    """evidence files store bytes-free JSON; header values are latin-1 str already."""
    c = dict(case)
    c['headers'] = [[n, v] for n, v in case['headers']]
    for k in ('server', 'client'):
        if c.get(k) is not None:
            c[k] = list(c[k])
    return c
