"""C11 - content negotiation and media-handler resolution.  DESIGN.md section 4, C11.

Two monitors, both evaluated next to the real code on every generated case:

A. negotiation: falcon.mediatypes.quality / best_match and Request.client_accepts /
   client_prefers (WSGI and ASGI request objects) against an RFC 9110 level parser plus the
   documented 5-criteria order (vlib/models/c11_negotiation.py).  Malformed input: only the
   documented value errors (nothing at all out of client_*).
B. handler mapping histories: set/del/update/pop/popitem/setdefault/clear/copy/|=/|/copy.copy
   and default-type changes on falcon.media.Handlers mirrored on a plain dict; after every step
   every live mapping is resolved for a probe set through Handlers._resolve, req.get_media(),
   resp.media rendering (WSGI + ASGI apps, identity-stamping handlers) and the default error
   serializer, and compared with "exact key, else the same matching rule over the current keys,
   default for missing or */*, else 415".
"""

import copy as copymod
import itertools

import falcon
import falcon.asgi
from falcon import errors
from falcon import mediatypes
from falcon.media import Handlers
from falcon.media.base import BaseHandler

from vlib.drivers import asgi as A
from vlib.drivers import wsgi as W
from vlib.models import c11_negotiation as M

LEVEL = 'exploration'
SHARDS = {'quick': 4, 'thorough': 16}
BUDGET = {'quick': 15, 'thorough': 150}

K_QUOTED_COMMA = 'accept-quoted-comma-split'
K_BACKSLASH = 'quoted-value-trailing-backslash-swallows-params'
K_ACCEPTS_SHORTCUT = 'client-accepts-identical-string-shortcut'
K_EMPTY_COPY = 'handlers-copy-of-empty-gets-defaults'

# --------------------------------------------------------------------------------------------
# A. negotiation
# --------------------------------------------------------------------------------------------

R_BASE = ['*/*', 'text/*', 'text/plain', 'text/html', 'text/plain;a=1', 'text/plain;a=2',
          'text/plain;a=1;b=2', 'text/plain;b=2', 'text/*;a=1', '*/*;a=1', 'app/json']
Q_SET = {'quick': [None, '0', '0.5'], 'thorough': [None, '0', '0.5', '0.8', '1', '0.001']}
CANDS = ['text/plain', 'text/plain;a=1', 'text/plain;a=1;b=2', 'text/plain;a=2', 'text/plain;c=3',
         'text/html', 'text/html;a=1', 'app/json', 'image/png', 'text/*']


def _exc_allowed(exc, allowed):
    if not isinstance(exc, errors.InvalidMediaType):
        return False
    if tuple(allowed) == (M.MR,):
        return isinstance(exc, errors.InvalidMediaRange)
    return True


def _known_for(header, texts=(), naive_ok=None):
    """Narrow attribution to recorded parsing defects.

    naive_ok: None = not evaluated (request-level paths); else whether the observed outcome is what
    "split the list on every comma" yields - only then is a quoted-comma header attributed.
    """
    if M.has_quoted_comma(header) and naive_ok is not False:
        return K_QUOTED_COMMA
    if any(M.has_trailing_escaped_backslash(t) for t in (header,) + tuple(texts)):
        return K_BACKSLASH
    return None


def assess(fn, sp, got, exc, candidates=None):
    """None if the outcome is allowed by Spec sp, else (kind, want)."""
    if exc is not None:
        if not isinstance(exc, errors.InvalidMediaType):
            return 'undocumented-exception', None
        if sp.kind == 'value':
            return 'raised-on-valid-input', sp.value
        if not _exc_allowed(exc, sp.errors):
            return 'wrong-error-class', None
        return None
    if sp.kind == 'raise':
        return 'malformed-not-rejected', None
    if sp.kind in ('value', 'either'):
        if got != sp.value or type(got) is not type(sp.value):
            return fn + '-mismatch', sp.value
        return None
    # kind == 'any': only sanity of the result
    if fn == 'quality':
        if not (isinstance(got, float) and 0.0 <= got <= 1.0):
            return 'quality-not-a-quality', None
    elif got != '' and got not in candidates:
        return 'best_match-not-a-candidate', None
    return None


def judge(rec, fn, sp, got, exc, wit, header, candidates=None, texts=(), naive_sp=None):
    """Compare one observed outcome with what the statement allows (Spec)."""
    rec.count('mon.' + fn)
    rec.count('kind.' + sp.kind)
    for i in sp.info:
        rec.count('cls.' + i)
    if sp.why:
        rec.count('why.' + sp.why)
    bad = assess(fn, sp, got, exc, candidates)
    if bad is None:
        if exc is not None:
            rec.count('out.documented_error')
        return
    wit = dict(wit, fn=fn, spec=sp.kind, why=sp.why)
    if exc is not None:
        wit['exc'] = repr(exc)
    else:
        wit['got'] = got
    if bad[1] is not None:
        wit['want'] = bad[1]
    naive_ok = None
    if naive_sp is not None:
        naive_ok = assess(fn, naive_sp(), got, exc, candidates) is None
    rec.violation(bad[0], wit, known_key=_known_for(header, texts, naive_ok))


MUTATIONS = [
    lambda d: d.setdefault('charset', 'utf-8'),
    lambda d: d.update(q='0'),
    lambda d: d.clear(),
    lambda d: d.update(level='1', a='2'),
    lambda d: d.pop(next(iter(d)), None) if d else d.update(format='flowed'),
    lambda d: d.update((k, v + 'x') for k, v in list(d.items())),
]


def check_parse_header(rec, text, k=0):
    """Public parse_header(): documented result, and the dict handed out belongs to the caller -
    an application that edits it (params.setdefault('charset', ...)) must not change any later result.
    The later quality/best_match/resolution monitors run after these edits."""
    import copy as _copy
    want = M.ref_parse_header(text)
    fn = falcon.parse_header if k % 2 else mediatypes.parse_header
    try:
        got = fn(text)
    except Exception as ex:  # noqa
        rec.violation('parse_header-raised', {'fn': 'parse_header', 'text': text, 'exc': repr(ex)})
        return
    rec.count('mon.parse_header')
    ok_shape = isinstance(got, tuple) and len(got) == 2 and isinstance(got[0], str) and type(got[1]) is dict
    if not ok_shape or (want is not None and got != want):
        rec.violation('parse_header-mismatch', {'fn': 'parse_header', 'text': text, 'got': got, 'want': want},
                      known_key=K_BACKSLASH if M.has_trailing_escaped_backslash(text) else None)
        if not ok_shape:
            return
    first = (got[0], _copy.deepcopy(got[1]))
    rec.count('ph.with_options' if got[1] else 'ph.no_options')
    MUTATIONS[k % len(MUTATIONS)](got[1])          # the application edits what it was given
    try:
        again = fn(text)
    except Exception as ex:  # noqa
        rec.violation('parse_header-raised', {'fn': 'parse_header', 'text': text, 'exc': repr(ex), 'call': 2})
        return
    rec.count('mon.parse_header_owned')
    if again != first or again[1] is got[1]:
        rec.violation('parse_header-result-shared',
                      {'fn': 'parse_header', 'text': text, 'mutation': k % len(MUTATIONS), 'first': first,
                       'second_call': again, 'same_object': again[1] is got[1]})
    MUTATIONS[(k + 1) % len(MUTATIONS)](again[1])


def check_quality(rec, mt, header):
    sp = M.spec_quality(mt, header)
    got = exc = None
    try:
        got = mediatypes.quality(mt, header)
    except Exception as ex:  # noqa
        exc = ex
    judge(rec, 'quality', sp, got, exc, {'media_type': mt, 'header': header}, header, texts=(mt,),
          naive_sp=lambda: M.spec_quality(mt, header, naive=True))
    return sp


def check_best_match(rec, cands, header, iterable_kind=0):
    sp = M.spec_best_match(cands, header)
    arg = [list(cands), tuple(cands), iter(list(cands))][iterable_kind % 3]
    got = exc = None
    try:
        got = mediatypes.best_match(arg, header)
    except Exception as ex:  # noqa
        exc = ex
    judge(rec, 'best_match', sp, got, exc, {'candidates': list(cands), 'header': header}, header, cands,
          texts=tuple(cands), naive_sp=lambda: M.spec_best_match(cands, header, naive=True))
    # "a candidate whose best range has q=0 or no matching range is never chosen"
    if exc is None and got:
        qs = M.candidate_qualities(cands, header)
        if qs is not None and got in cands:
            rec.count('mon.never_chosen')
            if all(q == 0.0 for c, q in zip(cands, qs) if c == got):
                rec.violation('unacceptable-candidate-chosen',
                              {'fn': 'best_match', 'candidates': list(cands), 'header': header, 'got': got,
                               'qualities': qs},
                              known_key=_known_for(header, cands, assess(
                                  'best_match', M.spec_best_match(cands, header, naive=True), got, None, cands) is None))
    return sp


async def _no_receive():  # pragma: no cover
    return {'type': 'http.disconnect'}


def make_requests(header):
    """Request objects of both stacks carrying this Accept header (None = header absent)."""
    hs = [] if header is None else [('Accept', header)]
    out = []
    env = W.make_environ('GET', '/', '', headers=hs)
    out.append(('wsgi', falcon.Request(env)))
    scope = A.make_scope('GET', '/', '', headers=hs)
    out.append(('asgi', falcon.asgi.Request(scope, _no_receive)))
    return out


def _accepts_ok(sp, got):
    if sp.kind == 'value':
        return got is (sp.value != 0.0)
    if sp.kind == 'either':
        return got is False or got is (sp.value != 0.0)
    return isinstance(got, bool)


def _prefers_ok(sp, got, cands):
    want = (sp.value or None) if sp.kind in ('value', 'either') else None
    if sp.kind == 'value':
        return got == want and (got is None or type(got) is str)
    if sp.kind == 'either':
        return got is None or got == want
    return got is None or got in cands


def check_client(rec, header, cands):
    """client_accepts / client_prefers on both stacks: equal to the oracle, never raise."""
    effective = header if header else '*/*'
    try:
        effective.encode('latin-1')
    except UnicodeEncodeError:
        return
    for stack, req in make_requests(header):
        for mt in cands:
            sp = M.spec_quality(mt, effective)
            try:
                got = req.client_accepts(mt)
            except Exception as ex:  # noqa
                rec.violation('client_accepts-raised', {'fn': 'client_accepts', 'stack': stack, 'header': header,
                                                        'media_type': mt, 'exc': repr(ex)})
                continue
            rec.count('mon.client_accepts.' + stack)
            if not _accepts_ok(sp, got):
                naive_ok = _accepts_ok(M.spec_quality(mt, effective, naive=True), got)
                if got is True and effective == mt:
                    # Request.client_accepts() answers True for accept == media_type before looking at q
                    rec.violation('client_accepts-mismatch',
                                  {'fn': 'client_accepts', 'stack': stack, 'header': header, 'media_type': mt,
                                   'got': got, 'want_quality': sp.value, 'spec': sp.kind},
                                  known_key=K_ACCEPTS_SHORTCUT)
                    continue
                rec.violation('client_accepts-mismatch',
                              {'fn': 'client_accepts', 'stack': stack, 'header': header, 'media_type': mt,
                               'got': got, 'want_quality': sp.value, 'spec': sp.kind},
                              known_key=_known_for(effective, [mt], naive_ok))
        sp = M.spec_best_match(cands, effective)
        try:
            got = req.client_prefers(list(cands))
        except Exception as ex:  # noqa
            rec.violation('client_prefers-raised', {'fn': 'client_prefers', 'stack': stack, 'header': header,
                                                    'candidates': list(cands), 'exc': repr(ex)})
            continue
        rec.count('mon.client_prefers.' + stack)
        ok = _prefers_ok(sp, got, cands)
        if ok and got is not None:
            # "a candidate whose best range has q=0 or no matching range is never chosen"
            qs = M.candidate_qualities(cands, effective)
            if qs is not None and all(q == 0.0 for c, q in zip(cands, qs) if c == got):
                ok = False
        if not ok:
            naive_ok = _prefers_ok(M.spec_best_match(cands, effective, naive=True), got, cands)
            rec.violation('client_prefers-mismatch',
                          {'fn': 'client_prefers', 'stack': stack, 'header': header, 'candidates': list(cands),
                           'got': got, 'want': (sp.value or None) if sp.kind in ('value', 'either') else None,
                           'spec': sp.kind}, known_key=_known_for(effective, cands, naive_ok))


def exhaustive_negotiation(rec):
    qs = Q_SET[rec.tier]
    atoms = [r if q is None else r + ';q=' + q for r in R_BASE for q in qs]
    idx = 0
    pairs = list(itertools.product(CANDS[:9], repeat=2)) + list(itertools.permutations(CANDS[:5], 3))
    for L in (1, 2, 3):
        for tup in itertools.product(atoms, repeat=L):
            idx += 1
            if idx % rec.nshards != rec.shard:
                continue
            header = ', '.join(tup) if idx % 3 else ','.join(tup)
            nontrivial = False
            if (idx // rec.nshards) % 5 == 0:
                # an application parses (and edits the options of) a range and a media type now and then
                check_parse_header(rec, tup[idx % L], idx)
                check_parse_header(rec, CANDS[idx % len(CANDS)], idx // 3)
            # quick: 3-range headers against a rotating half of the media types
            mts = CANDS if (L < 3 or rec.tier != 'quick') else CANDS[idx % 2::2]
            for mt in mts:
                sp = check_quality(rec, mt, header)
                if 'multi' in sp.info:
                    nontrivial = True
            rec.case(('q', header) if nontrivial else None)
            if L <= 2:
                # best_match over ordered candidate lists (a rotating slice for 2-range headers)
                step = 1 if L == 1 else 7
                for j in range(idx % step, len(pairs), step):
                    check_best_match(rec, pairs[j], header, iterable_kind=j)
                rec.case(('bm', header))
            if idx % 41 == 0:
                check_client(rec, header, CANDS[idx % 3::3])
            if idx % 20011 == 0:
                rec.sample({'header': header, 'quality': {mt: mediatypes.quality(mt, header) for mt in CANDS[:4]}})
    # every hostile member next to every atom, both orders (deterministic cover of the non-strict classes)
    hostile = LENIENT_MEMBERS + GARBAGE_MEMBERS + REJECT_MEMBERS + \
        ['text/plain;q=' + q for q in Q_LENIENT + Q_REJECT] + ['text/plain;x="a,b";q=0.5', 'text/plain;x="a;q=0";q=0.5']
    for a in atoms:
        for hm in hostile:
            idx += 1
            if idx % rec.nshards != rec.shard:
                continue
            header = (a + ', ' + hm) if idx % 2 else (hm + ',' + a)
            for mt in CANDS[idx % 2::2]:
                check_quality(rec, mt, header)
            check_best_match(rec, CANDS[idx % 4:idx % 4 + 3], header, iterable_kind=idx)
            if '"' in header:
                rec.count('cls.quoted_param')
            if idx % 5 == 0:
                check_client(rec, header, CANDS[:2])
            rec.case(('hq', header))
    # media types (candidates) that are unusual but have one reading: blanks round the slash; a parameter that
    # happens to be called q (on a media type it is an ordinary, hence extraneous, parameter); and a candidate
    # spelled byte for byte like the whole Accept header
    for a in atoms:
        idx += 1
        if idx % rec.nshards != rec.shard:
            continue
        bare = a.split(';q=')[0]
        for c in SPECIAL_CANDS + [a, bare]:
            check_quality(rec, c, a)
            rec.count('cls.special_candidate')
        for lst in ([a], [bare, a], [a, bare], ['image/png', a, bare], [SPECIAL_CANDS[idx % len(SPECIAL_CANDS)], bare]):
            check_best_match(rec, lst, a, iterable_kind=idx)
        check_client(rec, a, [a, bare, SPECIAL_CANDS[idx % len(SPECIAL_CANDS)]])
        for b in atoms[idx % 7::7]:
            h2 = a + ', ' + b
            check_quality(rec, h2, h2)          # not a media type: only "documented error or a quality"
            check_best_match(rec, [h2, bare], h2, iterable_kind=idx)
        rec.case(('self', a))
    rec.count('exh.headers', idx // rec.nshards)


def exhaustive_many_params(rec):
    """Candidates and ranges with 0..12 shared parameters competing across the specificity levels
    (exact type/subtype, wildcard subtype, */*), so that no count of matching parameters - however large -
    may outrank a more important criterion."""
    NP = 12
    names = ['p%d' % i for i in range(NP)]

    def params(k, extra=False, rev=False):
        ps = ['%s=v%d' % (names[i], i) for i in range(k)]
        if rev:
            ps.reverse()
        if extra:
            ps.append('zz=1')
        return ''.join(';' + x for x in ps)
    cands = ['text/plain' + params(NP), 'text/plain' + params(10, rev=True), 'text/plain' + params(9),
             'text/plain' + params(NP) + ';other=1', 'text/plain']
    levels = ['text/plain', 'text/*', '*/*']
    forms = []
    for lv in levels:
        for k in range(NP + 1):
            forms.append(lv + params(k, rev=bool(k % 2)))
        for k in (0, 9, 10, 12):
            forms.append(lv + params(k, extra=True))
    idx = 0
    qpairs = [('0.2', '0.9'), ('0', '0.9'), ('0.9', '0'), ('0.5', '0.5')]
    for i, f1 in enumerate(forms):
        for j, f2 in enumerate(forms):
            if f1.split(';')[0] == f2.split(';')[0] and (i + j) % 3:
                continue                 # same level: a third of the pairs is enough
            idx += 1
            if idx % rec.nshards != rec.shard:
                continue
            q1, q2 = qpairs[idx % len(qpairs)]
            header = '%s;q=%s, %s;q=%s' % (f1, q1, f2, q2)
            if idx % 5 == 0:
                header += ', */*;q=0.1'
            for c in cands:
                check_quality(rec, c, header)
            rec.count('cls.many_params')
            check_best_match(rec, [cands[4], cands[idx % 4], 'image/png'], header, iterable_kind=idx)
            check_best_match(rec, ['image/png', cands[(idx + 1) % 4]], header, iterable_kind=idx + 1)
            if idx % 9 == 0:
                check_client(rec, header, [cands[idx % 4], cands[4]])
            rec.case(('mp', header))


SPECIAL_CANDS = ['text/ plain', 'text /plain;a=1', ' text / html', 'text/\tplain;a=2', 'text/plain;q=0', 'text/plain;q=0.5',
                 'text/plain;a=1;q=0', 'text/html;Q=1', 'text/plain; q=0']


# ---- random grammar-driven generator

TYPES = ['text', 'application', 'image', 'x-a', 'a.b+c', "t!#$%&'+-.^_`|~9"]
SUBS = ['plain', 'html', 'json', 'xml', 'vnd.x+json', 'x', "s!#$^_`|~"]
PNAMES = ['charset', 'level', 'format', 'a', 'b', 'version', 'profile']
PVALS = ['1', '2', 'utf-8', 'UTF-8', 'flowed', 'fixed', 'a b', 'a;b', 'a=b', 'a"b', 'a\\b', '', 'x/y', 'q=0',
         'a;q=0.1', 'b\\', '"', ';']
PVALS_COMMA = ['a,b', ',', 'x, text/html']
Q_STRICT = [None, None, None, '0', '0.', '0.0', '0.000', '0.5', '0.25', '0.125', '0.001', '0.999', '0.9', '0.3',
            '1', '1.', '1.0', '1.000', '0.7', '0.50']
Q_LENIENT = ['0.1234', '.5', '1e-1', '+0.5', '0.5e0', '1.0000', '0.00001', '00.5', '5e-1']
Q_REJECT = ['1.001', '2', '-0.1', 'high', 'nan', 'inf', '-inf', '', '1337.0', '1.5', '-1']
GARBAGE_MEMBERS = ['text/', '/plain', 'te xt/plain', 'text/plain;x', 'text/plain;x=', 'text/plain;=1', 'text/pl@in',
                   'a/b/c', 'text/plain;x="unterminated', 'text/plain;q=0.5;x=1', 'TEXT/Plain', 'text/pla*n',
                   'text/plain;a=1;a=2', 'text/plain;x="a\\bc"', 'text/plain;q="0.5"', 'text/plain;q=0x1',
                   't\xe9xt/plain', 'text/plain;q=0.5;q=0.2']
REJECT_MEMBERS = ['garbage', 'text', 'word document', 'text;q=0.5', '**']
LENIENT_MEMBERS = ['', ' ', '*', '*;q=0.5', 'text/plain; a = 1', 'text/html;level= 1',
                   'text/ plain;q=0.7', 'text /html;q=0', '* / *;q=0.2', 'text / *;q=0.3', 'text/\tplain;a=1']


def _sep(rng):
    return rng.choice([';', ';', '; ', ' ;', ' ; ', ';\t', ';;', '; ;'])


def _render_value(rng, v, force_quote=False):
    if M.is_token(v) and not force_quote and rng.random() < 0.7:
        return v
    return '"' + v.replace('\\', '\\\\').replace('"', '\\"') + '"'


def _render(rng, main, sub, params, qtext):
    s = main + '/' + sub
    for n, v in params:
        if rng.random() < 0.15:
            n = n.upper() if rng.random() < 0.5 else n.capitalize()
        s += _sep(rng) + n + '=' + _render_value(rng, v)
    if qtext is not None:
        s += _sep(rng) + rng.choice(['q', 'q', 'Q']) + '=' + qtext
    if rng.random() < 0.05:
        s += ';'
    return s


def gen_case(rng, hostile):
    """-> (header, candidates, clean) clean: built only from grammar-valid pieces."""
    types = rng.sample(TYPES, rng.choice([1, 1, 2]))
    subs = rng.sample(SUBS, rng.choice([1, 2, 2, 3]))
    pnames = rng.sample(PNAMES, rng.choice([0, 1, 2, 2, 3]))
    pvals = rng.sample(PVALS, 2) if rng.random() < 0.5 else ['1', '2']
    comma = hostile and rng.random() < 0.15
    if comma:
        pvals = pvals + [rng.choice(PVALS_COMMA)]
    clean = not comma
    nr = rng.choice([1, 2, 2, 3, 3, 4, 5, 6, 8])
    ranges = []
    for _ in range(nr):
        r = rng.random()
        if r < 0.12:
            main, sub = '*', '*'
        elif r < 0.32:
            main, sub = rng.choice(types), '*'
        elif r < 0.36:
            main, sub = '*', rng.choice(subs)
        else:
            main, sub = rng.choice(types), rng.choice(subs)
        k = rng.choice([0, 0, 1, 1, 2, 3]) if pnames else 0
        ps = [(n, rng.choice(pvals)) for n in rng.sample(pnames, min(k, len(pnames)))]
        q = rng.choice(Q_STRICT)
        if hostile and rng.random() < 0.12:
            q = rng.choice(Q_LENIENT + Q_REJECT[:5] if rng.random() < 0.7 else Q_REJECT)
            clean = False
        ranges.append((main, sub, ps, q))
    if rng.random() < 0.25 and ranges:
        ranges.append(rng.choice(ranges))          # duplicate range
        m, s, ps, _ = rng.choice(ranges)
        ranges.append((m, s, ps, rng.choice(Q_STRICT)))   # same range, other weight
    rng.shuffle(ranges)
    members = [_render(rng, *r) for r in ranges]
    if hostile and rng.random() < 0.5:
        pool = rng.choice([LENIENT_MEMBERS, LENIENT_MEMBERS, GARBAGE_MEMBERS, REJECT_MEMBERS])
        members.insert(rng.randrange(len(members) + 1), rng.choice(pool))
        clean = False
    header = ''
    for i, m in enumerate(members):
        if i:
            header += rng.choice([',', ', ', ', ', ' ,', ' , ', ',\t'])
        header += m
    if rng.random() < 0.05:
        header = ' ' + header + ' '
    # candidates: variations of the ranges so that several ranges match at different specificity
    cands = []
    for _ in range(rng.choice([1, 2, 3, 3, 4, 6])):
        main, sub, ps, _q = rng.choice(ranges)
        if main == '*':
            main = rng.choice(types + ['image'])
        if sub == '*':
            sub = rng.choice(subs + ['png'])
        ps = list(ps)
        r = rng.random()
        if r < 0.25 and ps:
            ps.pop(rng.randrange(len(ps)))
        elif r < 0.45 and pnames:
            n = rng.choice(pnames)
            ps = [(a, b) for a, b in ps if a != n] + [(n, rng.choice(pvals))]
        elif r < 0.55:
            ps.append(('extra', '9'))
        elif r < 0.62:
            ps = []
        c = _render(rng, main, sub, ps, None)
        r = rng.random()
        if r < 0.04:
            c = main + '/*'
        elif r < 0.06:
            c = '*/*'
        elif hostile and r < 0.10:
            c = rng.choice(['text', '', 'garbage', 'Text/Plain', 'text/plain;q=0.5', 'a/b/c'])
            clean = False
        elif hostile and r < 0.16:
            c = c.replace('/', rng.choice([' /', '/ ', ' / ', '/\t']), 1)      # blanks round the slash
            clean = False
        elif hostile and r < 0.20 and ',' not in header:
            c = header                                                           # spelled like the whole header
            clean = False
        cands.append(c)
    return header, cands, clean


def random_negotiation(rec, rng, n):
    for i in range(n):
        hostile = rng.random() < 0.45
        header, cands, clean = gen_case(rng, hostile)
        nontrivial = False
        kinds = set()
        members = M.split_top(header, ',')[0]
        check_parse_header(rec, members[i % len(members)], i)
        check_parse_header(rec, cands[i % len(cands)], i + 3)
        for mt in cands:
            sp = check_quality(rec, mt, header)
            kinds.add(sp.kind)
            if 'multi' in sp.info or sp.kind != 'value':
                nontrivial = True
        sp = check_best_match(rec, cands, header, iterable_kind=i)
        kinds.add(sp.kind)
        if rng.random() < 0.2:
            check_best_match(rec, [], header)
        if clean:
            rec.count('gen.clean')
            if kinds != {'value'}:
                # generator and RFC-level parser disagree on a grammar-valid text: harness bug
                rec.count('gen.clean_not_strict')
                rec.note('oracle self-check: %r %r -> %r' % (header, cands, sorted(kinds)))
        if M.has_quoted_comma(header):
            rec.count('cls.quoted_comma')
        if '"' in header:
            rec.count('cls.quoted_param')
        if rng.random() < 0.35:
            check_client(rec, header, cands)
        rec.case(('rq', header, tuple(cands)) if nontrivial else None)
        if i < 2:
            rec.sample({'header': header, 'candidates': cands, 'best_match_spec': [sp.kind, sp.value]})
    # HTTP level specials: absent / empty Accept
    check_client(rec, None, CANDS[:3])
    check_client(rec, '', CANDS[:3])


# --------------------------------------------------------------------------------------------
# B. handler mapping histories
# --------------------------------------------------------------------------------------------

class Stamp(BaseHandler):
    """Media handler whose output identifies the handler object."""

    def __init__(self, hid):
        self.hid = hid
        self.tag = 'S%d' % hid

    def serialize(self, media, content_type):
        return self.tag.encode()

    def deserialize(self, stream, content_type, content_length):
        stream.read()
        return self.tag

    def __repr__(self):
        return '<%s>' % self.tag


class FastStamp(Stamp):
    """Same, with the sync fast-path attributes the ASGI stack prefers."""

    def __init__(self, hid):
        super().__init__(hid)
        tag = self.tag
        self._serialize_sync = lambda media: tag.encode()
        self._deserialize_sync = lambda data: tag


class ReKey(str):
    """A str key that runs a callback whenever the mapping hashes it, i.e. INSIDE a mutating operation
    (single-threaded re-entrancy): used to resolve content types while a set/del/update/pop is in progress."""

    hook = None

    def __hash__(self):
        cb = ReKey.hook
        if cb is not None:
            ReKey.hook = None          # no recursion
            try:
                cb()
            finally:
                ReKey.hook = cb
        return str.__hash__(self)

    __eq__ = str.__eq__


class Fault(Exception):
    def __repr__(self):
        return 'Fault()'


class BaseFault(BaseException):
    """An interruption that is not an Exception (like KeyboardInterrupt), of a class nobody knows about."""


def fault_class(name):
    """What cuts the operation short: an ordinary Exception, or a BaseException that is not one
    (the caller survives it: a cancelled task that is retried, Ctrl-C caught by a REPL/worker loop)."""
    import asyncio
    return {'Fault': Fault, 'KeyboardInterrupt': KeyboardInterrupt, 'CancelledError': asyncio.CancelledError,
            'SystemExit': SystemExit, 'GeneratorExit': GeneratorExit, 'BaseFault': BaseFault}[name]


FAULT_NAMES = ['Fault', 'KeyboardInterrupt', 'CancelledError', 'SystemExit', 'GeneratorExit', 'BaseFault']


def faulty_argument(form, pairs, n, Fault=Fault):
    """An update()/|= argument that delivers n good items and then fails with Fault()."""
    if form == 'gen':
        def g():
            for p in pairs[:n]:
                yield p
            raise Fault()
        return g()
    if form == 'badpair':
        return list(pairs[:n]) + [('not', 'a', 'pair')] + list(pairs[n:])
    d = dict(pairs)
    order = list(d)
    if form == 'mapping':
        import collections.abc

        class FaultyMapping(collections.abc.Mapping):
            def __iter__(self):
                return iter(order + ['x/fault'])

            def __len__(self):
                return len(order) + 1

            def __getitem__(self, k):
                if k == 'x/fault' or order.index(k) >= n:
                    raise Fault()
                return d[k]
        return FaultyMapping()
    if form == 'keys':
        class FaultyKeys:
            def keys(self):
                return order + ['x/fault']

            def __getitem__(self, k):
                if k == 'x/fault' or order.index(k) >= n:
                    raise Fault()
                return d[k]
        return FaultyKeys()
    raise ValueError(form)


def tag_of(h):
    if h is M.NOT_FOUND or h is None:
        return h
    return getattr(h, 'tag', repr(h))


class _WsgiRes:
    def on_post(self, req, resp):
        resp.content_type = 'text/plain'
        resp.text = str(req.get_media())

    def on_get(self, req, resp):
        ct = req.get_header('X-CT')
        if ct is not None:
            resp.content_type = ct
        resp.media = {'a': 1}

    def on_put(self, req, resp):
        raise falcon.HTTPConflict(title='conflict')


class _AsgiRes:
    async def on_post(self, req, resp):
        resp.content_type = 'text/plain'
        resp.text = str(await req.get_media())

    async def on_get(self, req, resp):
        ct = req.get_header('X-CT')
        if ct is not None:
            resp.content_type = ct
        resp.media = {'a': 1}

    async def on_put(self, req, resp):
        raise falcon.HTTPConflict(title='conflict')


class World:
    def __init__(self):
        self.wsgi = falcon.App()
        self.wsgi.add_route('/', _WsgiRes())
        self.asgi = falcon.asgi.App()
        self.asgi.add_route('/', _AsgiRes())

    def point(self, stack, hobj, default):
        app = self.wsgi if stack == 'wsgi' else self.asgi
        app.req_options.media_handlers = hobj
        app.resp_options.media_handlers = hobj
        app.req_options.default_media_type = default
        app.resp_options.default_media_type = default
        return app

    def request(self, stack, method, headers, body=b''):
        if stack == 'wsgi':
            env = W.make_environ(method, '/', '', headers=headers, body=body)
            res = W.run_wsgi(self.wsgi, env)
            return res.status, res.body, res.header('content-type'), res.exc, res.problems
        scope = A.make_scope(method, '/', '', headers=headers + ([('Content-Length', str(len(body)))] if body else []))
        res = A.run_asgi_http(self.asgi, scope, events=A.body_events(body))
        exc = res.exc if res.outcome == 'raised' else (None if res.outcome == 'done' else res.outcome)
        return res.status, res.body, res.header('content-type'), exc, res.problems

    def resolve_public(self, stack, side, hobj, default, ct):
        """-> tag | '415' | ('odd', ...)"""
        self.point(stack, hobj, default)
        if side == 'req':
            hs = [] if ct is None else [('Content-Type', ct)]
            status, body, _, exc, problems = self.request(stack, 'POST', hs, b'x')
        else:
            hs = [] if ct is None else [('X-CT', ct)]
            status, body, _, exc, problems = self.request(stack, 'GET', hs)
        if exc is not None:
            return ('escaped', repr(exc))
        if status == 415:
            return M.NOT_FOUND
        if status == 200:
            return body.decode('latin-1')
        return ('odd', status, body[:80])


class Live:
    """One live falcon Handlers object + its dict model."""

    def __init__(self, obj, model, origin='new', source=None):
        self.obj, self.model, self.origin, self.source = obj, model, origin, source
        self.prev_expect = {}
        self.dead = False


class History:
    """Interprets a JSON-able op list on real Handlers objects and dict models in lock-step."""

    def __init__(self, rec, world, init, default, probes, public=True, errser_accept=None, public_per_sweep=None):
        self.rec, self.world = rec, world
        self.init, self.default0 = init, default
        self.default = default
        self.probes = probes
        self.public = public
        self.errser_accept = errser_accept or []
        self.public_per_sweep = public_per_sweep      # None: every probe goes through the public paths too
        self.hid = 0
        self.ops_done = []
        self.changed = 0
        self.last_kind = 'init'
        model = {}
        for key, fast in init:
            model[key] = self.new_handler(fast)
        self.lives = [Live(Handlers(dict(model)) if model else Handlers({'x/placeholder': Stamp(-1)}), model)]
        if not model:
            # Handlers({}) means "the defaults" by documented constructor behaviour: start from one key and delete it
            del self.lives[0].obj['x/placeholder']

    def new_handler(self, fast):
        self.hid += 1
        return (FastStamp if fast else Stamp)(self.hid)

    def witness(self, **kw):
        w = {'history': {'init': self.init, 'default': self.default0, 'ops': list(self.ops_done),
                         'probes': self.probes, 'errser_accept': self.errser_accept}}
        w.update(kw)
        return w

    # ---- classification of already observed defects (narrow: by mechanism)
    def classify(self, live, got_tag, ct, default=None):
        default = self.default if default is None else default
        eff = default if (not ct or ct == '*/*') else ct
        if M.has_quoted_comma(eff) and tag_of(M.resolve_model(live.model, ct, default, naive=True)) in (got_tag, None):
            return K_QUOTED_COMMA
        # (the |=, failing |= and copy.copy() defects found earlier are repaired in falcon: a regression of any of
        #  them is an ordinary violation, nothing is attributed to them any more)
        return None

    # ---- ops
    def apply(self, op):
        rec = self.rec
        self.ops_done.append(op)
        kind = op[0]
        self.last_kind = kind
        rec.count('op.' + kind)
        if kind == 'default':
            self.default = op[1]
            return
        lives = [lv for lv in self.lives if not lv.dead]
        live = lives[op[1] % len(lives)]
        obj, model = live.obj, live.model
        real = want = None
        new_live = None
        # trailing 're': the real mapping gets ReKey keys and every probe is resolved each time the
        # mapping hashes one of them, i.e. in the middle of the operation
        re_entrant = op[-1] == 're'
        rk = ReKey if re_entrant else str

        def resolve_inside():
            for ct in self.probes:
                rec.count('res.reentrant')
                try:
                    obj._resolve(ct, self.default)
                except falcon.HTTPUnsupportedMediaType:
                    pass
                except Exception as ex:  # noqa
                    rec.violation('resolve-raised', self.witness(op=op, probe=ct, path='direct-reentrant',
                                                                 exc=repr(ex)))

        def both(f_real, f_model):
            nonlocal real, want
            ReKey.hook = resolve_inside if re_entrant else None
            try:
                real = ('ok', f_real())
            except KeyError:
                real = ('KeyError', None)
            except Exception as ex:  # noqa
                real = ('exc', repr(ex))
            finally:
                ReKey.hook = None
            try:
                want = ('ok', f_model())
            except KeyError:
                want = ('KeyError', None)

        if kind == 'set':
            h = self.new_handler(op[3])
            both(lambda: obj.__setitem__(rk(op[2]), h), lambda: model.__setitem__(op[2], h))
        elif kind == 'del':
            both(lambda: obj.__delitem__(rk(op[2])), lambda: model.__delitem__(op[2]))
        elif kind == 'update':
            d = {k: self.new_handler(op[3]) for k in op[2]}
            dr = {rk(k): v for k, v in d.items()}
            if op[4] == 'pairs':
                both(lambda: obj.update(list(dr.items())), lambda: model.update(d))
            else:
                both(lambda: obj.update(dr), lambda: model.update(d))
        elif kind == 'pop':
            if op[3]:
                both(lambda: obj.pop(rk(op[2]), 'dflt'), lambda: model.pop(op[2], 'dflt'))
            else:
                both(lambda: obj.pop(rk(op[2])), lambda: model.pop(op[2]))
        elif kind == 'popitem':
            try:
                k, v = obj.popitem()
                real = ('ok', None)
                if k in model and model[k] is v:
                    del model[k]
                    want = ('ok', None)
                else:
                    want = ('ok', 'popitem returned a pair that is not in the mapping: %r' % ((k, v),))
            except KeyError:
                real = ('KeyError', None)
                want = ('KeyError', None) if not model else ('ok', None)
        elif kind == 'setdefault':
            h = self.new_handler(op[3])
            both(lambda: obj.setdefault(rk(op[2]), h), lambda: model.setdefault(op[2], h))
        elif kind == 'clear':
            both(obj.clear, model.clear)
        elif kind == 'ior':
            d = {k: self.new_handler(op[3]) for k in op[2]}

            def f():
                o = obj
                o |= d
                return o is obj
            both(f, lambda: model.update(d) or True)     # a completed |= invalidates like any other mutation
        elif kind in ('update_fail', 'ior_fail'):
            # a mutation that fails after it may have changed part of the mapping; the caller handles the error.
            # op = [kind, i, keys, fast, form, n(, exception class name)]: the argument yields n good pairs, then fails.
            pairs = [(k, self.new_handler(op[3])) for k in op[2]]
            n = min(op[5], len(pairs))
            fcls = fault_class(op[6] if len(op) > 6 else 'Fault')
            arg = faulty_argument(op[4], pairs, n, fcls)
            before = dict(model)
            try:
                if kind == 'update_fail':
                    obj.update(arg)
                else:
                    o = obj
                    o |= arg
                real = ('ok', None)
            except BaseException as ex:  # noqa  (only what the argument built above raises can arrive here)
                real = ('raised', type(ex).__name__)
            want = ('raised', real[1] if op[4] == 'badpair' else fcls.__name__)
            rec.count('op.fail.' + op[4])
            rec.count('op.fail.exception' if issubclass(fcls, Exception) or op[4] == 'badpair' else 'op.fail.base_exception')
            # how much was applied before the failure is the implementation's business (item by item: the
            # first n; validate-first: none): any prefix is accepted and becomes the current mapping
            items = [(k, id(v)) for k, v in obj.items()]
            for k in range(n, -1, -1):
                cand = dict(before)
                cand.update(pairs[:k])
                if [(a, id(b)) for a, b in cand.items()] == items:
                    model.clear()
                    model.update(cand)
                    rec.count('op.fail.applied_%s' % ('some' if k else 'none'))
                    break
        elif kind in ('copy', 'copycopy', 'or', 'ror'):
            try:
                if kind == 'copy':
                    nobj, nmodel = obj.copy(), dict(model)
                elif kind == 'copycopy':
                    nobj, nmodel = copymod.copy(obj), dict(model)
                else:
                    d = {k: self.new_handler(op[3]) for k in op[2]}
                    if kind == 'or':
                        nobj, nmodel = obj | d, {**model, **d}
                    else:
                        nobj, nmodel = d | obj, {**d, **model}
                real = want = ('ok', None)
                if type(nobj) is not Handlers or nobj is obj:
                    real = ('ok', 'result is %s' % type(nobj).__name__)
                new_live = Live(nobj, nmodel, kind, live)
            except Exception as ex:  # noqa
                real, want = ('exc', repr(ex)), ('ok', None)
        else:
            raise ValueError('unknown op %r' % (op,))
        if real != want:
            rv = real if real[0] != 'ok' else ('ok', tag_of(real[1]) if isinstance(real[1], BaseHandler) else real[1])
            wv = want if want[0] != 'ok' else ('ok', tag_of(want[1]) if isinstance(want[1], BaseHandler) else want[1])
            if rv != wv:
                rec.violation('mapping-op-mismatch', self.witness(op=op, got=rv, want=wv))
        rec.count('mon.op_result')
        if new_live is not None:
            self.lives.append(new_live)
            if len([lv for lv in self.lives if not lv.dead]) > 3:
                # keep the original and the two most recent
                for lv in self.lives[1:]:
                    if not lv.dead:
                        lv.dead = True
                        break
        # the mapping itself must agree with the model (keys, order, identities)
        for lv in self.lives:
            if lv.dead:
                continue
            rec.count('mon.mapping_state')
            if [(k, id(v)) for k, v in lv.obj.items()] != [(k, id(v)) for k, v in lv.model.items()]:
                known = None
                if lv.origin in ('copy', 'copycopy', 'or', 'ror') and not lv.model and lv is new_live:
                    known = K_EMPTY_COPY
                rec.violation('mapping-state-mismatch',
                              self.witness(op=op, got=[(k, tag_of(v)) for k, v in lv.obj.items()],
                                           want=[(k, tag_of(v)) for k, v in lv.model.items()], origin=lv.origin),
                              known_key=known)
                lv.dead = True       # do not let one report cascade

    # ---- resolutions
    def sweep(self, step):
        rec, world = self.rec, self.world
        lives = [lv for lv in self.lives if not lv.dead]
        for li, live in enumerate(lives):
            pt = self.probes[(step + li) % len(self.probes)] or self.default
            check_parse_header(rec, pt, step + li)
            for ct in self.probes:
                allowed, cls = M.resolve_allowed(live.model, ct, self.default)
                rec.count('res.cls.' + cls)
                want = allowed[0]
                wtag = tag_of(want) if cls != 'undecided' else 'any-current'
                atags = [tag_of(a) for a in allowed]
                key = ct
                prev = live.prev_expect.get(key)
                if prev is not None and prev != wtag:
                    self.changed += 1
                    rec.count('res.changed_since_last')
                    rec.count('chg.' + self.last_kind)
                elif prev is not None and self.last_kind not in ('init', 'default') and len(lives) > 1:
                    rec.count('res.sibling_or_unchanged')
                live.prev_expect[key] = wtag
                rec.count('res.want_415' if want is M.NOT_FOUND else 'res.want_handler')
                if not ct or ct == '*/*':
                    rec.count('res.default_fallback')
                elif want is not M.NOT_FOUND and ct not in live.model:
                    rec.count('res.by_rule')
                # direct
                for mode in ('raise', 'noraise'):
                    try:
                        if mode == 'raise':
                            got = live.obj._resolve(ct, self.default)[0]
                        else:
                            got = live.obj._resolve(ct, self.default, raise_not_found=False)
                            if got == (None, None, None):
                                got = M.NOT_FOUND
                            else:
                                h = got[0]
                                if got[1] is not getattr(h, '_serialize_sync', None) or \
                                        got[2] is not getattr(h, '_deserialize_sync', None):
                                    rec.violation('resolve-tuple-inconsistent', self.witness(step=step, probe=ct))
                                got = h
                    except falcon.HTTPUnsupportedMediaType:
                        got = M.NOT_FOUND
                    except Exception as ex:  # noqa
                        rec.violation('resolve-raised', self.witness(step=step, probe=ct, path='direct-' + mode,
                                                                      exc=repr(ex), mapping=li))
                        continue
                    rec.count('res.direct')
                    if not any(got is a for a in allowed):
                        gtag = tag_of(got)
                        rec.violation('stale-or-wrong-handler',
                                      self.witness(step=step, probe=ct, path='direct-' + mode, got=gtag, want=wtag,
                                                   mapping=li, origin=live.origin, default=self.default),
                                      known_key=self.classify(live, gtag, ct))
                if not self.public:
                    continue
                if self.public_per_sweep is not None:
                    pi = self.probes.index(ct)
                    if (pi + step + li) % len(self.probes) >= self.public_per_sweep:
                        continue
                if ct is not None:
                    try:
                        ct.encode('latin-1')
                    except UnicodeEncodeError:
                        continue
                for stack in ('wsgi', 'asgi'):
                    for side in ('req', 'resp'):
                        got = world.resolve_public(stack, side, live.obj, self.default, ct)
                        rec.count('res.%s-%s' % (stack, side))
                        if got not in atags:
                            rec.violation('stale-or-wrong-handler',
                                          self.witness(step=step, probe=ct, path='%s-%s' % (stack, side), got=got,
                                                       want=wtag, mapping=li, origin=live.origin,
                                                       default=self.default),
                                          known_key=self.classify(live, got, ct) if isinstance(got, str) else None)
            if self.public and self.errser_accept:
                acc = self.errser_accept[(step + li) % len(self.errser_accept)]
                for stack in ('wsgi', 'asgi'):
                    self.errser(step, li, live, stack, acc)

    def errser(self, step, li, live, stack, accept):
        """Default error serializer: negotiated type acceptable + handler of the current mapping."""
        rec = self.rec
        if '+json' in accept.lower() or '+xml' in accept.lower():
            return
        self.world.point(stack, live.obj, self.default)
        status, body, ctype, exc, problems = self.world.request(stack, 'PUT', [('Accept', accept)])
        if exc is not None or status != 409:
            rec.violation('error-serialization-failed', self.witness(step=step, accept=accept, stack=stack,
                                                                     status=status, exc=repr(exc), mapping=li),
                          known_key=self.classify_errser(live))
            return
        predefined = ['application/json', 'text/xml', 'application/xml']
        cands = predefined + [k for k in live.model if k not in predefined]
        sp = M.spec_best_match(cands, accept)
        qs = M.candidate_qualities(cands, accept)
        if sp.kind != 'value' or qs is None:
            return
        rec.count('mon.errser')
        wit = self.witness(step=step, accept=accept, stack=stack, mapping=li, got_type=ctype, got_body=body[:60],
                           origin=live.origin)
        if sp.value == '':
            rec.count('errser.none_acceptable')
            if body:
                rec.violation('error-body-in-unacceptable-type', wit, known_key=_known_for(accept))
            return
        # the first of the equally acceptable candidates, candidates = JSON, the XML types, then the registered
        # types in the order the mapping lists them (the same first-of-equals rule as everywhere else)
        best = max(qs)
        tie = [c for c, q in zip(cands, qs) if q == best]
        if len(tie) > 1:
            rec.count('errser.tie')
            if 'application/json' not in tie and tie[0] not in predefined:
                rec.count('errser.tie_among_registered')
        if ctype != sp.value:
            rec.violation('error-type-not-preferred', dict(wit, acceptable_best=tie, want_type=sp.value),
                          known_key=_known_for(accept))
            return
        if ctype == '*/*':
            return                   # a literal */* key chosen: which default applies is not stated
        want = M.resolve_model(live.model, ctype, 'application/json')
        if want is None:
            return
        if want is M.NOT_FOUND:
            rec.count('errser.builtin')
            ok = body.startswith(b'{') if ctype == 'application/json' else body.startswith(b'<?xml')
        else:
            rec.count('errser.handler')
            ok = body == want.tag.encode()
        if not ok:
            builtin = body.startswith(b'{') or body.startswith(b'<?xml')
            gtag = M.NOT_FOUND if builtin else body.decode('latin-1')
            known = self.classify(live, gtag, ctype, 'application/json') or \
                self.classify(live, gtag, ctype, self.default) or _known_for(accept)
            rec.violation('stale-or-wrong-handler', dict(wit, path=stack + '-errser', want=tag_of(want)),
                          known_key=known)

    def classify_errser(self, live):
        return None

    def run(self, ops, sweep_every=1):
        self.sweep(0)
        for n, op in enumerate(ops, 1):
            self.apply(op)
            if n % sweep_every == 0 or n == len(ops):
                self.sweep(n)
        rec = self.rec
        rec.count('hist.run')
        rec.seen('histories', (self.init, self.default0, ops))
        return self.changed


K3 = ['application/json', 'text/plain', 'text/*']
BAD_KEY = 'msgpack'
EX_INIT = [['application/json', False], ['text/plain', True]]
EX_PROBES = [None, '*/*', 'application/json', 'application/json; charset=UTF-8', 'text/plain', 'text/html',
             'image/png', BAD_KEY]
EX_OPS = [
    ['set', -1, K3[0], False], ['set', -1, K3[1], True], ['set', -1, K3[2], False],
    ['del', -1, K3[0]], ['del', -1, K3[1]], ['del', -1, K3[2]],
    ['update', -1, [K3[0], K3[2]], False, 'dict'],
    ['pop', -1, K3[0], False], ['pop', -1, K3[1], False], ['pop', -1, K3[2], True],
    ['popitem', -1],
    ['setdefault', -1, K3[1], False], ['setdefault', -1, K3[2], True],
    ['clear', -1],
    ['copy', -1],
    ['ior', -1, [K3[0]], False], ['ior', -1, [K3[2]], False],
    ['or', -1, [K3[2]], False],
    ['copycopy', -1],
    ['default', 'text/plain'], ['default', 'text/html'],
    ['set', 0, K3[0], False], ['del', 0, K3[1]],
    # a key that is not a type/subtype pair (settable without complaint)
    ['set', -1, BAD_KEY, False], ['del', -1, BAD_KEY],
    # resolutions issued from inside the mutating operation
    ['set', -1, K3[0], False, 're'], ['set', -1, K3[2], True, 're'], ['del', -1, K3[1], 're'],
    ['pop', -1, K3[0], False, 're'], ['update', -1, [K3[1], K3[2]], False, 'dict', 're'],
    # mutations that fail after a partial change (the caller handles the error)
    ['update_fail', -1, [K3[0], K3[2]], False, 'gen', 1], ['update_fail', -1, [K3[1], K3[0]], True, 'badpair', 1],
    ['update_fail', -1, [K3[0], K3[1]], False, 'mapping', 1],
    ['ior_fail', -1, [K3[0], K3[2]], False, 'gen', 1], ['ior_fail', -1, [K3[2], K3[1]], False, 'badpair', 1],
    # ... cut short by something that is not an Exception
    ['ior_fail', -1, [K3[0], K3[2]], False, 'gen', 1, 'KeyboardInterrupt'],
    ['ior_fail', -1, [K3[1], K3[0]], True, 'mapping', 1, 'CancelledError'],
    ['update_fail', -1, [K3[0], K3[1]], False, 'keys', 1, 'BaseFault'],
]
ERRSER_ACCEPTS = ['application/json', 'text/plain', 'text/*;q=0.5, application/json;q=0.4', 'text/xml', 'image/png',
                  '*/*', 'text/plain;q=0, */*;q=0.1', 'application/xml;q=0.9, text/plain;q=0.9']


# depth-3 programs (thorough) are enumerated over this core; depth 2 always uses the full alphabet
EX_CORE = [o for o in EX_OPS if o in (
    ['set', -1, K3[0], False], ['set', -1, K3[2], False], ['del', -1, K3[0]], ['del', -1, K3[1]],
    ['update', -1, [K3[0], K3[2]], False, 'dict'], ['pop', -1, K3[0], False], ['popitem', -1],
    ['setdefault', -1, K3[2], True], ['clear', -1], ['copy', -1], ['ior', -1, [K3[0]], False],
    ['or', -1, [K3[2]], False], ['copycopy', -1], ['default', 'text/plain'], ['set', 0, K3[0], False],
    ['set', -1, BAD_KEY, False], ['set', -1, K3[0], False, 're'], ['del', -1, K3[1], 're'],
    ['update_fail', -1, [K3[0], K3[2]], False, 'gen', 1], ['update_fail', -1, [K3[1], K3[0]], True, 'badpair', 1],
    ['ior_fail', -1, [K3[0], K3[2]], False, 'gen', 1],
    ['ior_fail', -1, [K3[0], K3[2]], False, 'gen', 1, 'KeyboardInterrupt'])]


def exhaustive_histories(rec, world):
    # (alphabet, depth, probes per sweep that also go through the four public paths; None = all)
    plans = [(EX_OPS, 2, 4)] if rec.tier == 'quick' else [(EX_OPS, 2, None), (EX_CORE, 3, 4)]
    idx = 0
    for alphabet, depth, pps in plans:
        # shorter programs are prefixes of the longer ones (there is a sweep after every op)
        for ops in itertools.product(alphabet, repeat=depth):
            idx += 1
            if idx % rec.nshards != rec.shard:
                continue
            k = idx % len(ERRSER_ACCEPTS)
            # every probe goes through _resolve; with pps a rotating subset goes through the public paths as well
            h = History(rec, world, EX_INIT, 'application/json', EX_PROBES, public=True,
                        errser_accept=ERRSER_ACCEPTS[k:] + ERRSER_ACCEPTS[:k],
                        public_per_sweep=pps)
            changed = h.run([list(o) for o in ops])
            rec.case(('hist', ops) if changed else None)
    rec.count('exh.histories', 1)


TIE_KEYS = ['application/x-a', 'application/x-b', 'application/x-c', 'application/x-d', 'application/x-e',
            'application/x-f']
TIE_ACCEPTS = ['application/*;q=0.8, application/json;q=0.1, application/xml;q=0.1',
               ', '.join(k + ';q=0.8' for k in reversed(TIE_KEYS)) + ', application/json;q=0.1',
               '*/*;q=0.5']


def exhaustive_errser_ties(rec, world):
    """Error serializer with several registered types that the client likes equally well: every rotation of the
    registration order, so that the expected winner (the first the mapping lists) is each key once - no
    iteration order other than the mapping's own can get all of them right, whatever the string hash seed."""
    idx = 0
    for rot in range(len(TIE_KEYS)):
        for tail in ([['set', -1, 'application/x-g', False], ['del', -1, TIE_KEYS[rot]]],
                     [['copy', -1], ['pop', -1, TIE_KEYS[(rot + 1) % len(TIE_KEYS)], False]]):
            idx += 1
            if idx % rec.nshards != rec.shard:
                continue
            keys = TIE_KEYS[rot:] + TIE_KEYS[:rot]
            h = History(rec, world, [[k, bool(i % 2)] for i, k in enumerate(keys)], 'application/json',
                        [keys[0], keys[-1], None], public=True, errser_accept=TIE_ACCEPTS)
            h.run(tail)
            rec.case(('ties', rot, idx))


def exhaustive_odd_keys(rec, world):
    """Every unusual key (not a type/subtype pair, outside the grammar, empty, blank) registered next to ordinary
    ones, replaced and removed again - deterministic cover of the 'bad-key' and 'undecided' resolution classes."""
    for idx, key in enumerate(R_BAD_KEYS):
        if idx % rec.nshards != rec.shard:
            continue
        for tail in ([['set', -1, K3[1], True], ['set', -1, key, False], ['del', -1, key]],
                     [['copy', -1], ['update', -1, [key, K3[2]], False, 'pairs'], ['pop', -1, key, False]]):
            h = History(rec, world, [[K3[0], False], [key, True]], 'application/json', EX_PROBES + [key, 'text/plain;a=1'],
                        public=True, errser_accept=ERRSER_ACCEPTS[idx % 4:idx % 4 + 3])
            h.run(tail)
            rec.case(('oddkey', key, len(tail[0])))


R_KEYS = ['application/json', 'application/json; charset=utf-8', 'text/plain', 'text/*', 'text/html',
          'application/x-www-form-urlencoded', 'application/vnd.api+json', 'application/*', '*/*',
          'text/plain;format=flowed', 'image/png', 'application/xml']
R_BAD_KEYS = ['msgpack', '', 'json', 'Text/Plain', 'a/b/c', 'text/plain;q=0.5', ' ']
R_PROBES = ['msgpack', 'json', None, '', '*/*', 'application/json', 'application/json; charset=UTF-8', 'application/json;charset=utf-8',
            'text/plain', 'text/plain; format=flowed', 'text/plain;format=fixed', 'text/html', 'text/*', 'image/png',
            'image/*', 'application/vnd.api+json', 'application/yaml', 'garbage', 'text', 'application/json;q=0',
            'text/plain; charset="utf-8"', 'text/html, text/plain;q=0.5', 'application/*;q=0.5', 'application/xml',
            'video/mp4;codecs="avc1, mp4a"', '*/*;q=0.5']
R_DEFAULTS = ['application/json', 'text/plain', 'text/html', 'image/png', 'application/x-nope', 'text/*']


def gen_history(rng):
    nkeys = rng.choice([3, 4, 5, 6])
    keys = rng.sample(R_KEYS, nkeys)
    if rng.random() < 0.3:
        keys.append(rng.choice(R_BAD_KEYS))
    init = [[k, rng.random() < 0.4] for k in rng.sample(keys, rng.choice([0, 1, 2, 2, 3]))]
    default = rng.choice(R_DEFAULTS[:3] + keys[:2])
    probes = rng.sample(R_PROBES, 5) + [None, rng.choice(keys)]
    ops = []
    for _ in range(rng.choice([3, 5, 8, 12, 20])):
        r = rng.random()
        t = rng.choice([-1, -1, -1, 0, 1])
        k = rng.choice(keys)
        fast = rng.random() < 0.4
        if r < 0.20:
            ops.append(['set', t, k, fast])
        elif r < 0.32:
            ops.append(['del', t, k])
        elif r < 0.40:
            ops.append(['update', t, rng.sample(keys, rng.choice([0, 1, 2])), fast, rng.choice(['dict', 'pairs'])])
        elif r < 0.48:
            ops.append(['pop', t, k, rng.random() < 0.5])
        elif r < 0.54:
            ops.append(['popitem', t])
        elif r < 0.60:
            ops.append(['setdefault', t, k, fast])
        elif r < 0.64:
            ops.append(['clear', t])
        elif r < 0.72:
            ops.append(['copy', t])
        elif r < 0.78:
            ops.append(['ior', t, rng.sample(keys, rng.choice([0, 1, 2])), fast])
        elif r < 0.83:
            ops.append([rng.choice(['or', 'ror']), t, rng.sample(keys, rng.choice([0, 1, 2])), fast])
        elif r < 0.87:
            ops.append(['copycopy', t])
        elif r < 0.92:
            ks = rng.sample(keys, rng.choice([1, 2, 3]))
            ops.append([rng.choice(['update_fail', 'update_fail', 'ior_fail']), t, ks, fast,
                        rng.choice(['gen', 'badpair', 'mapping', 'keys']), rng.randint(0, len(ks)),
                        rng.choice(FAULT_NAMES)])
        else:
            ops.append(['default', rng.choice(R_DEFAULTS + keys[:1])])
    for op in ops:
        if op[0] in ('set', 'del', 'update', 'pop', 'setdefault') and rng.random() < 0.15:
            op.append('re')
    return init, default, probes, ops


def random_histories(rec, world, rng, n):
    for i in range(n):
        init, default, probes, ops = gen_history(rng)
        acc = [rng.choice(ERRSER_ACCEPTS), gen_case(rng, False)[0]]
        h = History(rec, world, init, default, probes, public=True, errser_accept=acc, public_per_sweep=3)
        changed = h.run(ops)
        rec.case(('rhist', init, default, ops) if changed else None)
        if i == 0:
            rec.sample({'history': {'init': init, 'default': default, 'ops': ops[:6], 'probes': probes}})


# --------------------------------------------------------------------------------------------

def hostile_app_preamble(rec):
    """Before anything is negotiated (nothing cached yet): an application that parses a few common values with
    the public parse_header() and fills in defaults in the dict it got back.  Also run first by replay()."""
    for k, text in enumerate(['text/plain', 'application/json', '*/*', 'text/plain;a=1', 'text/*', 'application/json',
                              'text/html; charset=utf-8', '', 'text/plain ', 'msgpack', 'text/plain;a="1"', 'image/png']):
        check_parse_header(rec, text, k)


def run(rec):
    rec.rule = ('A: Accept headers = all 1..3-tuples over %d media-range atoms (11 ranges x q set) x 10 media types, '
                'plus grammar-driven random headers (params, quoted params, q forms, OWS, duplicates, empty/invalid '
                'members); non-trivial = at least two ranges match the media type (or the input is not grammar-valid); '
                'distinct by (header, candidates).  B: all programs of depth 2 over %d mapping operations (thorough: also depth 3 over a core of them) '
                '(exhaustive; incl. a key that is not a type/subtype pair and resolutions issued from inside a mutating operation via the __hash__ of a key) plus random programs up to 20 ops over 12+7 keys; resolutions after every op for all live '
                'mappings; non-trivial = at least one resolution whose designated handler changed; distinct by program'
                % (len(R_BASE) * len(Q_SET[rec.tier]), len(EX_OPS)))
    rec.assumptions = [
        'reference model vlib/models/c11_negotiation.py reads RFC 9110 12.4.2/12.5.1 and the quality() docstring correctly',
        'type/subtype compared exactly as documented ("match exactly"); mixed-case types are not judged',
        'best candidate = first of the equally good ones (documented for the error serializer: JSON wins a tie)',
        'a mapping with an exact key for the content type designates that key\'s handler',
        'inputs outside the grammar with no single obvious reading are only checked for documented error types',
    ]
    rng = rec.rng
    world = World()
    hostile_app_preamble(rec)
    exhaustive_negotiation(rec)
    exhaustive_many_params(rec)
    exhaustive_histories(rec, world)
    exhaustive_errser_ties(rec, world)
    exhaustive_odd_keys(rec, world)
    rec.exhaustive = True
    if rec.shard == 0:
        rec.note('exhaustive: headers of <=3 ranges over %d atoms; mapping programs of depth 2 over %d ops%s'
                 % (len(R_BASE) * len(Q_SET[rec.tier]), len(EX_OPS),
                    '' if rec.tier == 'quick' else ' and of depth 3 over a core of %d ops' % len(EX_CORE)))
        rec.note('exhaustive phases took %.1f s' % rec.elapsed())
    # random phases alternate until the budget is used; at least one round each
    rounds = 0
    while rounds == 0 or rec.budget_ok(0.9):
        random_negotiation(rec, rng, 300)
        random_histories(rec, world, rng, 8)
        rounds += 1
    rec.count('random.rounds', rounds)
    if rec.counters.get('gen.clean_not_strict'):
        rec.mark_inconclusive('oracle self-check failed: generator output judged non-strict %d times'
                              % rec.counters['gen.clean_not_strict'])

    for name, n in [('mon.quality', 5000), ('mon.best_match', 2000), ('mon.never_chosen', 500),
                    ('mon.client_accepts.wsgi', 200), ('mon.client_accepts.asgi', 200),
                    ('mon.client_prefers.wsgi', 50), ('mon.client_prefers.asgi', 50),
                    ('kind.value', 5000), ('kind.either', 20), ('kind.raise', 20), ('kind.any', 20),
                    ('out.documented_error', 20),
                    ('cls.tie_q', 50), ('cls.specific_beats_q', 50), ('cls.q0_best', 50), ('cls.q0_masks_wildcard', 20),
                    ('cls.nomatch', 50), ('cls.exact_params', 50), ('cls.partial_params', 20),
                    ('cls.exact_over_count', 10), ('cls.count_decides', 10),
                    ('cls.by_type_wildcard', 50), ('cls.by_subtype_wildcard', 50),
                    ('cls.bm_tie_first', 50), ('cls.bm_not_first', 50), ('cls.bm_none', 50),
                    ('cls.bm_has_q0_candidate', 50), ('cls.quoted_param', 20),
                    ('res.direct', 2000), ('res.wsgi-req', 500), ('res.wsgi-resp', 500),
                    ('res.asgi-req', 500), ('res.asgi-resp', 500),
                    ('res.changed_since_last', 200), ('res.default_fallback', 200), ('res.by_rule', 100),
                    ('res.want_415', 100), ('res.want_handler', 500),
                    ('chg.set', 20), ('chg.del', 20), ('chg.update', 10), ('chg.pop', 10), ('chg.popitem', 10),
                    ('chg.setdefault', 5), ('chg.clear', 10), ('chg.default', 10), ('chg.ior', 5),
                    ('op.copy', 10), ('op.copycopy', 5), ('op.or', 5),
                    ('errser.tie_among_registered', 20), ('cls.special_candidate', 100), ('cls.many_params', 500), ('why.blank-round-slash', 50),
                    ('mon.parse_header', 500), ('mon.parse_header_owned', 500), ('ph.no_options', 100),
                    ('ph.with_options', 100),
                    ('op.update_fail', 20), ('op.ior_fail', 10), ('op.fail.applied_some', 20), ('op.fail.base_exception', 20), ('op.fail.exception', 20), ('chg.update_fail', 10),
                    ('res.cls.bad-key', 200), ('res.cls.undecided', 5), ('res.reentrant', 500),
                    ('mon.mapping_state', 500), ('mon.errser', 100), ('errser.handler', 20), ('errser.builtin', 20),
                    ('errser.none_acceptable', 5)]:
        rec.floor(name, n)


def replay(rec, w):
    wit = w['witness']
    hostile_app_preamble(rec)
    if 'history' in wit:
        hw = wit['history']
        h = History(rec, World(), hw['init'], hw['default'], hw['probes'], public=True,
                    errser_accept=hw.get('errser_accept') or [])
        h.run(hw['ops'])
        rec.case(('replay', repr(hw)))
        rec.case(('replay2', repr(hw)))
        print('replayed history of %d ops: %d violations' % (len(hw['ops']), rec.counters.get('violations', 0)))
        return
    fn = wit.get('fn')
    header = wit.get('header')
    if fn == 'parse_header':
        for k in range(2 * len(MUTATIONS)):
            check_parse_header(rec, wit['text'], k)
    if fn == 'quality':
        check_quality(rec, wit['media_type'], header)
    elif fn == 'best_match':
        for k in range(3):
            check_best_match(rec, wit['candidates'], header, iterable_kind=k)
    elif fn == 'client_accepts':
        check_client(rec, header, [wit['media_type']])
    elif fn == 'client_prefers':
        check_client(rec, header, wit['candidates'])
    rec.case(('replay', repr(wit)))
    rec.case(('replay2', repr(wit)))
    print('replayed %s: %d violations' % (fn, rec.counters.get('violations', 0)))
