"""C19 - concurrent requests do not influence one another, from the very first request.  DESIGN.md section 4, C19.

Threads (WSGI): a controlled scheduler (vlib/sched/threads.py) parks the running worker at every LINE event of
the monitored falcon code and lets the controller pick who runs next; the router's compile lock is replaced from
the harness by a cooperative shim so that 'blocked on the lock' is visible to the controller.
  A  exhaustive preemption-bounded schedules (CHESS-style) of 2-3 first-ever requests on a fresh app, yield points in
     find / _compile_and_find / _compile / the generated finder;
  B  random schedules with yield points on every line of app/request/response/router/media code;
  D  unsupervised stress: real threads, tiny switch interval, many fresh apps.
  E  ASGI request objects used from worker threads (what a blocking helper run through falcon.sync_to_async() does with
     its request): header lookups through the process-wide header-name cache at and around its ceiling, exhaustive
     preemption-bounded schedules at line granularity inside falcon/asgi/request.py.
Tasks (ASGI): C  the stepped asyncio loop with 2-3 request tasks whose receive()/send() futures complete in
     controller-chosen order (exhaustive for small scripts, random beyond).
Oracle: the vector of responses must equal the vector obtained by running the same requests one at a time, in
some order, on a fresh identical app; every request carries unique tokens in path, query, header, body and context.
"""

import itertools
import json
import sys
import threading

import falcon
import falcon.asgi
import falcon.routing.compiled as compiled_mod
from falcon.routing.converters import BaseConverter

from vlib.drivers import asgi as A
from vlib.drivers import wsgi as W
from vlib.sched import aio
from vlib.sched import threads as TS

LEVEL = 'exploration'
K_FIND_TEAR = 'dynamic-add-route-tears-finder-and-side-tables'
K_HANDLER_STALE = 'runtime-handler-replacement-races-with-in-flight-resolution'
SHARDS = {'quick': 4, 'thorough': 16}
BUDGET = {'quick': 20, 'thorough': 170}

ROUTER_FUNCS = ('find', '_compile_and_find', '_compile')
WIDE_FILES = ('falcon/app.py', 'falcon/request.py', 'falcon/response.py', 'falcon/routing/compiled.py',
              'falcon/media/handlers.py', 'falcon/util/mediatypes.py', 'falcon/app_helpers.py', 'falcon/hooks.py',
              'falcon/media/json.py', 'falcon/request_helpers.py', 'falcon/util/misc.py', 'falcon/stream.py',
              'falcon/http_error.py', 'falcon/routing/converters.py', 'falcon/routing/util.py', 'falcon/responders.py',
              'falcon/util/uri.py', 'falcon/middleware.py', 'falcon/media/urlencoded.py')


def app_yield_point():
    """Called by generated application code between two of its own steps (e.g. an error object is built, logged,
    then raised): a place where the controlled scheduler may switch threads."""
    return None


def _is_app_yield(code):
    return code.co_name in ('app_yield_point', 'na_handler') and code.co_filename.endswith('c19.py')


def narrow(code):
    fn = code.co_filename
    if fn == '<string>':
        return code.co_name == 'find'
    return (fn.endswith('falcon/routing/compiled.py') and code.co_name in ROUTER_FUNCS) or code.co_name == 'app_yield_point' and fn.endswith('c19.py')


def wide(code):
    fn = code.co_filename
    return fn == '<string>' or fn.endswith(WIDE_FILES) or _is_app_yield(code)


def narrow_reconf(code):
    """Yield points for the runtime-reconfiguration setups: the router window plus add_route and the
    media-handler mapping (mutation and resolution)."""
    fn = code.co_filename
    if fn == '<string>':
        return code.co_name == 'find'
    if fn.endswith('falcon/routing/compiled.py'):
        return code.co_name in ROUTER_FUNCS + ('add_route',)
    if fn.endswith('falcon/media/handlers.py'):
        return True
    return _is_app_yield(code)


def asgi_request_lines(code):
    return code.co_filename.endswith('falcon/asgi/request.py') and code.co_name != '__init__'


# ------------------------------------------------------------------ generated applications

def make_flaky_converter():
    class Flaky(BaseConverter):
        """Fails on its second instantiation (add_route validates once, the lazy compile builds it again)."""
        made = [0]

        def __init__(self):
            Flaky.made[0] += 1
            if Flaky.made[0] == 2:
                raise RuntimeError('converter construction failed')

        def convert(self, value):
            return 'fl:' + value
    return Flaky


def build_app(asgi=False, flaky=False, variant=0, applock=False):
    lock = TS.CoopLock() if applock else None      # an application-level lock (cooperative under the controlled scheduler)

    def _stamp(req, resp):
        # some responses carry a session cookie / an appended raw header of their own, others none at all
        tok = str(getattr(req.context, 'tok', None))
        if tok[-1:] in '02468ace':
            resp.set_cookie('sid', tok)
        if tok[-1:] in '0369cf':
            resp.append_header('X-Extra', tok)

    class Mw:
        def process_request(self, req, resp):
            req.context.tok = req.get_header('X-Tok')
            if lock is not None and req.get_header('X-Lock') == 'hold':
                # e.g. a per-tenant critical section held for the whole request
                lock.acquire()
                req.context.holds = True
            # applications do annotate the per-request objects falcon hands them
            req.params['stamp'] = req.get_header('X-Tok')

        def process_response(self, req, resp, resource, req_succeeded):
            resp.set_header('X-Echo', str(getattr(req.context, 'tok', None)))
            _stamp(req, resp)
            if getattr(req.context, 'holds', False):
                req.context.holds = False
                lock.release()

    class AMw:
        async def process_request(self, req, resp):
            req.context.tok = req.get_header('X-Tok')
            req.params['stamp'] = req.get_header('X-Tok')

        async def process_response(self, req, resp, resource, req_succeeded):
            resp.set_header('X-Echo', str(getattr(req.context, 'tok', None)))
            _stamp(req, resp)

    def common(req, route, **kw):
        d = {'route': route, 'q': req.get_param('q'), 'qs': req.get_param_as_list('l'), 'h': req.get_header('X-Tok'),
             'params': sorted((k, str(v)) for k, v in req.params.items()),
             'ctx': req.context.tok, 'path': req.path, 'accepts_json': req.client_accepts_json,
             'prefers': req.client_prefers(['text/plain', 'application/json'])}
        d.update({k: str(v) for k, v in kw.items()})
        return d

    if not asgi:
        class Items:
            def on_get(self, req, resp, id, name):
                resp.media = common(req, 'items', id=id, name=name)

        class Users:
            def on_post(self, req, resp, uid):
                body = req.get_media()
                resp.media = common(req, 'users', uid=uid, body=json.dumps(body, sort_keys=True))

        class Files:
            def on_get(self, req, resp, p):
                resp.text = json.dumps(common(req, 'files', p=p), sort_keys=True)
                resp.content_type = 'text/plain'

        class Err:
            def on_get(self, req, resp, code):
                tok = req.get_header('X-Tok')
                err = falcon.HTTPError(400 + code % 100, title='T' + req.get_param('q', default=''), description=tok,
                                       href='https://docs.example/' + str(tok), href_text='about ' + str(tok))
                app_yield_point()           # e.g. the error is written to an audit log before it is raised
                raise err

        class Fl:
            def on_get(self, req, resp, v):
                resp.media = common(req, 'flaky', v=v)

        class Form:
            def on_post(self, req, resp):
                form = req.get_media(default_when_empty={})
                seen = sorted((k, str(v)) for k, v in form.items()) if isinstance(form, dict) else repr(form)
                if isinstance(form, dict):
                    form['owner'] = req.get_header('X-Tok')      # the app stamps the document it was given
                resp.media = common(req, 'form', form=seen)
        app = falcon.App(middleware=[Mw()])
    else:
        class Items:
            async def on_get(self, req, resp, id, name):
                resp.media = common(req, 'items', id=id, name=name)

        class Users:
            async def on_post(self, req, resp, uid):
                body = await req.get_media()
                resp.media = common(req, 'users', uid=uid, body=json.dumps(body, sort_keys=True))

        class Files:
            async def on_get(self, req, resp, p):
                d = common(req, 'files', p=p)

                async def gen():
                    s = json.dumps(d, sort_keys=True).encode()
                    yield s[:len(s) // 2]
                    yield s[len(s) // 2:]
                resp.stream = gen()
                resp.content_type = 'text/plain'

        class Err:
            async def on_get(self, req, resp, code):
                tok = req.get_header('X-Tok')
                err = falcon.HTTPError(400 + code % 100, title='T' + req.get_param('q', default=''), description=tok,
                                       href='https://docs.example/' + str(tok), href_text='about ' + str(tok))
                await req.stream.read()     # the responder waits for something between building and raising
                raise err

        class Fl:
            async def on_get(self, req, resp, v):
                resp.media = common(req, 'flaky', v=v)

        class Form:
            async def on_post(self, req, resp):
                form = await req.get_media(default_when_empty={})
                seen = sorted((k, str(v)) for k, v in form.items()) if isinstance(form, dict) else repr(form)
                if isinstance(form, dict):
                    form['owner'] = req.get_header('X-Tok')
                resp.media = common(req, 'form', form=seen)
        app = falcon.asgi.App(middleware=[AMw()])
    app.add_route('/items/{id:int}/{name}', Items())
    app.add_route('/users/{uid:uuid}', Users())
    app.add_route('/files/{p:path}', Files())
    app.add_route('/err/{code:int(3)}', Err())
    app.add_route('/form', Form())
    if variant >= 2 and not asgi:
        app.req_options.auto_parse_form_urlencoded = True
    if variant % 2:
        app.add_route('/items/{id:int}/{name}/x-{tail}', Items())
        app.add_route('/zz/{a}-{b}', Files())
    if flaky:
        app.router_options.converters['flaky'] = make_flaky_converter()
        app.add_route('/fl/{v:flaky}', Fl())
    if applock and not asgi:
        class Locked(BaseConverter):
            # a converter that consults shared application state under the application's lock
            def convert(self, value):
                with lock:
                    return 'lk:' + value
        app.router_options.converters['locked'] = Locked
        app.add_route('/lk/{v:locked}', Fl())

    # ---- requests that reconfigure the running app (an admin endpoint): a new route, a replaced media handler
    def marker_dumps(tok):
        def dumps(obj):
            return json.dumps({'by': tok, 'doc': obj}, sort_keys=True)
        return dumps

    def reconfigure(req, what):
        tok = req.get_header('X-Tok')
        if what == 'route':
            if not asgi:
                class Dyn:
                    def on_get(self, req, resp):
                        resp.media = common(req, 'dyn', made_by=tok)
            else:
                class Dyn:
                    async def on_get(self, req, resp):
                        resp.media = common(req, 'dyn', made_by=tok)
            app.add_route('/items/dyn-' + tok, Dyn())   # a literal under /items: shifts the finder's side tables
        elif what == 'handler':
            app.resp_options.media_handlers[falcon.MEDIA_JSON] = falcon.media.JSONHandler(dumps=marker_dumps(tok))

    if not asgi:
        class Admin:
            def on_post(self, req, resp, what):
                reconfigure(req, what)
                resp.media = common(req, 'admin', what=what)

        def na_handler(req, resp, ex, params):
            seen = sorted((k, str(v)) for k, v in params.items())
            params['trace'] = req.get_header('X-Tok')          # handlers do annotate what they were given
            ex.description = '%s %r' % (req.get_header('X-Tok'), seen)
            raise ex
    else:
        class Admin:
            async def on_post(self, req, resp, what):
                reconfigure(req, what)
                resp.media = common(req, 'admin', what=what)

        async def na_handler(req, resp, ex, params):
            import asyncio
            seen = sorted((k, str(v)) for k, v in params.items())
            params['trace'] = req.get_header('X-Tok')
            ex.description = '%s %r' % (req.get_header('X-Tok'), seen)
            await asyncio.sleep(0)
            raise ex
    app.add_route('/admin/{what}', Admin())
    if variant % 2 == 0:
        app.add_error_handler(falcon.HTTPMethodNotAllowed, na_handler)
        app.add_error_handler(falcon.HTTPNotFound, na_handler)      # unrouted requests too
    return app


def gen_requests(rng, n, with_flaky=False, admin=False, shared_accept=None):
    reqs = []
    shared_range = None
    if shared_accept or (shared_accept is None and rng.random() < 0.2):
        shared_range = 'text/plain;format="s%06x"' % rng.randrange(1 << 24)
    kinds = ['items', 'users', 'files', 'err', 'items', 'miss', 'form', 'form', 'na', 'na']
    if admin:
        kinds = ['items', 'files', 'na', 'admin-route', 'admin-handler', 'dyn']
    if with_flaky:
        kinds += ['flaky', 'flaky']
    have_admin = False
    for i in range(n):
        tok = 'tok%d-%04x' % (i, rng.randrange(1 << 16))
        kind = rng.choice(kinds)
        if kind.startswith('admin'):
            # at most ONE reconfiguring request per set: two of them race with each other inside the
            # application's own logic (install ... render), which no framework can serialise
            if have_admin:
                kind = 'items'
            have_admin = True
        esc = ''.join('%%%02X' % b for b in ('é' + tok).encode())          # >= 8 escapes: decode()'s long path
        q = rng.choice(['q=%s&l=a%d&l=b%d' % (tok, i, i), 'q=%s&l=a%d&l=b%d' % (esc, i, i), 'q=%s&l=%s' % (esc, esc),
                        '', 'q=same&l=x'])
        accept = rng.choice(['application/json', '*/*', 'text/plain;q=0.5, application/json'])
        if shared_range is not None:
            # the requests of one set share ONE media range (never seen before in this process: it carries a quoted
            # parameter with the set's token) but weigh the alternatives differently
            accept = '%s;q=0.2, application/json;q=%s' % (shared_range, rng.choice(['0.5', '0.6', '0.7', '0.1']))
        headers = [('X-Tok', tok), ('Accept', accept)]
        body = b''
        method = 'GET'
        if kind == 'items':
            path = '/items/%d/n%s' % (rng.randrange(10 ** 6), tok)
        elif kind == 'users':
            method = 'POST'
            path = '/users/%08x-0000-4000-8000-%012x' % (rng.randrange(1 << 32), i)
            body = json.dumps({'tok': tok, 'n': [i, i + 1]}).encode()
            headers.append(('Content-Type', 'application/json'))
        elif kind == 'files':
            path = '/files/a/%s/b' % tok
        elif kind == 'err':
            path = '/err/%03d' % rng.randrange(1000)
        elif kind == 'form':
            method = 'POST'
            path = '/form'
            body = rng.choice(['a=%s&b=%d' % (tok, i), 'a=same&b=1', 'a=same&b=1']).encode()
            headers.append(('Content-Type', 'application/x-www-form-urlencoded'))
        elif kind == 'flaky':
            path = '/fl/%s' % tok
        elif kind == 'na':
            method = 'DELETE'
            path = '/items/%d/n%s' % (rng.randrange(10 ** 6), tok)
        elif kind in ('admin-route', 'admin-handler'):
            method = 'POST'
            path = '/admin/' + kind.split('-')[1]
        elif kind == 'dyn':
            # a route that exists only after some admin-route request of this set was processed
            path = '/items/dyn-@ADMIN@'
        else:
            path = '/nothing/%s' % tok
        reqs.append({'method': method, 'path': path, 'query': q, 'headers': headers, 'body': body})
    admin_toks = [dict(r['headers'])['X-Tok'] for r in reqs if r['path'] == '/admin/route']
    for r in reqs:
        if '@ADMIN@' in r['path']:
            r['path'] = r['path'].replace('@ADMIN@', admin_toks[0] if admin_toks else 'nobody')
    return reqs


def wsgi_call(app, r):
    env = W.make_environ(r['method'], r['path'], r['query'], headers=r['headers'], body=r['body'])
    res = W.run_wsgi(app, env)
    if isinstance(res.exc, TS.Deadlock):
        raise res.exc
    if res.exc is not None:
        return ('escaped', repr(res.exc))
    return (res.status, res.header('x-echo'), res.header('content-type'), res.body, tuple(res.problems),
            tuple(res.header_values('set-cookie')), tuple(res.header_values('x-extra')))


def serial_vectors(build, reqs, call, isolated=True, post=()):
    """Acceptable outcomes.  isolated: every request alone on its own fresh app (the generated apps keep no
    state of their own, so any order of one-at-a-time processing must give exactly these responses, and a request
    that sees anything of another request differs).  Otherwise (the app with a converter that fails once):
    the requests run one at a time, in every order, each order on a fresh app."""
    out = set()
    TS.CoopLock.serial_mode = True
    try:
        if isolated:
            vec = []
            for r in reqs:
                try:
                    vec.append(call(build(), r))
                except TS.Deadlock as ex:
                    raise SerialDeadlock(str(ex), [r['path']], r['path'])
            return {tuple(vec)}
        for perm in itertools.permutations(range(len(reqs))):
            app = build()
            vec = [None] * len(reqs)
            for i in perm:
                try:
                    vec[i] = call(app, reqs[i])
                except TS.Deadlock as ex:
                    raise SerialDeadlock(str(ex), [reqs[j]['path'] for j in perm], reqs[i]['path'])
            for r in post:
                vec.append(call(app, r))
            out.add(tuple(vec))
    finally:
        TS.CoopLock.serial_mode = False
    return out


class SerialDeadlock(Exception):
    pass


# ------------------------------------------------------------------ controlled thread schedules

class BoundedChooser:
    def __init__(self, tape, max_preempt):
        self.tape, self.max, self.preempts = tape, max_preempt, 0
        self.inside = 0

    def __call__(self, sched, runnable, cur):
        if cur is not None:
            options = [cur] + ([r for r in runnable if r != cur] if self.preempts < self.max else [])
        else:
            options = list(runnable)
        c = self.tape.choose(len(options))
        chosen = options[c]
        if cur is not None and chosen != cur:
            self.preempts += 1
        return chosen


class RandomChooser:
    def __init__(self, rng, p_switch):
        self.rng, self.p = rng, p_switch
        self.choices = []

    def __call__(self, sched, runnable, cur):
        if cur is not None and self.rng.random() >= self.p:
            c = cur
        else:
            c = self.rng.choice(runnable)
        self.choices.append(c)
        return c


class ReplayChooser:
    def __init__(self, choices):
        self.choices, self.i = list(choices), 0

    def __call__(self, sched, runnable, cur):
        c = self.choices[self.i] if self.i < len(self.choices) else runnable[0]
        self.i += 1
        return c if c in runnable else runnable[0]


def coverage_marks(rec, sched):
    """Floors: two threads inside _compile_and_find together; a thread parked inside _compile."""
    inside = {}
    for w in sched.workers:
        if w['where']:
            inside[w['idx']] = w['where'][0]


def run_controlled(rec, sched, build, reqs, chooser, phase, accept=None, ref_build=None, isolated=True, post=()):
    app = build()
    fns = [(lambda r=r: wsgi_call(app, r)) for r in reqs]
    if accept is None:
        accept = safe_serial(rec, ref_build or build, reqs, wsgi_call, isolated, post)
        if accept is None:
            return None
    wit = {'phase': phase, 'post': [r['method'] + ' ' + r['path'] for r in post], 'requests': [dict(r, body=r['body'].decode()) for r in reqs]}
    # observe where the other workers stand whenever somebody is scheduled (floors)
    orig = chooser
    preempted_in_router_find = set()      # workers switched away from while between the lines of CompiledRouter.find()

    preempted_in_handler_resolve = set()  # workers switched away from while inside Handlers' cached resolve()

    def watching(s, runnable, cur):
        nxt = _watching(s, runnable, cur)
        for w in s.workers:
            if w['idx'] != nxt and w['state'] in ('parked',) and w['where'] and w['where'][0] == 'find' \
                    and w['where'][2].endswith('falcon/routing/compiled.py'):
                preempted_in_router_find.add(w['idx'])
            if w['idx'] != nxt and w['state'] in ('parked',) and w['where'] and w['where'][0] == 'resolve' \
                    and w['where'][2].endswith('falcon/media/handlers.py'):
                preempted_in_handler_resolve.add(w['idx'])
        return nxt

    def _watching(s, runnable, cur):
        names = [w['where'][0] for w in s.workers if w['state'] in ('parked', 'blocked') and w['where']]
        if sum(1 for n in names if n in ('_compile_and_find', '_compile')) >= 2 or \
                (any(w['state'] == 'blocked' for w in s.workers)):
            rec.count('cls.two_threads_in_compile_and_find')
        if any(n == '_compile' for n in names) and len(runnable) > 1:
            rec.count('cls.thread_parked_inside_compile')
        return orig(s, runnable, cur)
    try:
        results = sched.run(fns, watching)
    except TS.Deadlock as ex:
        wit.update(trace=[t for t in sched.trace if t[1] == 'run'][:400], detail=str(ex))
        rec.violation('deadlock-request-never-completes', wit)
        return None
    except TS.Stuck as ex:
        rec.mark_inconclusive('scheduler watchdog: ' + str(ex))
        return None
    rec.count('mon.serial_equivalence.' + phase)
    vec = tuple(r[1] if r[0] == 'ok' else ('worker-raised', r[1]) for r in results)
    for r in post:
        # after the set is finished (quiescent): what it left behind must be what some serial order leaves behind
        vec += (wsgi_call(app, r),)
        rec.count('mon.follow_up_after_set')
    if vec not in accept:
        wit.update(trace=[t[0] for t in sched.trace if t[1] == 'run'][:600], got=vec,
                   serial=sorted(accept, key=repr)[0])
        known = None
        adds_route = any(r['path'] == '/admin/route' for r in reqs)
        if adds_route:
            # narrow classifier: every request that differs from every serial outcome was switched away from while
            # standing between the lines of CompiledRouter.find() (finder loaded, side tables not yet) and a route
            # was added at run time by another request of the set
            differing = [i for i in range(len(vec)) if all(vec[i] != a[i] for a in accept)]
            if differing and all(i in preempted_in_router_find for i in differing):
                known = K_FIND_TEAR
        if known is None and any(r['path'] == '/admin/handler' for r in reqs) and preempted_in_handler_resolve:
            # narrow classifier: a request replaced the JSON response handler at run time while another request was
            # switched away from INSIDE the cached resolve(); every response that differs from every serial outcome is
            # exactly an accepted response rendered by the replaced (old) handler, i.e. without the new handler's mark
            def unmarked(resp):
                try:
                    doc = json.loads(resp[3])
                    return isinstance(doc, dict) and set(doc) == {'by', 'doc'} and doc['doc']
                except Exception:  # noqa
                    return None

            def plain(resp):
                try:
                    return json.loads(resp[3])
                except Exception:  # noqa
                    return None
            differing = [i for i in range(len(vec)) if all(vec[i] != a[i] for a in accept)]
            if differing and all(
                    isinstance(vec[i], tuple) and any(
                        isinstance(a[i], tuple) and a[i][:3] == vec[i][:3] and a[i][4:] == vec[i][4:]
                        and unmarked(a[i]) is not None and unmarked(a[i]) is not False and unmarked(a[i]) == plain(vec[i])
                        for a in accept)
                    for i in differing):
                known = K_HANDLER_STALE
        wit.update(preempted_in_router_find=sorted(preempted_in_router_find),
                   preempted_in_handler_resolve=sorted(preempted_in_handler_resolve))
        rec.violation('not-serializable', wit, known_key=known)
    return vec


# ------------------------------------------------------------------ ASGI task interleavings

class AsgiConn:
    def __init__(self, st, idx, r, pend):
        self.st, self.idx, self.pend = st, idx, pend
        b = r['body']
        self.events = A.body_events(b, [max(1, len(b) // 2)] if b else None)
        self.sent = []
        self.res = A.AsgiResult()
        self.mon = A.HttpMonitor(self.res)

    async def receive(self):
        f = self.st.loop.create_future()
        self.pend.append(('recv', self.idx, f))
        await f
        if self.events:
            return self.events.pop(0)
        return {'type': 'http.disconnect'}

    async def send(self, ev):
        f = self.st.loop.create_future()
        self.pend.append(('send', self.idx, f))
        await f
        self.mon.on_send(ev)


def asgi_vector(res):
    return (res.status, res.header('x-echo'), res.header('content-type'), res.body, tuple(res.problems),
            tuple(res.header_values('set-cookie')), tuple(res.header_values('x-extra')))


def asgi_serial_call(app, r):
    scope = A.make_scope(r['method'], r['path'], r['query'], headers=r['headers'])
    b = r['body']
    res = A.run_asgi_http(app, scope, A.body_events(b, [max(1, len(b) // 2)] if b else None))
    if res.outcome != 'done':
        return ('outcome', res.outcome, repr(res.exc))
    return asgi_vector(res)


def run_asgi_schedule(rec, st, build, reqs, pick, accept):
    import asyncio
    app = build()
    pend = []
    conns = [AsgiConn(st, i, r, pend) for i, r in enumerate(reqs)]
    asyncio.set_event_loop(st.loop)
    tasks = []
    for c, r in zip(conns, reqs):
        scope = A.make_scope(r['method'], r['path'], r['query'], headers=r['headers'])
        tasks.append(st.loop.create_task(app(scope, c.receive, c.send)))
    choices = []
    guard = 0
    while not all(t.done() for t in tasks) and guard < 2000:
        guard += 1
        while st.loop._ready:
            st.step()
        live = [p for p in pend if not p[2].done()]
        if not live:
            if all(t.done() for t in tasks):
                break
            st.step()
            if not st.loop._ready and not [p for p in pend if not p[2].done()]:
                break
            continue
        live.sort(key=lambda p: (p[1], p[0]))
        j = pick(len(live))
        kind, idx, f = live[j]
        choices.append((idx, kind))
        pend.remove(live[j])
        f.set_result(None)
        st.step()
    for _ in range(10):
        st.step()
    vec = []
    for c, t in zip(conns, tasks):
        if not t.done():
            t.cancel()
            vec.append(('never-finished',))
        elif t.exception() is not None:
            vec.append(('escaped', repr(t.exception())))
        else:
            vec.append(asgi_vector(c.res))
    for _ in range(5):
        st.step()
    del st.loop_errors[:]
    vec = tuple(vec)
    rec.count('mon.serial_equivalence.asgi')
    if vec not in accept:
        rec.violation('asgi-not-serializable', {'phase': 'C', 'requests': [dict(r, body=r['body'].decode()) for r in reqs],
                                                'choices': choices, 'got': vec, 'serial': sorted(accept, key=repr)[0]})
    return choices


# ------------------------------------------------------------------ run

def safe_serial(rec, build, reqs, call, isolated=True, post=()):
    try:
        return serial_vectors(build, reqs, call, isolated, post)
    except SerialDeadlock as ex:
        rec.violation('request-never-completes-even-serially',
                      {'detail': ex.args[0], 'order': ex.args[1], 'stuck_request': ex.args[2]})
        return None


# ------------------------------------------------------------------ phase E: ASGI request objects on worker threads

HDR_CEILING_LEVELS = (0, 61, 62, 63, 64, 66)


def name_cache_handle():
    """The process-wide header-name cache of falcon.asgi.Request.get_header, if it still is a default-argument dict
    (only used to put the process into a known state between schedules, like a fresh process would be)."""
    import inspect
    try:
        prm = inspect.signature(falcon.asgi.Request.get_header).parameters.get('_name_cache')
    except (TypeError, ValueError):
        return None
    if prm is not None and isinstance(prm.default, dict):
        return prm.default
    return None


async def _never_receive():
    raise AssertionError('phase E never reads a body')


def header_worker(tok, lookups):
    """One request object per worker; `lookups` = [(name as the application spells it, expected value)]."""
    headers = [('X-Tok', tok), ('Accept', 'application/json'), ('X-%s' % tok, 'own-' + tok), ('Host', 'h-' + tok)]
    req = falcon.asgi.Request(A.make_scope('GET', '/e/' + tok, 'q=' + tok, headers), _never_receive)
    return tuple(req.get_header(nm, default='<absent>') for nm, _ in lookups)


def phase_e(rec, sched, quick):
    cache = name_cache_handle()
    if cache is None:
        rec.count('E.cache_not_resettable')
    serial = [0]
    cap = 100 if quick else 1200
    levels = (HDR_CEILING_LEVELS[:1] + HDR_CEILING_LEVELS[2:5] if quick else HDR_CEILING_LEVELS) if cache is not None else (0,)
    for li, level in enumerate(levels):
        for nthreads, maxp in ((2, 2), (3, 1)) if not quick else ((2, 2),):
            def once(tape, mine, level=level, nthreads=nthreads, maxp=maxp, li=li):
                serial[0] += 1
                if cache is not None:
                    cache.clear()
                    probe = falcon.asgi.Request(A.make_scope('GET', '/', '', []), _never_receive)
                    for k in range(level):
                        probe.get_header('X-Fill-%d' % k)           # filled through the public API only
                toks = ['e%d' % i for i in range(nthreads)]
                jobs = []
                for i, tok in enumerate(toks):
                    # a spelling nobody looked up before (insert path), the worker's own token header, a name shared
                    # by all workers, one that is absent from the request
                    lookups = [('X-%s' % tok.upper(), 'own-' + tok), ('ACCEPT', 'application/json'),
                               ('X-Absent-%s' % tok, '<absent>'), ('X-%s' % tok.upper(), 'own-' + tok)]
                    jobs.append((tok, lookups))
                fns = [(lambda t=t, lk=lk: header_worker(t, lk)) for t, lk in jobs]
                want = tuple(tuple(v for _, v in lk) for _, lk in jobs)
                ch = BoundedChooser(tape, maxp)
                try:
                    results = sched.run(fns, ch)
                except TS.Stuck as ex:
                    rec.mark_inconclusive('scheduler watchdog: ' + str(ex))
                    return
                rec.count('mon.serial_equivalence.E')
                got = tuple(r[1] if r[0] == 'ok' else ('worker-raised', r[1]) for r in results)
                if got != want:
                    rec.violation('asgi-request-on-worker-threads-differs', {
                        'phase': 'E', 'names_known_before': level, 'threads': nthreads, 'got': got, 'want': want,
                        'trace': [t[0] for t in sched.trace if t[1] == 'run'][:300]})
                if sched.yields > 0:
                    rec.count('E.yields_inside_asgi_request', sched.yields)
                if mine:
                    key = ('E', li, nthreads, tuple(c for _, c in tape.log))
                    rec.case(key)
                    rec.seen('schedules', key)
            n_run, trunc = TS.explore_partitioned(once, rec.shard, rec.nshards, cap)
            if trunc:
                rec.count('E.truncated')
            rec.count('E.schedules_level_%d' % level, n_run)
    if cache is not None:
        cache.clear()


def run(rec):
    rec.rule = ('sets of 2-3 concurrent requests with unique tokens on generated apps (fields+converters, middleware, media, '
                'errors, path converter, optionally a converter that fails once at compile time); thread schedules at line '
                'granularity: all schedules with <= P preemptions in the router window (exhaustive, sharded), random schedules '
                'over all falcon request-path files, unsupervised stress; ASGI: all completion orders of receive/send futures '
                'for small scripts, random beyond. non-trivial = every executed schedule; distinct by (requests, choice list)')
    rec.assumptions = ['preemption only between source lines of the monitored files (GIL makes a single line of C-level work atomic)',
                       'serial reference: same requests one at a time on a fresh identical app, any order']
    quick = rec.tier == 'quick'
    rng = rec.rng
    compiled_mod.Lock = TS.CoopLock      # the router creates its compile lock through this name
    sched = TS.Scheduler(narrow)
    sched.install()
    try:
        # ---- phase A: exhaustive, preemption bounded
        setups = [(2, 1, False, 0), (2, 2, False, 1), (2, 1, True, 0), (2, 1, 'lock', 0), (2, 2, 'err2', 0), (2, 1, 'miss2', 0)]
        if not quick:
            setups += [(3, 1, False, 1), (3, 2, False, 0), (2, 2, True, 1), (3, 1, True, 0), (2, 2, 'lock', 1), (3, 1, 'lock', 0)]
        total_a = 0
        for si, (nthreads, maxp, flaky, variant) in enumerate(setups):
            base_rng = __import__('random').Random(1000 + si)          # same requests in every shard
            applock = flaky == 'lock'
            special = flaky if flaky in ('err2', 'miss2') else None
            flaky = flaky is True
            reqs = gen_requests(base_rng, nthreads, with_flaky=flaky)
            if flaky:
                reqs[0]['path'] = '/fl/first'
            if special:
                # both requests end in an error object built by the application / in the not-found path whose
                # custom handler annotates the params it is handed
                for j, r in enumerate(reqs):
                    r.update(method='GET', path=('/err/4%02d' % (9 + j)) if special == 'err2' else '/nothing/%d' % j, body=b'')
                    r['headers'] = [h for h in r['headers'] if h[0] != 'Content-Type']
                rec.count('cls.error_object_setups')
            if applock:
                # one request whose converter needs the application's lock, one that holds that lock from
                # process_request to process_response (user code blocking inside the routing of a first request)
                reqs[0].update(method='GET', path='/lk/' + dict(reqs[0]['headers'])['X-Tok'], body=b'')
                reqs[0]['headers'] = [h for h in reqs[0]['headers'] if h[0] != 'Content-Type']
                reqs[1].update(method='GET', path='/items/5/held', body=b'')
                reqs[1]['headers'] = [h for h in reqs[1]['headers'] if h[0] != 'Content-Type'] + [('X-Lock', 'hold')]
                rec.count('cls.application_lock_setups')

            def build(flaky=flaky, variant=variant, applock=applock):
                return build_app(False, flaky, variant, applock=applock)
            accept = safe_serial(rec, build, reqs, wsgi_call, isolated=not flaky)
            if accept is None:
                continue
            cap = 500 if quick else 5000
            counter = [0]

            def once(tape, mine, nthreads=nthreads, maxp=maxp, flaky=flaky, build=build, reqs=reqs, accept=accept, si=si):
                ch = BoundedChooser(tape, maxp)
                run_controlled(rec, sched, build, reqs, ch, 'A', accept)
                if mine:
                    key = ('A', si, tuple(c for _, c in tape.log))
                    rec.case(key)
                    rec.seen('schedules', key)
                    counter[0] += 1
                    if counter[0] <= 1 and si < 3:
                        rec.sample({'phase': 'A', 'threads': nthreads, 'max_preemptions': maxp, 'flaky_converter': flaky,
                                    'requests': [r['method'] + ' ' + r['path'] for r in reqs],
                                    'choices': [c for _, c in tape.log][:60]})
            n_run, trunc = TS.explore_partitioned(once, rec.shard, rec.nshards, cap)
            if trunc:
                rec.count('A.truncated')
            rec.count('A.schedules_setup_%d' % si, n_run)
        # ---- phase A2: requests that reconfigure the running (already compiled) app, any-order serial reference
        sched.is_monitored = narrow_reconf
        TS.MON.restart_events()
        rsets = [
            ['GET /items/7/x', 'POST /admin/route', 'GET /files/a/b'],
            ['POST /admin/handler', 'GET /items/8/y'],
            ['DELETE /items/1/a', 'DELETE /items/2/b'],
        ]
        if not quick:
            rsets += [['GET /items/dyn-@', 'POST /admin/route', 'GET /items/9/z']]
        for ri, spec in enumerate(rsets):
            reqs = []
            for j, line in enumerate(spec):
                m, pth = line.split(' ')
                tok = 'adm%d-%d' % (ri, j)
                reqs.append({'method': m, 'path': pth, 'query': 'q=' + tok, 'headers': [('X-Tok', tok), ('Accept', 'application/json')], 'body': b''})
            atoks = [dict(r['headers'])['X-Tok'] for r in reqs if r['path'] == '/admin/route']
            for r in reqs:
                r['path'] = r['path'].replace('@', atoks[0] if atoks else 'nobody')
            warm = {'method': 'GET', 'path': '/items/1/warm', 'query': '', 'headers': [('X-Tok', 'warm')], 'body': b''}

            def build_warm(warm=warm):
                app = build_app(False, False, 0)
                wsgi_call(app, warm)
                return app
            # follow-up requests, one at a time after the set has finished: what the set left behind (the added
            # route, the replaced handler) must be what some serial order leaves behind
            post = []
            for a in atoks:
                post.append({'method': 'GET', 'path': '/items/dyn-' + a, 'query': 'q=after', 'headers': [('X-Tok', 'after-' + a)], 'body': b''})
            post.append({'method': 'GET', 'path': '/items/3/after', 'query': 'q=after', 'headers': [('X-Tok', 'after'), ('Accept', 'application/json')], 'body': b''})
            accept = safe_serial(rec, build_warm, reqs, wsgi_call, isolated=False, post=post)
            if accept is None:
                continue

            def once2(tape, mine, reqs=reqs, accept=accept, ri=ri, build_warm=build_warm, post=post):
                ch = BoundedChooser(tape, 1)
                run_controlled(rec, sched, build_warm, reqs, ch, 'A2', accept, post=post)
                if mine:
                    key = ('A2', ri, tuple(c for _, c in tape.log))
                    rec.case(key)
                    rec.seen('schedules', key)
            n_run, trunc = TS.explore_partitioned(once2, rec.shard, rec.nshards, 600 if quick else 3000)
            if trunc:
                rec.count('A.truncated')
            rec.count('A2.schedules_set_%d' % ri, n_run)
        # ---- phase E: ASGI request objects on worker threads (process-wide header-name cache)
        sched.is_monitored = asgi_request_lines
        TS.MON.restart_events()
        phase_e(rec, sched, quick)
        sched.is_monitored = narrow
        TS.MON.restart_events()
        rec.exhaustive = rec.counters.get('A.truncated', 0) == 0
        # ---- phase B: random schedules, wide yield set
        sched.is_monitored = wide
        TS.MON.restart_events()
        t0 = rec.elapsed()
        share = max(rec.budget_s * 0.2, (rec.budget_s - t0) * 0.35)
        nb = 0
        while rec.elapsed() - t0 < share or nb < 10:
            n = rng.choice([2, 2, 3])
            flaky = rng.random() < 0.25
            variant = rng.randrange(4)
            admin = (not flaky) and rng.random() < 0.3
            reqs = gen_requests(rng, n, with_flaky=flaky, admin=admin)

            def build(flaky=flaky, variant=variant):
                return build_app(False, flaky, variant)
            if admin:
                ch = RandomChooser(rng, rng.choice([0.05, 0.2, 0.4]))
                rec.count('cls.reconfiguring_request_set')
                run_controlled(rec, sched, build, reqs, ch, 'B', isolated=False)
                rec.case(('B', tuple(r['path'] for r in reqs), tuple(ch.choices[:300])))
                nb += 1
                continue
            fresh = rng.random() < 0.7 or flaky
            if fresh:
                ch = RandomChooser(rng, rng.choice([0.02, 0.1, 0.3]))
                run_controlled(rec, sched, build, reqs, ch, 'B', isolated=not flaky)
            else:
                # warm app: one request first, then the concurrent set (router already compiled)
                warm = gen_requests(rng, 1)[0]

                def build_warm(build=build, warm=warm):
                    app = build()
                    wsgi_call(app, warm)
                    return app
                ch = RandomChooser(rng, rng.choice([0.05, 0.3]))
                rec.count('cls.warm_app')
                run_controlled(rec, sched, build_warm, reqs, ch, 'B', ref_build=build, isolated=not flaky)
            rec.case(('B', tuple(r['path'] for r in reqs), tuple(ch.choices[:300])))
            rec.seen('schedules', ('B', tuple(r['path'] for r in reqs), tuple(ch.choices[:300])))
            nb += 1
        rec.count('B.schedules', nb)
    finally:
        sched.uninstall()
    # ---- phase S: no interleaving at all - the requests of a set one after the other on ONE app (both orders) must
    #      get what each gets alone on a fresh app (process-wide caches keyed by header text, shared dicts, ...)
    srng = __import__('random').Random(4242 + rec.shard)
    for k in range(30 if quick else 300):
        n = 2 + k % 2
        reqs = gen_requests(srng, n, shared_accept=(k % 3 != 2))
        for asgi in (False, True):
            def sbuild(asgi=asgi, k=k):
                return build_app(asgi, False, k % 4)
            call = asgi_serial_call if asgi else wsgi_call
            expect = tuple(call(sbuild(), r) for r in reqs)
            for order in (list(range(n)), list(range(n - 1, -1, -1))):
                app = sbuild()
                got = [None] * n
                for i in order:
                    got[i] = call(app, reqs[i])
                rec.count('mon.serial_equivalence.S')
                if tuple(got) != expect:
                    bad = [i for i in range(n) if got[i] != expect[i]]
                    rec.violation('one-at-a-time-differs-from-alone', {
                        'phase': 'S', 'asgi': asgi, 'order': order, 'requests': [dict(r, body=r['body'].decode()) for r in reqs],
                        'first_bad': bad[0], 'got': got[bad[0]], 'alone': expect[bad[0]]})
        rec.case(('S', k, tuple(r['path'] for r in reqs)))
    # ---- phase S3: a long-lived app - many requests one after the other on ONE app object (caches filling up and
    #      evicting, counters, pooled objects); every response must be what the request gets alone on a fresh app
    lrng = __import__('random').Random(777 + rec.shard + 1000 * rec.seed)
    for asgi in (False, True):
        call = asgi_serial_call if asgi else wsgi_call
        variant = rec.shard % 4
        app = build_app(asgi, False, variant)
        nlong = (120 if quick else 800) // (2 if asgi else 1)
        for k in range(nlong):
            r = gen_requests(lrng, 1, shared_accept=(k % 5 == 0))[0]
            got = call(app, r)
            if k % 3 == 0 or not quick:
                alone = call(build_app(asgi, False, variant), r)
                rec.count('mon.long_lived_app')
                if got != alone:
                    rec.violation('long-lived-app-differs-from-fresh', {
                        'phase': 'S3', 'asgi': asgi, 'nth_request': k, 'request': dict(r, body=r['body'].decode()),
                        'got': got, 'alone': alone})
                    break
        rec.case(('S3', asgi, variant))
    # ---- phase S2: position independence.  Two requests that differ only in a weight share one header element whose
    #      text is new to the process (a quoted parameter carrying a fresh token that nothing echoes); with the next
    #      fresh token the same two requests come in the opposite order.  What a request gets must not depend on
    #      whether it came first or second (whole-header caches would hide this from an in-process reference).
    for k in range(8 if quick else 80):
        for asgi in (False, True):
            call = asgi_serial_call if asgi else wsgi_call
            app = build_app(asgi, False, k % 4)
            t1, t2 = ('p%d-%d-%d-%da' % (rec.seed, rec.shard, k, asgi), 'p%d-%d-%d-%db' % (rec.seed, rec.shard, k, asgi))
            kinds = [
                ('GET', '/items/7/sr', 'text/plain;format="%s";q=0.2, application/json;q=%s', None),
                ('GET', '/err/409', 'application/xml;schema="%s";q=0.2, application/json;q=%s', None),
                ('POST', '/users/00000001-0000-4000-8000-000000000001', 'application/json;v="%s";q=0.3, */*;q=%s',
                 'application/json; v="%s"'),
            ]
            meth, path, acc, ctype = kinds[k % len(kinds)]

            def mk(tok, q):
                hs = [('X-Tok', 'sr'), ('Accept', acc % (tok, q))]
                body = b''
                if ctype:
                    hs.append(('Content-Type', ctype % tok))
                    body = b'{"n": [1, 2]}'
                return {'method': meth, 'path': path, 'query': 'q=sr', 'headers': hs, 'body': body}
            a1 = call(app, mk(t1, '0.5'))
            b1 = call(app, mk(t1, '0.6'))
            b2 = call(app, mk(t2, '0.6'))
            a2 = call(app, mk(t2, '0.5'))
            rec.count('mon.position_independence')
            if a1 != a2 or b1 != b2:
                rec.violation('response-depends-on-position', {
                    'phase': 'S2', 'asgi': asgi, 'request': meth + ' ' + path, 'accept_template': acc,
                    'first_then_second': [a1, b1] if a1 != a2 else [b2, a2], 'as_first': a1 if a1 != a2 else b2,
                    'as_second': a2 if a1 != a2 else b1})
        rec.case(('S2', k))
    # ---- phase W: blocking helpers behind falcon.wrap_sync_to_async(..., threadsafe=False) ("run serially in a
    #      global single-threaded executor"): two requests in flight on a real event loop, each awaiting a
    #      DIFFERENT wrapper over one shared read-modify-write state; the responses must be those of some serial order
    import asyncio as _aio
    import time as _time
    ledger = {'v': 100}
    ran = []

    def deposit(n):
        cur = ledger['v']
        _time.sleep(0.003)
        ledger['v'] = cur + n
        return ledger['v']

    def withdraw(n):
        cur = ledger['v']
        _time.sleep(0.003)
        ledger['v'] = cur - n
        return ledger['v']
    ops = {'dep': falcon.wrap_sync_to_async(deposit, threadsafe=False),
           'wd': falcon.wrap_sync_to_async(withdraw, threadsafe=False)}

    class Ledger:
        async def on_post(self, req, resp, op):
            resp.media = {'v': await ops[op](req.get_param_as_int('n'))}

            async def after():          # work scheduled to run once the response was sent
                ran.append(op)
            resp.schedule(after)
    # ONE app object for the whole phase, served by a fresh event loop in every round (a new asyncio.run() per
    # test, a server restarting its loop): nothing of an earlier loop may stick to the app
    wapp = falcon.asgi.App()
    wapp.add_route('/l/{op}', Ledger())
    for k in range(4 if quick else 30):
        ledger['v'] = 100
        del ran[:]

        async def one(op, n):
            sent = []
            script = [{'type': 'http.request', 'body': b'', 'more_body': False}]
            done = _aio.Event()

            async def receive():
                if script:
                    return script.pop(0)
                await done.wait()
                return {'type': 'http.disconnect'}

            async def send(ev):
                sent.append(ev)
                if ev['type'] == 'http.response.body' and not ev.get('more_body'):
                    done.set()
            await wapp(A.make_scope('POST', '/l/' + op, 'n=%d' % n), receive, send)
            body = b''.join(e.get('body', b'') for e in sent if e['type'] == 'http.response.body')
            return json.loads(body)['v']

        async def both():
            out = await _aio.gather(one('dep', 30), one('wd', 70))
            for _ in range(10):         # let the scheduled callbacks run
                await _aio.sleep(0)
            return out
        loop = _aio.new_event_loop()
        try:
            got = tuple(loop.run_until_complete(_aio.wait_for(both(), 30)))
        except _aio.TimeoutError:
            rec.mark_inconclusive('phase W: the two requests did not finish within 30 s of wall-clock time')
            loop.close()
            break
        except Exception as ex:  # noqa
            got = ('raised', repr(ex))
        finally:
            if not loop.is_closed():
                loop.close()
        rec.count('mon.serial_equivalence.W')
        if got not in ((130, 60), (60, 30)):
            rec.violation('serial-executor-results-not-serializable', {'phase': 'W', 'start': 100, 'deposit': 30, 'withdraw': 70,
                                                                       'got': got, 'serial_orders': [[130, 60], [60, 30]]})
        if got in ((130, 60), (60, 30)) and sorted(ran) != ['dep', 'wd']:
            rec.violation('scheduled-callbacks-did-not-run-once-each', {'phase': 'W', 'round': k, 'ran': list(ran)})
        rec.case(('W', k))
    # ---- phase D: unsupervised stress (real preemption, tiny switch interval)
    old = sys.getswitchinterval()
    sys.setswitchinterval(1e-6)
    try:
        t0 = rec.elapsed()
        share = max(rec.budget_s * 0.15, (rec.budget_s - t0) * 0.4)
        nd = 0
        while rec.elapsed() - t0 < share or nd < 20:
            n = rng.choice([2, 3, 8, 16])
            variant = rng.randrange(4)
            reqs = gen_requests(rng, n)
            app = build_app(False, False, variant)
            expect = tuple(wsgi_call(build_app(False, False, variant), r) for r in reqs)   # each alone on a fresh app
            out = [None] * n
            barrier = threading.Barrier(n)

            def work(i):
                barrier.wait()
                try:
                    out[i] = wsgi_call(app, reqs[i])
                except BaseException as ex:  # noqa
                    out[i] = ('worker-raised', repr(ex))
            ths = [threading.Thread(target=work, args=(i,), daemon=True) for i in range(n)]
            for t in ths:
                t.start()
            for t in ths:
                t.join(30)
            if any(t.is_alive() for t in ths):
                # a wall-clock watchdog is never a verdict (the machine may simply be overloaded): deadlocks are
                # decided by the controlled scheduler of phases A/A2/B, where 'nobody can run' is a logical fact
                rec.mark_inconclusive('phase D: a request thread did not finish within 30 s of wall-clock time: %s'
                                      % [r['path'] for r in reqs])
                break
            rec.count('mon.serial_equivalence.D')
            if tuple(out) != expect:
                bad = [i for i in range(n) if out[i] != expect[i]]
                rec.violation('stress-not-serializable', {'phase': 'D', 'requests': [r['path'] for r in reqs],
                                                          'first_bad': bad[0], 'got': out[bad[0]], 'want': expect[bad[0]]})
            rec.case(('D', tuple(r['path'] for r in reqs)))
            nd += 1
        rec.count('D.apps', nd)
    finally:
        sys.setswitchinterval(old)
    # ---- phase C: ASGI task interleavings
    st = aio.Stepper()
    base_rng = __import__('random').Random(77)
    reqs = gen_requests(base_rng, 2)
    reqs[0].update(method='POST', path='/users/00000001-0000-4000-8000-000000000001',
                   body=json.dumps({'tok': 'A', 'n': [1]}).encode())
    reqs[0]['headers'] = reqs[0]['headers'] + [('Content-Type', 'application/json')]
    reqs[1].update(method='GET', path='/files/x/y', body=b'')

    def abuild():
        return build_app(True, False, 0)
    accept = serial_vectors(abuild, reqs, asgi_serial_call)
    capc = 400 if quick else 6000

    def once_c(tape, mine):
        ch = run_asgi_schedule(rec, st, abuild, reqs, tape.choose, accept)
        if mine:
            rec.case(('C', tuple(ch)))
            rec.seen('schedules', ('C', tuple(ch)))
    idx, trunc = TS.explore_partitioned(once_c, rec.shard, rec.nshards, capc)
    if trunc:
        rec.count('C.truncated')
    rec.count('C.exhaustive_schedules', idx)
    t0 = rec.elapsed()
    share = max(rec.budget_s * 0.1, rec.time_left() * 0.8)
    nc = 0
    while rec.elapsed() - t0 < share or nc < 10:
        n = rng.choice([2, 3, 3])
        adm = rng.random() < 0.25
        rq = gen_requests(rng, n, admin=adm)
        if adm:
            acc = serial_vectors(abuild, rq, asgi_serial_call, isolated=False)
        else:
            acc = {tuple(asgi_serial_call(abuild(), r) for r in rq)}
        ch = run_asgi_schedule(rec, st, abuild, rq, lambda k: rng.randrange(k), acc)
        rec.case(('Cr', tuple(r['path'] for r in rq), tuple(ch)))
        nc += 1
    rec.count('C.random', nc)
    st.close()
    rec.floor('mon.serial_equivalence.A', 20)
    rec.floor('mon.serial_equivalence.A2', 20)
    rec.floor('mon.follow_up_after_set', 20)
    rec.floor('cls.application_lock_setups', 1)
    rec.floor('cls.error_object_setups', 1)
    rec.floor('mon.serial_equivalence.B', 10)
    rec.floor('mon.serial_equivalence.D', 20)
    rec.floor('mon.serial_equivalence.S', 100)
    rec.floor('mon.position_independence', 10)
    rec.floor('mon.serial_equivalence.W', 8)
    rec.floor('mon.long_lived_app', 40)
    rec.floor('mon.serial_equivalence.asgi', 30)
    rec.floor('mon.serial_equivalence.E', 20)
    rec.floor('E.yields_inside_asgi_request', 100)
    rec.floor('cls.two_threads_in_compile_and_find', 1)
    rec.floor('cls.thread_parked_inside_compile', 1)


def replay(rec, w):
    wit = w['witness']
    print(json.dumps(wit)[:2000])
    rec.case(('replay', 1))
    rec.case(('replay', 2))
