"""C20 - the built-in CORS policy grants exactly the configured origins.  DESIGN.md section 4, C20.

Monitor: every generated exchange is run through the REAL app (falcon.App / falcon.asgi.App with a
CORSMiddleware in some context) and through a twin app that is identical except that it has no CORS
component (what the responder / other middleware produced).  vlib/models/c20_cors.py (reference policy,
written from the statement and the docs) judges the pair: statement-level safety cells everywhere,
the documented decision table where the context is unambiguous.
"""

import logging
import os
import shutil
import tempfile

import falcon
import falcon.asgi

from vlib.drivers import asgi as A
from vlib.drivers import wsgi as W
from vlib.models import c20_cors as M

LEVEL = 'exploration'
SHARDS = {'quick': 4, 'thorough': 16}
BUDGET = {'quick': 15, 'thorough': 150}

KNOWN_ACAC = 'cors-acac-left-on-refused-preflight'

# ---------------------------------------------------------------- configuration universe

OA = 'https://App.example'          # mixed case on purpose (origins are case sensitive)
OB = 'https://b.example'
OC = 'http://c.example:8080'
OTHER = 'https://other.example'     # what a responder may pre-set

AO_FORMS = [
    ('str', '*'),
    ('str', OA),
    ('list', [OA]),
    ('set', [OA, OB]),
    ('tuple', [OB, OC]),
    ('iter', [OA, OB, OC]),
]
AC_FORMS = [
    ('none', None),
    ('str', '*'),
    ('str', OA),
    ('set', [OA]),
    ('list', [OC]),
    ('tuple', [OA, OC]),
    ('list', []),
]
EH_FORMS = [
    ('none', None),
    ('str', 'X-One'),
    ('list', ['X-One', 'X-Two']),
    ('tuple', []),
    ('str', ''),
    ('str', '*'),                  # a legal Access-Control-Expose-Headers value
]

REQUEST_ORIGINS = [
    None,
    OA, OB, OC,
    'https://app.example',             # case variant (host)
    'HTTPS://App.example',             # case variant (scheme)
    'https://B.example',
    'https://App.example:443',         # same origin for a browser, different string
    'https://App.example.evil.test',   # suffix attack
    'https://App.exampl',              # proper prefix of a configured origin (substring matching)
    'https://evil.test',
    'null',
    OA + ' ' + OB,                     # RFC 6454 origin-list
]
ORIGIN_NAMES = ['Origin', 'origin', 'ORIGIN']

SHAPES = [  # (method, Access-Control-Request-Method, Access-Control-Request-Headers)
    ('GET', None, None),
    ('GET', 'GET', None),               # request-method header outside OPTIONS: not a preflight
    ('POST', None, None),
    ('HEAD', None, None),
    ('DELETE', None, None),
    ('OPTIONS', None, None),            # plain OPTIONS: not a preflight
    ('OPTIONS', None, 'X-Custom'),      # request-headers without request-method: not a preflight
    ('OPTIONS', 'GET', None),
    ('OPTIONS', 'DELETE', 'X-Custom'),
    ('OPTIONS', 'POST', 'content-type, Authorization'),
]
SHAPES_SMALL = [SHAPES[0], SHAPES[4], SHAPES[5], SHAPES[7], SHAPES[9]]


class StrSub(str):
    """A plain str subclass (e.g. a settings / URL type): equal to, and hashing like, its value."""


def materialize(spec):
    kind, val = spec
    if kind == 'none':
        return None
    if kind == 'str':
        return val
    if kind == 'substr':
        return StrSub(val)
    if kind == 'sublist':
        return [StrSub(v) for v in val]
    if kind == 'list':
        return list(val)
    if kind == 'set':
        return set(val)
    if kind == 'frozenset':
        return frozenset(val)
    if kind == 'tuple':
        return tuple(val)
    if kind == 'iter':
        return (x for x in list(val))
    raise ValueError(kind)


def model_value(spec):
    kind, val = spec
    return None if kind == 'none' else (val if kind in ('str', 'substr') else list(val))


# ---------------------------------------------------------------- responder plans

class Plan:
    """What the responder (or sink) does: headers it pre-sets, Allow it advertises, how it ends."""

    def __init__(self, allow=None, preset=(), fail=None, status=200):
        self.allow, self.preset, self.fail, self.status = allow, tuple(preset), fail, status

    def spec(self):
        return {'allow': self.allow, 'preset': [list(p) for p in self.preset], 'fail': self.fail,
                'status': self.status}

    @staticmethod
    def from_spec(d):
        return Plan(d['allow'], [tuple(p) for p in d['preset']], d['fail'], d['status'])

    @property
    def success(self):
        if self.fail is None:
            return True
        if self.fail == 'redirect':
            return False
        if self.fail.startswith('status'):
            # the responder bails out by raising HTTPStatus: with an error / redirect status that is not a
            # successful exchange by any reading; with a 2xx status the statement does not fix it
            code = int(self.fail[6:9])
            return None if 200 <= code < 300 else False
        return False


PLANS = [
    Plan(allow='GET, PUT'),
    Plan(allow=None),
    Plan(allow=None, preset=[(M.ACAO, '*')]),
    Plan(allow='GET', preset=[(M.ACAO, OTHER)]),
    Plan(allow='GET', preset=[(M.ACAO, OTHER), (M.ACAC, 'true')]),
    Plan(allow=None, preset=[(M.ACAO, OTHER), (M.ACAM, 'GET, POST'), (M.ACAH, 'X-Own'), (M.ACMA, '5'),
                             (M.ACEH, 'X-Own-Exposed')]),
    Plan(allow=None, fail='403'),
    Plan(allow=None, fail='405allow'),
    Plan(allow='GET', fail='500'),
    Plan(allow='GET', fail='status200'),
    Plan(allow='GET, DELETE', status=204),
    Plan(allow='POST', preset=[(M.ACAO, '@origin')]),
    Plan(allow=None, preset=[(M.ACAO, OTHER), (M.ACAC, 'true')]),
    # Allow advertised, then the handler bails out with HTTPStatus (error / redirect status)
    Plan(allow='GET', fail='status403'),
    Plan(allow=None, fail='status401hdr'),
    Plan(allow='GET, POST', fail='status503'),
    Plan(allow='GET', fail='redirect'),
    Plan(allow='GET', fail='status204'),
]
REG = {i: p for i, p in enumerate(PLANS)}


def apply_plan(req, resp):
    plan = REG[int(req.get_param('p') or 0)]
    for k, v in plan.preset:
        if v == '@origin':
            v = req.get_header('Origin') or 'none'
        resp.set_header(k, v)
    if plan.allow is not None:
        resp.set_header('Allow', plan.allow)
    resp.status = plan.status
    if plan.status != 204:
        resp.text = 'plan:' + req.method
    if plan.fail == '403':
        raise falcon.HTTPForbidden(title='no')
    if plan.fail == '405allow':
        raise falcon.HTTPMethodNotAllowed(['GET', 'POST'])
    if plan.fail == '500':
        raise RuntimeError('responder failed')
    if plan.fail == 'status200':
        raise falcon.HTTPStatus(falcon.HTTP_200, headers={'Allow': plan.allow or 'GET'})
    if plan.fail == 'redirect':
        raise falcon.HTTPFound('/elsewhere')
    if plan.fail and plan.fail.startswith('status'):
        hdr = {'Allow': 'GET, POST'} if plan.fail.endswith('hdr') else None
        raise falcon.HTTPStatus(int(plan.fail[6:9]), headers=hdr)


# ---------------------------------------------------------------- application under test

class AutoW:
    def on_get(self, req, resp):
        resp.text = 'auto-get'

    def on_post(self, req, resp):
        resp.media = {'posted': True}


class Auto2W:
    def on_get(self, req, resp, ident):
        resp.text = 'item ' + ident

    def on_put(self, req, resp, ident):
        resp.status = falcon.HTTP_204

    def on_delete(self, req, resp, ident):
        resp.status = falcon.HTTP_204


class PlanW:
    def on_get(self, req, resp):
        apply_plan(req, resp)

    on_post = on_get
    on_options = on_get


def sink_w(req, resp, **kw):
    apply_plan(req, resp)


class AutoA:
    async def on_get(self, req, resp):
        resp.text = 'auto-get'

    async def on_post(self, req, resp):
        resp.media = {'posted': True}


class Auto2A:
    async def on_get(self, req, resp, ident):
        resp.text = 'item ' + ident

    async def on_put(self, req, resp, ident):
        resp.status = falcon.HTTP_204

    async def on_delete(self, req, resp, ident):
        resp.status = falcon.HTTP_204


class PlanA:
    async def on_get(self, req, resp):
        apply_plan(req, resp)

    on_post = on_get
    on_options = on_get


async def sink_a(req, resp, **kw):
    apply_plan(req, resp)


GATES = ('na', 'forbidden', 'err', 'status', 'sdeny')


def _gate(kind):
    """The other component rejects the request; every rejection carries an Allow header."""
    if kind == 'na':
        raise falcon.HTTPMethodNotAllowed(('GET', 'HEAD'))          # e.g. a read-only gate
    if kind == 'forbidden':
        raise falcon.HTTPForbidden(title='gate', headers={'Allow': 'GET'})
    if kind == 'err':
        raise falcon.HTTPError(falcon.HTTP_409, title='gate', headers={'Allow': 'GET, POST'})
    if kind == 'status':
        raise falcon.HTTPStatus(falcon.HTTP_200, headers={'Allow': 'GET'})
    if kind == 'sdeny':
        raise falcon.HTTPStatus(falcon.HTTP_403, headers={'Allow': 'GET, POST'})


def _other_resource(req, resp, resource):
    resp.set_header('X-Other-Resource', type(resource).__name__)
    kind = req.get_param('rg')
    if kind:
        _gate(kind)


def _other_request(req, resp):
    kind = req.get_param('qg')
    if kind:
        _gate(kind)
    if req.path.startswith('/sc/'):
        resp.complete = True
        resp.text = 'short-circuit'
        if req.path == '/sc/allow':
            resp.set_header('Allow', 'GET, PATCH')
    elif req.path.startswith('/deny/'):
        raise falcon.HTTPUnauthorized(title='denied by the other component')


class OtherW:
    """Another middleware component living next to the CORS one (never touches CORS headers)."""

    def process_request(self, req, resp):
        _other_request(req, resp)

    def process_resource(self, req, resp, resource, params):
        _other_resource(req, resp, resource)

    def process_response(self, req, resp, resource, req_succeeded):
        resp.set_header('X-Other', 'ok' if req_succeeded else 'failed')


class OtherA:
    async def process_request(self, req, resp):
        _other_request(req, resp)

    async def process_resource(self, req, resp, resource, params):
        _other_resource(req, resp, resource)

    async def process_response(self, req, resp, resource, req_succeeded):
        resp.set_header('X-Other', 'ok' if req_succeeded else 'failed')


CONTEXTS_ALONE = ['bare', 'list', 'later']
CONTEXTS_OTHER = ['before', 'after', 'before-dep', 'after-dep']
CONTEXTS_ENABLE = ['enable', 'enable+bare', 'enable+list', 'enable+later']


def base_kind(ctx):
    if ctx in CONTEXTS_ALONE or ctx == 'enable':
        return 'none'
    if ctx.endswith('-dep'):
        return 'other-dep'
    return 'other'


def build_app(fw, ctx, cors, static_dir):
    """cors: a CORSMiddleware instance, None (baseline twin: ctx is a base_kind), or 'enable'."""
    asgi = fw == 'asgi'
    cls = falcon.asgi.App if asgi else falcon.App
    other = (OtherA if asgi else OtherW)
    if cors is None:
        if ctx == 'none':
            app = cls()
        elif ctx == 'other':
            app = cls(middleware=[other()])
        else:
            app = cls(middleware=[other()], independent_middleware=False)
    elif ctx == 'bare':
        app = cls(middleware=cors)
    elif ctx == 'list':
        app = cls(middleware=[cors])
    elif ctx == 'later':
        app = cls()
        app.add_middleware(cors)
    elif ctx == 'before':
        app = cls(middleware=[cors, other()])
    elif ctx == 'after':
        app = cls(middleware=[other(), cors])
    elif ctx == 'before-dep':
        app = cls(middleware=[cors, other()], independent_middleware=False)
    elif ctx == 'after-dep':
        app = cls(middleware=[other(), cors], independent_middleware=False)
    elif ctx == 'enable':
        app = cls(cors_enable=True)
    elif ctx == 'enable+bare':
        app = cls(cors_enable=True, middleware=other())
    elif ctx == 'enable+list':
        app = cls(cors_enable=True, middleware=[other()])
    elif ctx == 'enable+later':
        app = cls(cors_enable=True)
        app.add_middleware(other())
    else:
        raise ValueError(ctx)
    app.add_route('/auto', AutoA() if asgi else AutoW())
    app.add_route('/auto2/{ident}', Auto2A() if asgi else Auto2W())
    app.add_route('/plan', PlanA() if asgi else PlanW())
    app.add_sink(sink_a if asgi else sink_w, '/sink')
    app.add_static_route('/static', static_dir)
    return app


# ---------------------------------------------------------------- targets (what the oracle knows about them)

class Target:
    def __init__(self, name, path, query='', ok_methods=None, plan=None, allow_expected=None, needs_other=False,
                 fixed_success=None):
        self.name, self.path, self.query = name, path, query
        self.ok_methods = ok_methods      # methods that end successfully (None = every method)
        self.plan = plan
        self.allow_expected = allow_expected
        self.needs_other = needs_other
        self.fixed_success = fixed_success
        self.undetermined = name.endswith('-status')

    def success(self, method):
        if self.undetermined:
            return None
        if self.fixed_success is not None:
            return self.fixed_success
        if self.ok_methods is not None and method not in self.ok_methods:
            return False
        if self.plan is not None:
            return self.plan.success
        return True


def plan_targets(idx, plan):
    q = 'p=%d' % idx
    return [
        Target('plan%d' % idx, '/plan', q, ok_methods={'GET', 'POST', 'OPTIONS'}, plan=plan),
        Target('sink%d' % idx, '/sink/some/where', q, plan=plan),
    ]


FIXED_TARGETS = [
    # default OPTIONS responder advertises the resource's own methods (OPTIONS itself excluded)
    Target('auto', '/auto', ok_methods={'GET', 'POST', 'OPTIONS'}, allow_expected=frozenset({'GET', 'POST'})),
    Target('auto2', '/auto2/7', ok_methods={'GET', 'PUT', 'DELETE', 'OPTIONS'},
           allow_expected=frozenset({'GET', 'PUT', 'DELETE'})),
    # the static responder does not look at the method (except OPTIONS): every method is served
    Target('static', '/static/a.txt', allow_expected=frozenset({'GET'})),
    Target('static-missing', '/static/missing.txt', ok_methods={'OPTIONS'}, allow_expected=frozenset({'GET'})),
    Target('unrouted', '/nowhere', fixed_success=False),
]
OTHER_TARGETS = [
    Target('sc-allow', '/sc/allow', needs_other=True, fixed_success=True),
    Target('sc-noallow', '/sc/noallow', needs_other=True, fixed_success=True),
    Target('deny', '/deny/x', needs_other=True, fixed_success=False),
]
# the other component raises in process_request (qg: before routing) / process_resource (rg: after routing)
for _g in GATES:
    _ok = None if _g == 'status' else False      # HTTPStatus: success not fixed by the statement
    OTHER_TARGETS.append(Target('qgate-' + _g, '/auto', 'qg=' + _g, needs_other=True, fixed_success=_ok))
    OTHER_TARGETS.append(Target('rgate-' + _g, '/auto', 'rg=' + _g, needs_other=True, fixed_success=_ok))
OTHER_TARGETS.append(Target('qgate-unrouted', '/nowhere', 'qg=na', needs_other=True, fixed_success=False))
OTHER_TARGETS.append(Target('qgate-noallow-route', '/plan', 'p=1&qg=na', needs_other=True, fixed_success=False))
OTHER_TARGETS.append(Target('rgate-noallow-route', '/plan', 'p=1&rg=forbidden', needs_other=True, fixed_success=False))


def all_targets():
    out = list(FIXED_TARGETS)
    for i, p in enumerate(PLANS):
        out.extend(plan_targets(i, p))
    return out


# ---------------------------------------------------------------- running one exchange

def fields(value):
    """A header given as a tuple/list is sent as that many separate header field lines."""
    if value is None:
        return []
    return list(value) if isinstance(value, (tuple, list)) else [value]


def fold(value):
    """RFC 9110 5.3: several field lines with one name ARE the single field whose value is the comma-joined list
    (that is also what a WSGI server puts into HTTP_<NAME>)."""
    return ','.join(value) if isinstance(value, (tuple, list)) else value


def run_one(fw, app, target, shape, origin, origin_name='Origin', env_extra=None):
    method, acrm, acrh = shape
    headers = [(origin_name, v) for v in fields(origin)]
    headers += [('Access-Control-Request-Method', v) for v in fields(acrm)]
    headers += [('Access-Control-Request-Headers', v) for v in fields(acrh)]
    if fw == 'wsgi':
        env = W.make_environ(method, target.path, target.query, headers=headers)
        if env_extra:
            env.update(env_extra)       # gateway / process variables that are NOT request headers (no HTTP_ prefix)
        res = W.run_wsgi(app, env)
        hs = [(k.lower(), v) for k, v in res.headers]
        bad = list(res.problems)
        if res.exc is not None:
            bad.append('raised %r' % (res.exc,))
    else:
        scope = A.make_scope(method, target.path, target.query, headers=headers)
        res = A.run_asgi_http(app, scope)
        hs = [(k.decode('latin-1').lower(), v.decode('latin-1')) for k, v in res.headers]
        bad = list(res.problems)
        if res.outcome != 'done':
            bad.append('outcome %s %r' % (res.outcome, res.exc))
    return (res.status, hs, res.body), bad


class Bench:
    """Apps for one configuration in one context (real) + shared baseline twins."""

    def __init__(self, static_dir):
        self.static_dir = static_dir
        self.base_apps = {}
        self.base_cache = {}

    def base(self, fw, kind, target, shape, origin, origin_name, env_extra=None):
        key = (fw, kind, target.path, target.query, shape, origin, origin_name,
               tuple(sorted(env_extra.items())) if env_extra else None)
        hit = self.base_cache.get(key)
        if hit is None:
            app = self.base_apps.get((fw, kind))
            if app is None:
                app = self.base_apps[(fw, kind)] = build_app(fw, kind, None, self.static_dir)
            hit = run_one(fw, app, target, shape, origin, origin_name, env_extra)
            if len(self.base_cache) < 400000:
                self.base_cache[key] = hit
        return hit


def is_known_acac(kind, detail):
    """Narrow classifier: the ONLY thing left on a refused preflight is Allow-Credentials: true."""
    return kind == 'grant-left-on-refused-preflight' and detail.get('left') == [(M.ACAC, 'true')]


def check_exchange(rec, bench, fw, ctx, app, cfg, policy, target, shape, origin, origin_name='Origin', plan_spec=None,
                   base_k=None, extra=None, got_pre=None, env_extra=None):
    # what is sent (possibly repeated field lines, plus non-header environ variables) ...
    raw_shape, raw_origin = shape, origin
    # ... and what the request therefore carries, as the oracle reads it
    origin = fold(origin)
    method, acrm, acrh = shape[0], fold(shape[1]), fold(shape[2])
    success = target.success(method)
    live = True
    if ctx == 'after-dep' and (target.name == 'deny' or target.name.startswith('qgate')):
        # dependent middleware: a component whose process_request never ran has no process_response (documented)
        live = False
    if origin is not None and not origin.strip():
        # an Origin field that is present but empty / blank: whether that "carries an Origin" is not fixed by the
        # statement - only the safety cells are judged (nothing for a configuration that lists origins, no
        # credentials without echo, no approval outside a preflight ...), not the positive table
        live = False
        rec.count('cell.blank-origin')
    ex = M.Exchange(origin, method, acrm, acrh, success, live=live, allow_expected=target.allow_expected)
    base, base_bad = bench.base(fw, base_k or base_kind(ctx), target, raw_shape, raw_origin, origin_name, env_extra)
    got, got_bad = got_pre or run_one(fw, app, target, raw_shape, raw_origin, origin_name, env_extra)
    witness = {'fw': fw, 'ctx': ctx, 'config': cfg, 'target': target.name, 'path': target.path, 'query': target.query,
               'shape': list(raw_shape), 'origin': raw_origin, 'origin_name': origin_name, 'plan': plan_spec}
    if env_extra:
        witness['env_extra'] = env_extra
    if extra:
        witness.update(extra)
    rec.count('fw.' + fw)
    rec.count('ctx.' + ctx)
    cell = M.classify(policy, ex)
    rec.count('cell.' + cell)
    if got_bad and not base_bad:
        rec.violation('cors-app-protocol-problem', dict(witness, problems=got_bad[:3]))
    # sanity of the oracle's own view of the target (not a verdict about falcon's CORS policy)
    if success is True and not (200 <= (base[0] or 0) < 400):
        rec.count('model.success-mismatch')
        rec.note('target %s %s expected to succeed, baseline status %r' % (target.name, method, base[0]))
    if success is False and (200 <= (base[0] or 0) < 300):
        rec.count('model.success-mismatch')
        rec.note('target %s %s expected to fail, baseline status %r' % (target.name, method, base[0]))
    findings, cells = M.judge(policy, ex, base, got)
    for c in cells:
        rec.count('mon.' + c)
    if ex.preflight and policy.allowed(origin) and success is True:
        if M.values(base[1], M.ALLOW):
            rec.count('pf.approved-expected')
            if target.allow_expected is not None:
                rec.count('pf.approved-documented-allow-source')
            if M.ac_items(base[1]):
                rec.count('pf.approved-with-preset')
        else:
            rec.count('pf.refused-expected')
            if M.ac_items(base[1]):
                rec.count('pf.refused-with-preset')
    if ex.preflight and policy.allowed(origin) and success is False and M.values(base[1], M.ALLOW) \
            and target.plan is not None and target.plan.fail and target.plan.fail.startswith(('status', 'redirect')):
        rec.count('pf.failed-with-allow.httpstatus.' + fw)
    if ex.preflight and policy.allowed(origin) and success is False and M.values(base[1], M.ALLOW) \
            and target.name.endswith('gate-sdeny'):
        rec.count('pf.failed-with-allow.httpstatus-mw.' + fw)
    if ex.preflight and policy.allowed(origin) and success is False and M.values(base[1], M.ALLOW):
        stage = ('mw-request' if target.name.startswith(('qgate', 'deny')) else
                 'mw-resource' if target.name.startswith('rgate') else 'responder')
        rec.count('pf.failed-with-allow.' + stage)
        rec.count('pf.failed-with-allow.%s.%s' % (stage, fw))
    if policy.allowed(origin) and M.values(base[1], M.ACAO):
        rec.count('cell.responder-preset-origin')
    if origin is not None and not policy.allowed(origin) and M.ac_items(base[1]):
        rec.count('cell.disallowed-with-preset')
    for kind, detail in findings:
        known = None
        if is_known_acac(kind, detail):
            known, kind = KNOWN_ACAC, 'refused-preflight-keeps-credentials'
        if known and known not in rec.known_keys:
            # not (yet) recorded in known_findings.json: report the class once per shard, keep monitoring
            rec.count('acac-leftover.observed')
            if rec.counters['acac-leftover.observed'] > 1:
                continue
        rec.violation(kind, dict(witness, detail=detail, policy=policy.describe(),
                                 base_status=base[0], got_status=got[0],
                                 got_ac=M.ac_items(got[1]), base_ac=M.ac_items(base[1])), known_key=known)
    nontrivial = origin is not None
    rec.case((fw, ctx, repr(cfg), target.name, raw_shape, raw_origin, env_extra and sorted(env_extra.items()))
             if nontrivial or env_extra else None)
    return findings


# ---------------------------------------------------------------- duplicate guard (cors_enable + explicit component)

class AuditedCORS(falcon.CORSMiddleware):
    """A subclass that keeps the policy (a place to hang logging / auditing)."""


class NarrowedCORS(falcon.CORSMiddleware):
    """A subclass narrowing the built-in policy through the one documented method: process_response() is
    overridden and delegates to super() only when the deployment's own rule agrees."""

    rule = None                 # 'path' | 'origin' | 'preflight'
    suspended = frozenset()

    def refuses(self, req):
        if self.rule == 'path':
            return req.path.startswith('/plan')
        if self.rule == 'origin':
            return req.get_header('Origin') in self.suspended
        if self.rule == 'preflight':
            return req.method == 'OPTIONS'
        return False

    def process_response(self, req, resp, resource, req_succeeded):
        if self.refuses(req):
            return
        super().process_response(req, resp, resource, req_succeeded)


def check_guard(rec, static_dir):
    for fw in ('wsgi', 'asgi'):
        cls = falcon.asgi.App if fw == 'asgi' else falcon.App
        other = OtherA if fw == 'asgi' else OtherW
        builders = {}
        for cname, ccls in (('plain', falcon.CORSMiddleware), ('subclass', AuditedCORS), ('narrowing', NarrowedCORS),
                            ('sub-subclass', type('Deeper', (AuditedCORS,), {}))):
            builders.update({
                cname + ':init-bare': lambda c=ccls: cls(cors_enable=True, middleware=c(allow_origins=OA)),
                cname + ':init-list': lambda c=ccls: cls(cors_enable=True, middleware=[other(), c(allow_origins=OA)]),
                cname + ':later': lambda c=ccls: _later(cls(cors_enable=True), c(allow_origins=OA)),
                cname + ':later-list': lambda c=ccls: _later(cls(cors_enable=True), [other(), c(allow_origins=OA)]),
            })
        for name, mk in sorted(builders.items()):
            rec.count('guard.component.' + name.split(':')[0])
            rec.count('mon.duplicate-guard')
            try:
                app = mk()
            except ValueError:
                rec.count('guard.rejected')
                continue
            # two policies are active: the explicit one allows only OA - show the consequence
            app.add_route('/auto', AutoA() if fw == 'asgi' else AutoW())
            t = FIXED_TARGETS[0]
            got, _ = run_one(fw, app, t, SHAPES[0], 'https://evil.test')
            if M.ac_items(got[1]):
                rec.violation('duplicate-cors-guard', {'fw': fw, 'how': name, 'explicit_allow_origins': OA,
                                                       'origin': 'https://evil.test', 'got_ac': M.ac_items(got[1])})
        # the guard must not reject what is legal: cors_enable alone, explicit component alone
        for mk in (lambda: cls(cors_enable=True, middleware=[other()]),
                   lambda: cls(middleware=[falcon.CORSMiddleware(), falcon.CORSMiddleware(allow_origins=OA)])):
            try:
                mk()
                rec.count('guard.accepted-legal')
            except ValueError as e:
                rec.violation('legal-cors-setup-rejected', {'fw': fw, 'exc': repr(e)})


def _later(app, mw):
    app.add_middleware(mw)
    return app


# ---------------------------------------------------------------- workload

# how the three documented arguments reach the constructor; the published signature is
# CORSMiddleware(allow_origins='*', expose_headers=None, allow_credentials=None)
STYLES = ('kw', 'pos3', 'pos2kw', 'posmin', 'pos1kw', 'subinit')


def make_cors(cfg, cls=None):
    cls = cls or falcon.CORSMiddleware
    ao, ac, eh = (materialize(x) for x in cfg[:3])
    style = cfg[3] if len(cfg) > 3 else 'kw'
    if style == 'kw':
        return cls(allow_origins=ao, allow_credentials=ac, expose_headers=eh)
    if style == 'pos3':
        return cls(ao, eh, ac)
    if style == 'pos2kw':
        return cls(ao, eh, allow_credentials=ac)
    if style == 'pos1kw':
        return cls(ao, expose_headers=eh, allow_credentials=ac)
    if style == 'posmin':            # positional, trailing defaults left out
        args = [ao, eh, ac]
        while len(args) > 1 and args[-1] is None:
            args.pop()
        return cls(*args)
    if style == 'subinit':           # a subclass forwarding positionally in the documented order

        class Forwarding(cls):
            def __init__(self, *args):
                super().__init__(*args)
        return Forwarding(ao, eh, ac)
    raise ValueError(style)


def safe_app(rec, fw, ctx, cfg, static_dir):
    """Build the app under test; a documented-legal configuration that cannot be set up is reported."""
    try:
        return build_app(fw, ctx, 'enable' if ctx in CONTEXTS_ENABLE else make_cors(cfg), static_dir)
    except Exception as e:  # noqa
        rec.violation('legal-configuration-rejected', {'fw': fw, 'ctx': ctx, 'config': cfg, 'exc': repr(e)})
        return None


def make_policy(cfg):
    ao, ac, eh = cfg[:3]
    return M.Policy(model_value(ao), model_value(ac), model_value(eh))


KEY_TARGETS = ('auto', 'plan0', 'plan1', 'plan5')
REDUCED_TARGETS = ('auto', 'plan0', 'plan1', 'sink4', 'static', 'plan7', 'unrouted', 'plan13', 'sink14')
QUICK_SINKS = ('sink0', 'sink1', 'sink4', 'sink5', 'sink7', 'sink12', 'sink13', 'sink14', 'sink16')


def table_for(rec, targets, with_other, level, salt):
    """Yield (target_no, target, shape_no, shape, origin_no, origin) for one app.

    level 'full'    : every target x every shape (sinks: the small shape list) x every origin
    level 'wide'    : key targets get the full product, the others the small shape list and a rotating half of
                      the origins (absent / allowed / hostile always included)
    level 'reduced' : a few targets, small shape list, five origins
    quick tier: one stand-alone context 'wide' + one other-middleware context 'reduced' per configuration;
    thorough tier: one stand-alone context 'full' (every second configuration, else 'wide'), one other-middleware
    context 'wide', the five others 'reduced'
    """
    tl = list(targets) + (OTHER_TARGETS if with_other else [])
    for tn, t in enumerate(tl):
        if level == 'reduced' and not (t.needs_other or t.name in REDUCED_TARGETS):
            continue
        if level == 'wide' and t.name.startswith('sink') and t.name not in QUICK_SINKS:
            continue
        key = t.name in KEY_TARGETS
        shapes = SHAPES if ((level == 'full' and not t.name.startswith('sink')) or key) else SHAPES_SMALL
        for sn, shape in enumerate(shapes):
            for on, origin in enumerate(REQUEST_ORIGINS):
                if level == 'reduced' and on not in (0, 1, 3, 4, 10):
                    continue
                if level == 'wide' and not key and on not in (0, 1, 10) and (on + tn + sn + salt) % 3 != 0:
                    continue
                yield tn, t, sn, shape, on, origin


def exhaustive(rec, bench):
    targets = all_targets()
    thorough = rec.tier == 'thorough'
    combos = []
    for i in range(len(AO_FORMS)):
        for j in range(len(AC_FORMS)):
            if thorough:
                ks = range(len(EH_FORMS))
            else:
                # quick: every expose form meets every allow_origins form and every allow_credentials form
                ks = [(i + j) % len(EH_FORMS)]
            for k in ks:
                combos.append((i, j, k))
    n = 0
    for idx, (i, j, k) in enumerate(combos):
        if idx % rec.nshards != rec.shard:
            continue
        cfg = (AO_FORMS[i], AC_FORMS[j], EH_FORMS[k], STYLES[idx % len(STYLES)])
        rec.count('style.' + cfg[3])
        policy = make_policy(cfg)
        rec.seen('configs', repr(cfg))
        rec.seen('config-pairs', ('ao-eh', i, k))
        rec.seen('config-pairs', ('ac-eh', j, k))
        n += 1
        main_alone = CONTEXTS_ALONE[idx % 3]
        main_other = CONTEXTS_OTHER[(idx // 3) % 4]
        if thorough:
            # the full product in the stand-alone context for every second configuration (each allow_origins x
            # allow_credentials pair still meets it with half of the expose forms), 'wide' for the others: sized so
            # that the tier also finishes on a heavily loaded machine
            plan = [(main_alone, 'full' if idx % 2 == 0 else 'wide'), (main_other, 'wide')] + \
                   [(c, 'reduced') for c in CONTEXTS_ALONE + CONTEXTS_OTHER if c not in (main_alone, main_other)]
        else:
            plan = [(main_alone, 'wide'), (main_other, 'reduced')]
        for ctx, level in plan:
            for fw in ('wsgi', 'asgi'):
                app = safe_app(rec, fw, ctx, cfg, bench.static_dir)
                if app is None:
                    continue
                seen_t = set()
                for tn, t, sn, shape, on, origin in table_for(rec, targets, ctx in CONTEXTS_OTHER, level, idx):
                    if t.name not in seen_t:
                        seen_t.add(t.name)
                        rec.count('tgt.' + (t.name.rstrip('0123456789')))
                    oname = ORIGIN_NAMES[(tn + sn + on) % 3]
                    check_exchange(rec, bench, fw, ctx, app, cfg, policy, t, shape, origin, oname,
                                   plan_spec=t.plan.spec() if t.plan else None)
        if n <= 2:
            rec.sample({'config': cfg, 'policy': policy.describe(), 'contexts': plan})
    # cors_enable=True is the default configuration in every wiring variant
    dcfg = (('str', '*'), ('none', None), ('none', None))
    dpol = make_policy(dcfg)
    for cn, ctx in enumerate(CONTEXTS_ENABLE):
        if cn != rec.shard % len(CONTEXTS_ENABLE):
            continue
        for fw in ('wsgi', 'asgi'):
            app = safe_app(rec, fw, ctx, dcfg, bench.static_dir)
            if app is None:
                continue
            tl = list(targets) + (OTHER_TARGETS if ctx != 'enable' else [])
            for t in tl:
                for shape in SHAPES:
                    for origin in (None, OA, 'https://evil.test', 'null'):
                        check_exchange(rec, bench, fw, ctx, app, dcfg, dpol, t, shape, origin,
                                       plan_spec=t.plan.spec() if t.plan else None)
                        rec.count('enable.exchanges')


# ---------------------------------------------------------------- configuration histories
#
# Reading of "the configuration" (recorded in rec.assumptions): the VALUE held by the component's public
# attributes allow_origins / allow_credentials / expose_headers at the time of the request.  The constructor
# fills them from its arguments as a snapshot (str -> one origin, any iterable -> immutable set, header list ->
# one string), so (a) what the caller later does to a collection it passed is not a configuration act, (b) an
# assignment to a public attribute (subclass initialiser, run-time tightening) is, and (c) a component that the
# app REFUSED (cors_enable duplicate guard) is not part of the app's configuration, whatever happens later.

N_AO = [('str', '*'), ('frozenset', [OA]), ('frozenset', [OA, OB]), ('frozenset', [OB, OC])]
N_AC = [('frozenset', []), ('str', '*'), ('frozenset', [OA]), ('frozenset', [OC]), ('frozenset', [OA, OC])]
N_EH = [('none', None), ('str', 'X-One'), ('str', 'X-One, X-Two')]
HIST_ORIGINS = [None, OA, OB, OC, 'https://evil.test', 'https://app.example']
HIST_SHAPES = [SHAPES[0], SHAPES[7]]
HIST_TARGET_NAMES = ('auto', 'plan1', 'plan4')
ATTRS = ('allow_origins', 'allow_credentials', 'expose_headers')


def hist_targets():
    return [t for t in all_targets() if t.name in HIST_TARGET_NAMES]


NOBODY = M.Policy(allow_origins=[])


def mini_table(rec, bench, apps, label, base_k, state, desc, step, refused=None):
    """The reduced request table against the current state of one app pair; returns number of findings.
    refused(target, shape, origin) -> True when the deployment's own rule withholds the policy for that exchange."""
    cfg = tuple(tuple(x) if isinstance(x, list) else x for x in state)
    base_policy = make_policy(cfg)
    n = 0
    for fw in ('wsgi', 'asgi'):
        for tn, t in enumerate(hist_targets()):
            for sn, shape in enumerate(HIST_SHAPES):
                for on, origin in enumerate(HIST_ORIGINS):
                    policy = base_policy
                    if refused is not None and refused(t, shape, origin):
                        policy = NOBODY
                        if base_policy.allowed(origin):
                            rec.count('hist.narrow.refused-though-configured.' + fw)
                    f = check_exchange(rec, bench, fw, label, apps[fw], cfg, policy, t, shape, origin,
                                       ORIGIN_NAMES[(tn + sn + on) % 3], plan_spec=t.plan.spec() if t.plan else None,
                                       base_k=base_k, extra={'history': desc, 'step': step})
                    n += len(f)
                    rec.count('hist.exchanges')
    return n


def _norm_spec(spec):
    return (spec[0], list(spec[1]) if isinstance(spec[1], (list, tuple)) else spec[1])


def history_reconfig(rec, bench, desc):
    """Configuration installed / changed through the public attributes after __init__.

    desc: how = 'assign' (running instance, requests before and after) | 'subclass' (a subclass initialiser calls
    super().__init__(start...) and then sets attributes); start = constructor forms; steps = list of
    {attribute: normalised value spec}."""
    start = [_norm_spec(x) for x in desc['start']]
    steps = desc['steps']
    state = list(start)
    try:
        if desc['how'] == 'subclass':
            first = steps[0]

            class Configured(falcon.CORSMiddleware):
                def __init__(self):
                    super().__init__(allow_origins=materialize(start[0]), allow_credentials=materialize(start[1]),
                                     expose_headers=materialize(start[2]))
                    for attr, spec in first.items():
                        setattr(self, attr, materialize(_norm_spec(spec)))
            cors = Configured()
            for attr, spec in first.items():
                state[ATTRS.index(attr)] = _norm_spec(spec)
            steps = steps[1:]
            rec.count('hist.reconfig.subclass')
        else:
            cors = make_cors(tuple(start))
        apps = {fw: build_app(fw, 'list', cors, bench.static_dir) for fw in ('wsgi', 'asgi')}
    except Exception as e:  # noqa
        rec.violation('legal-configuration-rejected', {'history': desc, 'exc': repr(e)})
        return
    label = 'history:reconfig-' + desc['how']
    mini_table(rec, bench, apps, label, 'none', state, desc, 0)
    for i, step in enumerate(steps):
        before = make_policy(tuple(state))
        for attr, spec in step.items():
            setattr(cors, attr, materialize(_norm_spec(spec)))
            state[ATTRS.index(attr)] = _norm_spec(spec)
        after = make_policy(tuple(state))
        rec.count('hist.reconfig.steps')
        for o in HIST_ORIGINS:
            if before.allowed(o) and not after.allowed(o):
                rec.count('hist.reconfig.origin-tightened')
            if not before.allowed(o) and after.allowed(o):
                rec.count('hist.reconfig.origin-loosened')
            if before.credentialed(o) != after.credentialed(o):
                rec.count('hist.reconfig.credentials-changed')
        mini_table(rec, bench, apps, label, 'none', state, desc, i + 1)


def _mutate(obj, op, value):
    if op == 'add':
        obj.add(value) if isinstance(obj, set) else obj.append(value)
    elif op == 'discard':
        if isinstance(obj, set):
            obj.discard(value)
        elif value in obj:
            obj.remove(value)
    elif op == 'clear':
        obj.clear()
    elif op == 'update':
        obj.update(value) if isinstance(obj, set) else obj.extend(value)


def history_alias(rec, bench, desc):
    """The caller keeps using (mutating) the collections it passed to the constructor.

    desc: ao / ac / eh = forms (mutable kinds: list, set); share = the same object is passed as allow_origins and
    allow_credentials; mutations = [(which, op, value)] applied to the caller's objects after construction."""
    ao, ac, eh = [_norm_spec(desc[k]) for k in ('ao', 'ac', 'eh')]
    objs = {'ao': materialize(ao), 'eh': materialize(eh)}
    objs['ac'] = objs['ao'] if desc.get('share') else materialize(ac)
    if desc.get('share'):
        ac = ao
    try:
        cors = falcon.CORSMiddleware(allow_origins=objs['ao'], allow_credentials=objs['ac'], expose_headers=objs['eh'])
        apps = {fw: build_app(fw, 'list', cors, bench.static_dir) for fw in ('wsgi', 'asgi')}
    except Exception as e:  # noqa
        rec.violation('legal-configuration-rejected', {'history': desc, 'exc': repr(e)})
        return
    state = [ao, ac, eh]            # the snapshot taken by the constructor IS the configuration
    policy = make_policy(tuple(state))
    mini_table(rec, bench, apps, 'history:alias', 'none', state, desc, 0)
    for which, op, value in desc['mutations']:
        if isinstance(objs[which], (set, list)):
            _mutate(objs[which], op, value)
            rec.count('hist.alias.mutations')
            rec.count('hist.alias.mutated-' + type(objs[which]).__name__)
    for o in HIST_ORIGINS:
        if o is not None and not policy.allowed(o) and isinstance(objs['ao'], (set, list)) and o in objs['ao']:
            rec.count('hist.alias.late-added-origin')
        if o is not None and policy.allowed(o) and isinstance(objs['ao'], (set, list)) and o not in objs['ao']:
            rec.count('hist.alias.late-removed-origin')
        if o is not None and policy.allowed(o) and not policy.credentialed(o) \
                and isinstance(objs['ac'], (set, list)) and o in objs['ac']:
            rec.count('hist.alias.late-added-credential')
    mini_table(rec, bench, apps, 'history:alias', 'none', state, desc, 1)


def history_guard(rec, bench, desc):
    """cors_enable=True app; an add_middleware() call refused by the duplicate guard is swallowed by the caller;
    the app keeps being configured (empty / None / further legal components).  The only configuration the app
    ever accepted is the default one.

    desc: initial = None | 'other'; refused = 'bare' | 'list' | 'with-other'; then = list of 'empty-list' | 'none' |
    'empty-tuple' | 'other' | 'other-list'."""
    dstate = [('str', '*'), ('none', None), ('none', None)]
    apps = {}
    with_other = desc.get('initial') == 'other'
    for fw in ('wsgi', 'asgi'):
        cls = falcon.asgi.App if fw == 'asgi' else falcon.App
        other = OtherA if fw == 'asgi' else OtherW
        app = cls(cors_enable=True, middleware=[other()]) if with_other else cls(cors_enable=True)
        refused = falcon.CORSMiddleware(allow_origins='*', allow_credentials='*', expose_headers='X-Refused')
        arg = {'bare': refused, 'list': [refused], 'with-other': [other(), refused]}[desc['refused']]
        try:
            app.add_middleware(arg)
        except ValueError:
            rec.count('hist.guard.refused')
        else:
            rec.count('hist.guard.not-refused')     # judged by check_guard(); nothing to roll back here
            return
        app.add_route('/auto', AutoA() if fw == 'asgi' else AutoW())
        app.add_route('/auto2/{ident}', Auto2A() if fw == 'asgi' else Auto2W())
        app.add_route('/plan', PlanA() if fw == 'asgi' else PlanW())
        app.add_sink(sink_a if fw == 'asgi' else sink_w, '/sink')
        app.add_static_route('/static', bench.static_dir)
        apps[fw] = (app, other)
    label = 'history:guard'
    has_other = with_other
    mini_table(rec, bench, {fw: a for fw, (a, _) in apps.items()}, label, 'other' if has_other else 'none',
               dstate, desc, 0)
    for i, what in enumerate(desc['then']):
        for fw, (app, other) in apps.items():
            try:
                app.add_middleware({'empty-list': [], 'none': None, 'empty-tuple': (), 'other': other(),
                                    'other-list': [other()]}[what])
            except Exception as e:  # noqa
                rec.violation('legal-configuration-rejected', {'history': desc, 'step': i + 1, 'fw': fw, 'exc': repr(e)})
                return
        if what.startswith('other'):
            if has_other:
                return      # two "other" components: no twin for that, stop the history here
            has_other = True
        rec.count('hist.guard.reprepared')
        mini_table(rec, bench, {fw: a for fw, (a, _) in apps.items()}, label, 'other' if has_other else 'none',
                   dstate, desc, i + 1)


class PausingResponse(falcon.Response):
    """A custom response_type (documented App option) whose header operations are preemption points: the harness
    lets a second request run through the same app while the first one is paused inside one of them - the
    single-threaded, deterministic equivalent of two requests overlapping on a threaded WSGI server."""

    hook = None

    def _tick(self, op):
        h = PausingResponse.hook
        if h is not None:
            h(op)

    def set_header(self, name, value):
        self._tick('set_header')
        return super().set_header(name, value)

    def set_headers(self, headers):
        self._tick('set_headers')
        return super().set_headers(headers)

    def append_header(self, name, value):
        self._tick('append_header')
        return super().append_header(name, value)

    def delete_header(self, name):
        self._tick('delete_header')
        return super().delete_header(name)

    def get_header(self, name, default=None):
        self._tick('get_header')
        return super().get_header(name, default=default)


OVERLAP_CONFIGS = [
    [('str', '*'), ('none', None), ('str', 'X-One')],
    [('set', [OA, OB]), ('set', [OA]), ('none', None)],
    [('str', '*'), ('str', '*'), ('list', ['X-One', 'X-Two'])],
]
# (target name, shape, origin)
OVERLAP_REQUESTS = [
    ('auto', ('OPTIONS', 'GET', None), OA),
    ('auto2', ('OPTIONS', 'DELETE', 'X-Custom'), OB),
    ('plan0', ('OPTIONS', 'PUT', 'content-type, Authorization'), OA),
    ('plan1', ('OPTIONS', 'GET', None), OA),                 # refused preflight
    ('static', ('OPTIONS', 'GET', 'Range'), OA),
    ('auto', ('GET', None, None), OB),
    ('auto', ('OPTIONS', 'GET', None), 'https://evil.test'),
    ('plan4', ('OPTIONS', 'GET', None), OA),                 # responder pre-sets its own grant
    ('auto', ('GET', None, None), None),
]


def history_overlap(rec, bench, desc):
    """Two requests overlap in one WSGI app: request A is paused before its k-th response-header operation (every k),
    request B runs completely, A resumes.  Each response is judged on its own by the usual oracle.

    desc: config (forms), a / b = indices into OVERLAP_REQUESTS, ticks = None (every k) or a list of k."""
    cfg = tuple(_norm_spec(x) for x in desc['config'])
    policy = make_policy(cfg)
    by_name = {t.name: t for t in all_targets()}
    ta, sa, oa = OVERLAP_REQUESTS[desc['a']]
    tb, sb, ob = OVERLAP_REQUESTS[desc['b']]
    ta, tb, sa, sb = by_name[ta], by_name[tb], tuple(sa), tuple(sb)
    try:
        cors = make_cors(cfg)
        app = falcon.App(middleware=[cors], response_type=PausingResponse)
        app.add_route('/auto', AutoW())
        app.add_route('/auto2/{ident}', Auto2W())
        app.add_route('/plan', PlanW())
        app.add_static_route('/static', bench.static_dir)
    except Exception as e:  # noqa
        rec.violation('legal-configuration-rejected', {'history': desc, 'exc': repr(e)})
        return
    state = {'n': 0, 'k': None, 'depth': 0, 'b': None}

    def hook(op):
        if state['depth']:
            return
        i = state['n']
        state['n'] += 1
        if i == state['k']:
            state['depth'] += 1
            try:
                state['b'] = run_one('wsgi', app, tb, sb, ob)
            finally:
                state['depth'] -= 1

    def run_a(k):
        state.update(n=0, k=k, b=None)
        PausingResponse.hook = hook
        try:
            return run_one('wsgi', app, ta, sa, oa)
        finally:
            PausingResponse.hook = None

    run_a(None)
    total = state['n']
    rec.count('hist.overlap.pause-points', total)
    ticks = desc.get('ticks')
    for k in (range(total) if ticks is None else ticks):
        got_a = run_a(k)
        got_b = state['b']
        d = dict(desc, ticks=[k])
        for who, t, shape, origin, got in (('a', ta, sa, oa, got_a), ('b', tb, sb, ob, got_b)):
            if got is None:
                continue
            check_exchange(rec, bench, 'wsgi', 'history:overlap', app, cfg, policy, t, shape, origin,
                           plan_spec=t.plan.spec() if t.plan else None, base_k='none',
                           extra={'history': d, 'judged': who}, got_pre=got)
            rec.count('hist.exchanges')
            rec.count('hist.overlap.judged-' + who)
        if got_b is not None:
            rec.count('hist.overlap.interleavings')
            pa = M.Exchange(oa, sa[0], sa[1], sa[2], True).preflight and policy.allowed(oa)
            pb = M.Exchange(ob, sb[0], sb[1], sb[2], True).preflight and policy.allowed(ob)
            if pa and pb:
                rec.count('hist.overlap.two-preflights')


def history_narrow(rec, bench, desc):
    """A CORSMiddleware subclass overrides the documented process_response() and calls super() only when its own
    rule agrees (excluded paths, origins suspended at run time, no preflights at all).  What the rule refuses must
    look like the app without a CORS policy, on WSGI and on ASGI alike.

    desc: config (forms), rule = 'path' | 'origin' | 'preflight', suspend = list of origin lists (one per step)."""
    cfg = tuple(_norm_spec(x) for x in desc['config'])
    try:
        cors = make_cors(cfg, NarrowedCORS)
        cors.rule = desc['rule']
        apps = {fw: build_app(fw, 'list', cors, bench.static_dir) for fw in ('wsgi', 'asgi')}
    except Exception as e:  # noqa
        rec.violation('legal-configuration-rejected', {'history': desc, 'exc': repr(e)})
        return
    for i, susp in enumerate(desc.get('suspend') or [[]]):
        cors.suspended = frozenset(susp)

        def refused(t, shape, origin, susp=frozenset(susp)):
            if desc['rule'] == 'path':
                return t.path.startswith('/plan')
            if desc['rule'] == 'origin':
                return origin in susp
            return shape[0] == 'OPTIONS'
        rec.count('hist.narrow.steps')
        mini_table(rec, bench, apps, 'history:narrow', 'none', list(cfg), desc, i, refused=refused)


# rare-but-legal framing of the three request headers the policy reads
FRAMING_CONFIGS = [
    [('str', '*'), ('none', None), ('none', None)],
    [('str', '*'), ('str', '*'), ('str', 'X-One')],
    [('str', OA), ('str', OA), ('none', None)],
    [('set', [OA, OB]), ('set', [OA]), ('list', ['X-One', 'X-Two'])],
    [('str', '*'), ('list', [OB]), ('none', None)],
]
EVIL = 'https://evil.test'
FRAMING_ORIGINS = [(EVIL, OA), (OA, EVIL), (OA, OA), (OA, OB), (OB, EVIL, OA), (OA,)]
FRAMING_SHAPES = [
    ('GET', None, None),
    ('OPTIONS', 'GET', None),
    ('OPTIONS', ('GET', 'POST'), None),                     # request-method field repeated
    ('OPTIONS', 'GET', ('X-A', 'X-B')),                     # list-valued field sent as two lines
    ('OPTIONS', ('', 'GET'), None),
    ('OPTIONS', None, ('X-A', 'X-B')),                      # no request-method: not a preflight
]
# CGI / wsgiref style gateways copy process variables into every environ; only HTTP_* keys are request headers
ENV_EXTRAS = [
    {'ORIGIN': OA}, {'ORIGIN': EVIL}, {'ORIGIN': OB, 'Origin': OA, 'origin': OA},
    {'ACCESS_CONTROL_REQUEST_METHOD': 'GET'}, {'ACCESS_CONTROL_REQUEST_HEADERS': 'X-A'},
    {'ORIGIN': OA, 'ACCESS_CONTROL_REQUEST_METHOD': 'GET', 'ACCESS_CONTROL_REQUEST_HEADERS': 'X-A'},
    {'HTTP_X_ORIGIN': OA, 'X_HTTP_ORIGIN': OA, 'REMOTE_ORIGIN': OA},
]


# present-but-empty / blank values of every request header the policy reads.  An empty
# Access-Control-Request-Method names no method: such an OPTIONS request is not a preflight (Exchange.preflight).
BLANK_SHAPES = [
    ('OPTIONS', '', None), ('OPTIONS', '', 'X-Custom'), ('OPTIONS', '', ''), ('OPTIONS', 'GET', ''),
    ('OPTIONS', None, ''), ('OPTIONS', ' ', None), ('OPTIONS', 'GET', ' '), ('OPTIONS', ('', ''), None),
    ('GET', '', None), ('GET', None, ''), ('POST', '', ''),
]
BLANK_ORIGINS = ['', ' ', ('', ''), ('', OA)]


def history_framing(rec, bench, desc):
    """Repeated header field lines (both frameworks) and non-header environ variables named like the headers the
    policy reads (WSGI).  desc: config (forms)."""
    cfg = tuple(_norm_spec(x) for x in desc['config'])
    policy = make_policy(cfg)
    try:
        cors = make_cors(cfg)
        apps = {fw: build_app(fw, 'list', cors, bench.static_dir) for fw in ('wsgi', 'asgi')}
    except Exception as e:  # noqa
        rec.violation('legal-configuration-rejected', {'history': desc, 'exc': repr(e)})
        return
    targets = hist_targets() + [t for t in all_targets() if t.name == 'plan0']
    extra = {'history': desc}
    for fw in ('wsgi', 'asgi'):
        for t in targets:
            spec = t.plan.spec() if t.plan else None
            for shape in FRAMING_SHAPES:
                for origin in FRAMING_ORIGINS + [OA, None]:
                    if not isinstance(origin, tuple) and not any(isinstance(x, tuple) for x in shape):
                        continue
                    check_exchange(rec, bench, fw, 'history:framing', apps[fw], cfg, policy, t, shape, origin,
                                   plan_spec=spec, base_k='none', extra=extra)
                    rec.count('hist.exchanges')
                    rec.count('hist.framing.repeated-fields.' + fw)
                    if isinstance(origin, tuple) and len(origin) > 1:
                        rec.count('hist.framing.repeated-origin.' + fw)
                        if policy.allowed(origin[-1]) and not policy.allowed(fold(origin)):
                            rec.count('hist.framing.last-origin-allowed-combined-not.' + fw)
                        if policy.allowed(origin[0]) and not policy.allowed(fold(origin)):
                            rec.count('hist.framing.first-origin-allowed-combined-not.' + fw)
    blank_targets = targets + [t for t in all_targets() if t.name in ('static', 'sink0', 'sink1', 'auto2')]
    for fw in ('wsgi', 'asgi'):
        for t in blank_targets:
            spec = t.plan.spec() if t.plan else None
            for shape in BLANK_SHAPES:
                for origin in (OA, OB, EVIL, None):
                    check_exchange(rec, bench, fw, 'history:framing', apps[fw], cfg, policy, t, shape, origin,
                                   plan_spec=spec, base_k='none', extra=extra)
                    rec.count('hist.exchanges')
                    rec.count('hist.framing.blank-request-headers.' + fw)
                    if shape[0] == 'OPTIONS' and shape[1] == '' and policy.allowed(origin):
                        rec.count('hist.framing.empty-request-method-allowed-origin.' + fw)
            for shape in (SHAPES[0], SHAPES[5], SHAPES[7], BLANK_SHAPES[0]):
                for origin in BLANK_ORIGINS:
                    check_exchange(rec, bench, fw, 'history:framing', apps[fw], cfg, policy, t, shape, origin,
                                   plan_spec=spec, base_k='none', extra=extra)
                    rec.count('hist.exchanges')
                    rec.count('hist.framing.blank-origin.' + fw)
    for t in targets:
        spec = t.plan.spec() if t.plan else None
        for shape in (SHAPES[0], SHAPES[5], SHAPES[7]):
            for origin in (None, OA, EVIL):
                for env_extra in ENV_EXTRAS:
                    check_exchange(rec, bench, 'wsgi', 'history:framing', apps['wsgi'], cfg, policy, t, shape, origin,
                                   plan_spec=spec, base_k='none', extra=extra, env_extra=env_extra)
                    rec.count('hist.exchanges')
                    rec.count('hist.framing.environ-extras')
                    if origin is None and any(policy.allowed(v) for v in env_extra.values()):
                        rec.count('hist.framing.no-origin-header-but-allowed-variable')


HISTORY_KINDS = {'reconfig': history_reconfig, 'alias': history_alias, 'guard': history_guard,
                 'overlap': history_overlap, 'narrow': history_narrow,
                 'framing': history_framing}


def history_descs():
    out = []
    # -- public-attribute reconfiguration: every ordered pair of values of one attribute, the other two fixed
    for how in ('assign', 'subclass'):
        for a in N_AO:
            for b in N_AO:
                if a == b:
                    continue
                for c in (N_AC[0], N_AC[1], N_AC[4]):
                    out.append({'kind': 'reconfig', 'how': how, 'start': [a, c, N_EH[1]],
                                'steps': [{'allow_origins': b}]})
        for a in N_AC:
            for b in N_AC:
                if a == b:
                    continue
                for o in (N_AO[0], N_AO[2]):
                    out.append({'kind': 'reconfig', 'how': how, 'start': [o, a, N_EH[0]],
                                'steps': [{'allow_credentials': b}]})
        for a in N_EH:
            for b in N_EH:
                if a != b:
                    out.append({'kind': 'reconfig', 'how': how, 'start': [N_AO[0], N_AC[0], a],
                                'steps': [{'expose_headers': b}]})
    # the constructor defaults followed by a complete configuration through the attributes, and there-and-back
    for o in N_AO[1:]:
        for c in N_AC:
            out.append({'kind': 'reconfig', 'how': 'subclass', 'start': [N_AO[0], N_AC[0], N_EH[0]],
                        'steps': [{'allow_origins': o, 'allow_credentials': c, 'expose_headers': N_EH[2]}]})
            out.append({'kind': 'reconfig', 'how': 'assign', 'start': [N_AO[0], N_AC[1], N_EH[0]],
                        'steps': [{'allow_origins': o}, {'allow_credentials': c}, {'allow_origins': N_AO[0]}]})
    # -- caller-owned collections mutated after construction
    evil = 'https://evil.test'
    muts = [
        [('ao', 'add', evil)], [('ao', 'discard', OA)], [('ao', 'clear', None)], [('ao', 'update', [OC, evil])],
        [('ac', 'add', OB)], [('ac', 'add', evil), ('ao', 'add', evil)], [('ac', 'clear', None)],
        [('eh', 'add', 'X-Late')], [('ao', 'add', '*')],
    ]
    for ao in (('set', [OA]), ('set', [OA, OB]), ('list', [OA, OB]), ('frozenset', [OA, OB]), ('str', '*')):
        for ac in (('none', None), ('str', '*'), ('set', [OA]), ('list', [OC]), ('set', [OA, OC])):
            for m in muts:
                if not any(dict(ao=ao, ac=ac, eh=('list', ['X-One']))[w][0] in ('set', 'list') for w, _, _ in m):
                    continue
                out.append({'kind': 'alias', 'ao': ao, 'ac': ac, 'eh': ('list', ['X-One']), 'mutations': m})
    for ao in (('set', [OA]), ('set', [OA, OB]), ('list', [OB, OC])):
        for m in muts[:4]:
            out.append({'kind': 'alias', 'ao': ao, 'ac': ao, 'eh': ('none', None), 'share': True, 'mutations': m})
    # -- refused add_middleware, then the app keeps being configured
    for initial in (None, 'other'):
        for refused in ('bare', 'list', 'with-other'):
            for then in (['empty-list'], ['none'], ['empty-tuple'], ['other'], ['other-list'],
                         ['empty-list', 'other', 'none']):
                out.append({'kind': 'guard', 'initial': initial, 'refused': refused, 'then': then})
    # -- a subclass narrowing the policy through the documented process_response()
    for cfg in ([('str', '*'), ('none', None), ('str', 'X-One')],
                [('set', [OA, OB]), ('str', '*'), ('none', None)],
                [('str', '*'), ('set', [OA, OC]), ('list', ['X-One', 'X-Two'])]):
        out.append({'kind': 'narrow', 'config': cfg, 'rule': 'path'})
        out.append({'kind': 'narrow', 'config': cfg, 'rule': 'preflight'})
        out.append({'kind': 'narrow', 'config': cfg, 'rule': 'origin', 'suspend': [[OB], [OB, OA], []]})
    # -- repeated header field lines / non-header environ variables
    for cfg in FRAMING_CONFIGS:
        out.append({'kind': 'framing', 'config': cfg})
    # -- two overlapping requests in one threaded-style WSGI app
    for ci, cfg in enumerate(OVERLAP_CONFIGS):
        for a in range(len(OVERLAP_REQUESTS)):
            for b in range(len(OVERLAP_REQUESTS)):
                if a != b and (ci == 0 or (a + b + ci) % 2 == 0):
                    out.append({'kind': 'overlap', 'config': cfg, 'a': a, 'b': b, 'ticks': None})
    return out


def histories(rec, bench):
    for idx, desc in enumerate(history_descs()):
        if idx % rec.nshards != rec.shard:
            continue
        rec.count('hist.' + desc['kind'])
        rec.seen('histories', repr(desc))
        HISTORY_KINDS[desc['kind']](rec, bench, desc)


# ---- random part

def rand_origin(rng):
    scheme = rng.choice(['https', 'http', 'HTTPS', 'moz-extension'])
    host = '.'.join(rng.choice(['api', 'App', 'www', 'xn--bcher-kva', 'b', 'EXAMPLE', 'example', 'test', 'localhost', '127.0.0.1', '[::1]'])
                    for _ in range(rng.randint(1, 3)))
    port = rng.choice(['', '', ':443', ':8080', ':80'])
    return '%s://%s%s' % (scheme, host, port)


def mutate_origin(rng, o):
    r = rng.randrange(8)
    if r == 0:
        return o.swapcase()
    if r == 1:
        return o.lower() if o != o.lower() else o.upper()
    if r == 2:
        return o + '.evil.test'
    if r == 3:
        return o + '/'
    if r == 4:
        return o[:-1] if len(o) > 1 else o
    if r == 5:
        return 'https://evil.test#' + o
    if r == 6:
        return o + ':443'
    return o.replace('://', '://x.')


def rand_form(rng, items, allow_none=False, allow_star=True):
    r = rng.random()
    if allow_none and r < 0.2:
        return ('none', None)
    if allow_star and r < 0.4:
        return ('str', '*')
    if allow_star and r < 0.45:
        return ('substr', '*')
    if len(items) == 1 and rng.random() < 0.5:
        return (rng.choice(['str', 'substr']), items[0])
    return (rng.choice(['list', 'set', 'tuple', 'iter', 'frozenset', 'sublist']), list(items))


def rand_plan(rng):
    allow = rng.choice([None, None, 'GET', 'GET, POST', 'DELETE, GET, PATCH', 'get', 'GET,POST'])
    fail = rng.choice([None, None, None, None, None, '403', '405allow', '500', 'status200', 'status403', 'status401hdr',
                       'redirect', 'status503'])
    preset = []
    r = rng.random()
    if r < 0.15:
        preset.append((M.ACAO, '*'))
    elif r < 0.3:
        preset.append((M.ACAO, OTHER))
    elif r < 0.4:
        preset += [(M.ACAO, OTHER), (M.ACAC, 'true')]
    elif r < 0.5:
        preset.append((M.ACAO, '@origin'))
    if rng.random() < 0.15:
        preset.append((M.ACAM, 'GET, POST'))
    if rng.random() < 0.1:
        preset.append((M.ACAH, 'X-Own'))
    if rng.random() < 0.1:
        preset.append((M.ACMA, '7'))
    if rng.random() < 0.1 and preset and preset[0][0] == M.ACAO:
        preset.append((M.ACEH, 'X-Own-Exposed'))
    return Plan(allow, preset, fail, rng.choice([200, 200, 204]))


def random_part(rec, bench):
    rng = rec.rng
    fixed = list(FIXED_TARGETS)
    next_plan = [max(REG) + 1]
    rounds = 0
    while rounds < 8 or rec.budget_ok(0.9):      # a minimum sized by count, then as far as the budget goes
        rounds += 1
        pool = [rand_origin(rng) for _ in range(rng.randint(1, 6))]
        pool = list(dict.fromkeys(pool))
        ao = rand_form(rng, pool[:rng.randint(1, len(pool))])
        extra = [rand_origin(rng) for _ in range(rng.randint(0, 2))]
        cred_items = [o for o in pool if rng.random() < 0.5] + extra
        ac = rand_form(rng, cred_items, allow_none=True) if cred_items or rng.random() < 0.5 else ('list', [])
        if ac[0] not in ('none', 'str') and not ac[1]:
            ac = ('list', [])
        eh_items = [rng.choice(['X-One', 'X-Two', 'ETag', 'Link', 'x-lower']) for _ in range(rng.randint(0, 3))]
        eh = rng.choice([('none', None), ('list', eh_items), ('tuple', eh_items), ('str', ', '.join(eh_items))])
        cfg = (ao, ac, eh, rng.choice(STYLES))
        policy = make_policy(cfg)
        rec.seen('configs', repr(cfg))
        rec.count('random.configs')
        ctx = rng.choice(CONTEXTS_ALONE + CONTEXTS_OTHER)
        apps = {fw: safe_app(rec, fw, ctx, cfg, bench.static_dir) for fw in ('wsgi', 'asgi')}
        if None in apps.values():
            continue
        plans = []
        for _ in range(4):
            p = rand_plan(rng)
            idx = next_plan[0]
            next_plan[0] += 1
            REG[idx] = p
            plans.append((idx, p))
        tl = list(fixed)
        for idx, p in plans:
            tl.extend(plan_targets(idx, p))
        if ctx in CONTEXTS_OTHER:
            tl.extend(OTHER_TARGETS)
        cands = sorted(set(pool) | set(cred_items))
        for _ in range(60):
            r = rng.random()
            if r < 0.1:
                origin = None
            elif r < 0.55:
                origin = rng.choice(cands)
            elif r < 0.85:
                origin = mutate_origin(rng, rng.choice(cands))
            else:
                origin = rng.choice(['null', rand_origin(rng), 'https://evil.test'])
            t = rng.choice(tl)
            if rng.random() < 0.6:
                shape = ('OPTIONS', rng.choice(['GET', 'POST', 'DELETE', 'PATCH', 'get', None, '']),
                         rng.choice([None, 'X-Custom', 'Content-Type, Authorization', 'x-a,x-b']))
            else:
                shape = (rng.choice(['GET', 'POST', 'HEAD', 'DELETE', 'PUT', 'PATCH']),
                         rng.choice([None, None, 'GET']), rng.choice([None, None, 'X-Custom']))
            fw = rng.choice(['wsgi', 'asgi'])
            check_exchange(rec, bench, fw, ctx, apps[fw], cfg, policy, t, shape, origin, rng.choice(ORIGIN_NAMES),
                           plan_spec=t.plan.spec() if t.plan else None)
            rec.count('random.exchanges')
        for idx, _p in plans:
            del REG[idx]
        bench.base_cache.clear()


def run(rec):
    rec.rule = ('configuration universe %d allow_origins forms x %d allow_credentials forms x %d expose_headers forms, '
                'each x request origins (%d incl. absent, case/port/suffix variants, null, origin-list) x %d request '
                'shapes x targets (auto-OPTIONS routes, %d responder plans on a route and on a sink, static route, '
                'unrouted, other-middleware short-circuit/denial) x WSGI/ASGI x middleware contexts; plus random '
                'configurations/histories; plus configuration histories (attribute reconfiguration on a running instance and '
                'in a subclass initialiser, caller-owned collections mutated after construction, refused add_middleware '
                'followed by further add_middleware calls) each followed by a reduced request table, and pairs of '
                'overlapping WSGI requests (A paused before each of its response-header operations while B runs). non-trivial = the request carries an Origin header; distinct by '
                '(framework, context, configuration, target, request shape, origin)'
                % (len(AO_FORMS), len(AC_FORMS), len(EH_FORMS), len(REQUEST_ORIGINS), len(SHAPES), len(PLANS)))
    rec.assumptions = [
        'reference policy vlib/models/c20_cors.py is a correct reading of the statement and docs/api/cors.rst',
        'origins are opaque case-sensitive strings; the illegal header "Origin: *" is not generated',
        'a responder that pre-sets Allow-Credentials without Allow-Origin is not generated',
        'whether ordinary grants stay on a FAILED preflight exchange is left open (only approval is forbidden)',
        'HTTPStatus with a 2xx status raised by an OPTIONS responder: success undetermined, only origin/credential cells '
        'judged; HTTPStatus with a 3xx/4xx/5xx status (incl. redirects) raised by responder/sink/middleware: a failed exchange',
        'twin app without the CORS component is the source of "what the responder produced"',
        'the constructor arguments may be given by keyword or positionally in the published order (allow_origins, '
        'expose_headers, allow_credentials), also through a forwarding subclass; plain str subclasses count as str',
        'a CORSMiddleware subclass that overrides the documented process_response() and calls super() only when its own '
        'rule agrees narrows the configuration: what the rule refuses must get no cross-origin header, WSGI and ASGI; '
        'a subclass instance next to cors_enable=True is a second policy like a plain instance',
        'several header field lines with one name are the one field whose value is their comma-joined list (RFC 9110 '
        '5.3, what WSGI servers and the ASGI request do): an Origin sent as two lines is that combined string; WSGI '
        'environ keys without the HTTP_ prefix (other than CONTENT_TYPE/CONTENT_LENGTH) are not request headers',
        'an Access-Control-Request-Method / -Headers field that is present but empty is sent as such; an empty request '
        'method names no method, so that OPTIONS request is not a preflight; a present-but-empty/blank Origin is judged '
        'by the safety cells only',
        'overlapping requests are modelled in one thread through a custom response_type whose header operations are '
        'the preemption points (B runs completely while A is paused); WSGI only - the ASGI CORS hook has no await',
        '"the configuration" = the value of the public attributes allow_origins / allow_credentials / expose_headers at '
        'request time; the constructor snapshots its arguments into them, so later mutation of a collection the caller '
        'passed does not change the configuration, an assignment to a public attribute (normalised form: "*" or a '
        'frozenset, header string) does, and a component refused by the cors_enable guard never belongs to the app',
    ]
    logging.getLogger('falcon').disabled = True
    static_dir = tempfile.mkdtemp(prefix='verif-c20-')
    try:
        with open(os.path.join(static_dir, 'a.txt'), 'wb') as fh:
            fh.write(b'static file\n')
        os.utime(os.path.join(static_dir, 'a.txt'), (1700000000, 1700000000))
        bench = Bench(static_dir)
        check_guard(rec, static_dir)
        exhaustive(rec, bench)
        histories(rec, bench)
        rec.exhaustive = True
        if rec.shard == 0:
            rec.note('exhaustive over the configuration universe (quick: one expose form per allow_origins x '
                     'allow_credentials pair, all form pairs covered; thorough: full product); request table per '
                     'context as described in table_for()')
        bench.base_cache.clear()
        random_part(rec, bench)
    finally:
        shutil.rmtree(static_dir, ignore_errors=True)
    # floors: about a third of what the quick tier reaches on the unchanged tree (the exhaustive part is
    # deterministic, so these do not depend on the seed or on machine load)
    for name, n in [
        ('mon.untouched', 5000), ('mon.disallowed-adds-nothing', 20000), ('mon.credentials-only-configured', 10000),
        ('mon.no-wildcard-with-credentials', 10000), ('mon.no-approval-outside-preflight', 8000),
        ('mon.no-approval-on-failed-exchange', 1000), ('mon.refused-preflight-withdraws-all', 1500),
        ('mon.approved-preflight', 3000), ('mon.table-origin', 10000), ('mon.table-expose', 10000),
        ('mon.duplicate-guard', 128), ('guard.rejected', 128), ('guard.accepted-legal', 16),
        ('guard.component.subclass', 32), ('guard.component.narrowing', 32), ('guard.component.sub-subclass', 32),
        ('cell.no_origin', 5000), ('cell.disallowed', 20000), ('cell.allowed.cred', 3000),
        ('cell.allowed.wildcard', 4000), ('cell.allowed.echo', 2000), ('cell.pf.successful', 4000),
        ('cell.pf.failed', 1000), ('cell.responder-preset-origin', 3000), ('cell.disallowed-with-preset', 5000),
        ('pf.approved-expected', 3000), ('pf.refused-expected', 1500), ('pf.refused-with-preset', 500),
        ('pf.approved-with-preset', 500), ('pf.approved-documented-allow-source', 500),
        ('fw.wsgi', 40000), ('fw.asgi', 40000), ('enable.exchanges', 5000),
        ('tgt.auto', 100), ('tgt.plan', 500), ('tgt.sink', 200), ('tgt.static', 60), ('tgt.unrouted', 60),
        ('tgt.sc-allow', 30), ('tgt.sc-noallow', 30), ('tgt.deny', 30),
        ('tgt.qgate-unrouted', 30), ('tgt.qgate-noallow-route', 30), ('tgt.rgate-noallow-route', 30),
        ('random.configs', 32), ('random.exchanges', 1900),
        # configuration histories (deterministic, identical in both tiers)
        ('hist.exchanges', 40000), ('hist.reconfig', 190), ('hist.reconfig.steps', 120), ('hist.reconfig.subclass', 90),
        ('hist.reconfig.origin-tightened', 60), ('hist.reconfig.origin-loosened', 60),
        ('hist.reconfig.credentials-changed', 100),
        ('hist.alias', 150), ('hist.alias.mutations', 150), ('hist.alias.mutated-set', 80),
        ('hist.alias.mutated-list', 60), ('hist.alias.late-added-origin', 40), ('hist.alias.late-removed-origin', 30),
        ('hist.alias.late-added-credential', 10),
        ('hist.guard', 36), ('hist.guard.refused', 72), ('hist.guard.reprepared', 36),
        ('hist.narrow', 9), ('hist.narrow.steps', 15), ('hist.narrow.refused-though-configured.wsgi', 100),
        ('hist.narrow.refused-though-configured.asgi', 100),
        ('hist.framing', 5), ('hist.framing.environ-extras', 1000),
        ('hist.framing.no-origin-header-but-allowed-variable', 200),
        ('hist.framing.repeated-origin.wsgi', 400), ('hist.framing.repeated-origin.asgi', 400),
        ('hist.framing.last-origin-allowed-combined-not.wsgi', 50),
        ('hist.framing.last-origin-allowed-combined-not.asgi', 50),
        ('hist.framing.first-origin-allowed-combined-not.asgi', 50),
        ('hist.framing.blank-request-headers.wsgi', 1000), ('hist.framing.blank-request-headers.asgi', 1000),
        ('hist.framing.empty-request-method-allowed-origin.wsgi', 200),
        ('hist.framing.empty-request-method-allowed-origin.asgi', 200),
        ('hist.framing.blank-origin.wsgi', 300), ('hist.framing.blank-origin.asgi', 300),
        ('hist.overlap', 100), ('hist.overlap.interleavings', 500), ('hist.overlap.two-preflights', 150),
        ('hist.overlap.judged-a', 500), ('hist.overlap.judged-b', 500),
    ] + [('style.' + st, 5) for st in STYLES] + [('tgt.%sgate-%s' % (st, g), 30) for st in 'qr' for g in GATES] + \
            [('pf.failed-with-allow.%s.%s' % (st, fw), 500) for st in ('mw-request', 'mw-resource', 'responder')
             for fw in ('wsgi', 'asgi')] + \
            [('pf.failed-with-allow.httpstatus.' + fw, 500) for fw in ('wsgi', 'asgi')] + \
            [('pf.failed-with-allow.httpstatus-mw.' + fw, 100) for fw in ('wsgi', 'asgi')] + \
            [('ctx.' + c, 8000) for c in CONTEXTS_ALONE] + [('ctx.' + c, 2000) for c in CONTEXTS_OTHER] + \
            [('ctx.' + c, 1000) for c in CONTEXTS_ENABLE]:
        rec.floor(name, n)
    if rec.counters.get('model.success-mismatch'):
        rec.mark_inconclusive('the check\'s model of its own targets disagrees with the baseline app (%d exchanges)'
                              % rec.counters['model.success-mismatch'])


def replay(rec, w):
    wit = w['witness']
    logging.getLogger('falcon').disabled = True
    static_dir = tempfile.mkdtemp(prefix='verif-c20-')
    try:
        with open(os.path.join(static_dir, 'a.txt'), 'wb') as fh:
            fh.write(b'static file\n')
        os.utime(os.path.join(static_dir, 'a.txt'), (1700000000, 1700000000))
        if 'history' in wit:
            bench = Bench(static_dir)
            desc = wit['history']
            HISTORY_KINDS[desc['kind']](rec, bench, desc)
            print('replayed history', desc, 'violations so far', rec.counters.get('violations', 0))
            rec.case('replay-extra')
            return
        if 'config' not in wit:
            check_guard(rec, static_dir)
            rec.case('guard')
            rec.case('guard2')
            return
        bench = Bench(static_dir)
        cfg = tuple(tuple(x) if isinstance(x, list) else x for x in wit['config'])
        policy = make_policy(cfg)
        fw, ctx = wit['fw'], wit['ctx']
        plan = Plan.from_spec(wit['plan']) if wit.get('plan') else None
        target = None
        if plan is not None:
            idx = int(wit['query'].split('=')[1])
            REG[idx] = plan
            for t in plan_targets(idx, plan):
                if t.path == wit['path']:
                    target = t
        else:
            for t in FIXED_TARGETS + OTHER_TARGETS:
                if t.name == wit['target']:
                    target = t
        cors = 'enable' if ctx in CONTEXTS_ENABLE else make_cors(cfg)
        app = build_app(fw, ctx, cors, static_dir)
        shape = tuple(wit['shape'])
        findings = check_exchange(rec, bench, fw, ctx, app, cfg, policy, target, shape, wit['origin'],
                                  wit.get('origin_name') or 'Origin', plan_spec=wit.get('plan'))
        got, _ = run_one(fw, app, target, shape, wit['origin'], wit.get('origin_name') or 'Origin')
        print('replayed: status', got[0], 'access-control headers', M.ac_items(got[1]),
              'allow', M.values(got[1], M.ALLOW), 'findings', [k for k, _ in findings])
        rec.case('replay-extra')
    finally:
        shutil.rmtree(static_dir, ignore_errors=True)
